"""C07 — application data cannot inject header lines or split a response.

Decided statically (TAINT + RX):

* every value stored in ``RequestHandler._headers`` by the header-producing
  APIs passes ``_convert_header_value``; every text return of that function is
  under a regex guard whose *language* (automaton, not pattern text) excludes
  NUL, CR and LF;
* the reason phrase stored in ``_reason`` is either validated by a regex whose
  language excludes NUL/CR/LF or replaced by a constant (flow-sensitive);
* header *names*: every store of an application-supplied name is validated
  upstream (in the API or in the ``HTTPHeaders`` method it lands in) for each of
  NUL/CR/LF that the final guard of ``write_headers`` does not detect;
* the final guard: every element of the list the header block is joined from
  is tested, the test detects CR and LF anywhere in the line, the failing edge
  cannot reach ``stream.write``, nothing is added to the list after the test;
* cookie name/attributes: the validation loop of ``set_cookie`` detects
  NUL/CR/LF in every text parameter that reaches the morsel, and Set-Cookie is
  emitted through ``add_header`` (so through the value check).

Not decided: that the parsed header block equals "exactly the intended lines"
as a parser-level statement; characters other than NUL/CR/LF.
"""
from __future__ import annotations

import ast

from .. import q
from ..cfg import must_facts
from ..rules import call_sites, event_facts, tainted_names
from ..mutate import mutate, remove_stmts, replace_expr, replace_stmt, parse_stmt, parse_expr
from ..model import AnalysisError
from ..x_taint import cond_cleaner_from, flow_taint, expr_tainted, regex_guard, regex_cleaner, guards_in, detects_all, HelperSummaries, Guard, resolve_pattern
from ..x_flow import expand_locals
from ..x_peval import UNK, peval, try_fold, make_resolver, pure_self_methods, module_constants, class_constants
from ..x_cookie import analyse as analyse_cookie, text_params

from ..x_http import norm_func
from ..x_objalias import subst_object_aliases, inline_constants, through_local

# private helpers that the rules model by name (sanitisers / summarised effects) and therefore must stay calls
KEEP_CALLS = {"_format_chunk", "_convert_header_value", "_clear_representation_headers", "_can_keep_alive", "_compressible_type",
              "_on_write_complete", "_finish_request", "_clear_callbacks"}


def F(ck, relpath, qualname):
    """The anchored function with its private same-file helpers inlined (function splitting is followed, depth 3)."""
    fi = ck.func(relpath, qualname)
    try:
        return inline_constants(subst_object_aliases(norm_func(ck.repo, fi, depth=3, no_inline=KEEP_CALLS)))
    except AnalysisError:
        raise
    except Exception as e:  # the normaliser must never turn into a verdict
        raise AnalysisError("cannot normalise %s: %r" % (qualname, e))


def fully_inlined(fi, keep=()):
    """No call of a private method of ``self`` is left in the normalised function (other than the ones the rules
    model by name): only then may the *absence* of an effect be reported as a violation."""
    for c in q.calls(fi.node):
        if isinstance(c.func, ast.Attribute) and q.dotted(c.func.value) in ("self", "cls") and c.func.attr.startswith("_") and not c.func.attr.startswith("__") and c.func.attr not in KEEP_CALLS and c.func.attr not in keep:
            return False
    return True


def absent(fi, what, keep=()):
    """Verdict for 'the required effect was not found': False (a violation) only when the function was fully
    recognised; otherwise the analysis fails closed."""
    if not fully_inlined(fi, keep):
        raise AnalysisError("%s: %s not found, and private helpers remain that could not be inlined" % (fi.qualname, what))
    return False


TECHNIQUE = "flow-sensitive taint over the CFG with regex guards decided by automaton inclusion; dominance/kill facts for the final CR/LF guard"
EXPLANATION = (
    "Sources are the parameters of the header-producing APIs of RequestHandler; sinks are stores into _headers/_reason/the cookie morsel "
    "and the lines written by HTTP1Connection.write_headers.  A guard counts only if the DFA of its pattern in the mode used "
    "(fullmatch/match/search) proves absence of NUL, CR and LF on the edge taken."
)
NOT_DECIDED = "parser-level equality of the emitted header block with the intended lines; characters other than NUL/CR/LF (e.g. other controls, colon in names); headers written by application-defined OutputTransforms"
LEVEL_NOTE = "isinstance(value, Integral/datetime) values are treated as character-free; http.cookies quoting of cookie *values* is trusted"

WEB = "tornado/web.py"
H1 = "tornado/http1connection.py"
HU = "tornado/httputil.py"
RH = "RequestHandler"
NUL, LF, CR = 0, 10, 13
FORBIDDEN = (NUL, LF, CR)
NAMES = {NUL: "NUL", LF: "LF", CR: "CR", 0x3B: "';'"}

NONTEXT_TYPES = {"numbers.Integral", "int", "float", "bool", "datetime.datetime", "datetime.date"}
VALUE_SANITIZERS = ("_convert_header_value", "format_timestamp")


def _fmt(bs):
    return "/".join(NAMES.get(b, "0x%02x" % b) for b in bs)


def _nontext_cleaner(n, kind, tainted):
    """``isinstance(v, <non-text type>)`` taken true: v carries no characters."""
    if n.kind == "test" and kind == "true" and q.is_call(n.ast, "isinstance") and len(n.ast.args) == 2:
        v = q.dotted(n.ast.args[0])
        t = n.ast.args[1]
        ts = t.elts if isinstance(t, ast.Tuple) else [t]
        if v and all(q.dotted(x) in NONTEXT_TYPES for x in ts):
            return [v]
    return []


# ---------------------------------------------------------------------------


def check_value_chars(ck):
    fi = F(ck, WEB, RH + "._convert_header_value")
    ps = [p for p in fi.params() if p != "self"]
    if len(ps) != 1:
        raise AnalysisError("_convert_header_value signature changed")
    gs = guards_in(ck.repo, fi)
    if not gs:
        ck.note("_convert_header_value: no regex guard applied directly to a value was recognised")
    for n, g in gs:
        adm = g.admitted(FORBIDDEN) if g.truthy_means_matched or True else []
        # the guard must be usable: one of its edges proves absence of NUL/CR/LF
        ok = g.clean_for("true", FORBIDDEN) or g.clean_for("false", FORBIDDEN)
        why = ""
        if not ok:
            why = " (language in %s mode admits %s)" % (g.mode, _fmt(adm) or _fmt(g.undetected(FORBIDDEN)))
        ck.ob("C07.value-chars", fi, n.ast, ok, "the header value regex, as used (%s), proves absence of NUL/CR/LF%s" % (g.mode, why))
    hs = HelperSummaries(ck.repo, fi, lambda h: regex_cleaner(ck.repo, h, FORBIDDEN, _nontext_cleaner), ("format_timestamp",))
    states = flow_taint(fi, ps, sanitizers=("format_timestamp",), clean_on_edge=hs.cleaner(regex_cleaner(ck.repo, fi, FORBIDDEN, _nontext_cleaner)), on_node=hs.on_node, expr_hook=hs.expr_hook)
    rets = fi.cfg.stmt_nodes(lambda n: n.kind == "stmt" and isinstance(n.ast, ast.Return) and n.ast.value is not None)
    ck.floor("C07.value-chars", len(rets), 1, "returns in _convert_header_value")
    for r in rets:
        bad = any(expr_tainted(r.ast.value, t, ("format_timestamp",), (), hs.expr_hook) for t in states.get(r.id, []))
        ck.ob("C07.value-chars", fi, r.ast, not bad, "every value returned is character-checked (or converted from a non-text type)")


def check_value_exact(ck):
    """A header value is either rejected or used exactly as supplied: _convert_header_value is evaluated concretely on
    sample values.  A value carrying CR/LF/NUL anywhere (also at the ends, where a strip() would silently remove it)
    must not be returned; a legal value — including leading/trailing blanks and tabs — must come back unchanged
    (bytes: decoded as latin-1, nothing else)."""
    fi = F(ck, WEB, RH + "._convert_header_value")
    ps = [p for p in fi.params() if p != "self"]
    if len(ps) != 1:
        raise AnalysisError("_convert_header_value signature changed")

    def rx_of(expr):
        try:
            return resolve_pattern(ck.repo, fi, expr)
        except AnalysisError:
            return None

    base = module_constants(fi)
    base.update(class_constants(ck.repo, WEB, RH))
    base.update(class_constants(ck.repo, WEB, RH, prefix=RH + "."))
    rets = fi.cfg.stmt_nodes(lambda n: n.kind == "stmt" and isinstance(n.ast, ast.Return))
    raises = fi.cfg.stmt_nodes(lambda n: n.kind == "stmt" and isinstance(n.ast, ast.Raise))
    known = {m: None for m in pure_self_methods(ck.repo, WEB, RH)}
    bad = ["x\r\n", "\r\nx", "a\nb", "a\rb", "a\x00b", "x\n", "\x00x", b"x\r\n", b"a\nb"]
    good = ["plain", " lead", "trail ", "\ttab\t", "a b", "caf\xe9", b"bytes ", b" \xe9"]
    n_dec = 0
    for value in bad + good:
        init = dict(base)
        init.update({ps[0]: value, "@resolve": make_resolver(ck.repo, WEB, RH), "@rx": rx_of})
        states = peval(fi.cfg, init, known_self_methods=known, track=lambda t: True)
        returned = [(r, env) for r in rets for _f, env in states.get(r.id, []) if not env.get("@undecided")]
        raised = [(r, env) for r in raises for _f, env in states.get(r.id, []) if not env.get("@undecided")]
        if not returned and not raised:
            continue  # nothing decided for this sample: no evidence either way
        n_dec += 1
        if value in bad:
            for r, env in returned:
                got = try_fold(r.ast.value, env) if r.ast.value is not None else None
                ck.ob("C07.value-exact", fi, r.ast, False, "a value containing CR, LF or NUL (%r) is rejected, not returned (returned %r)" % (value, got),
                      construct="value with a control character at %s accepted" % ("an end" if (value[:1] in ("\r", "\n", "\x00", b"\r", b"\n") or value[-1:] in ("\r", "\n", "\x00", b"\r", b"\n")) else "the middle"))
            if not returned:
                ck.ob("C07.value-exact", fi, fi.node, True, "a value containing CR, LF or NUL (%r) is rejected" % (value,))
        else:
            want = value if isinstance(value, str) else value.decode("latin1")
            for r, env in returned:
                got = try_fold(r.ast.value, env) if r.ast.value is not None else None
                if got is UNK:
                    continue
                ck.ob("C07.value-exact", fi, r.ast, got == want, "a legal value is used exactly as supplied (%r -> %r)" % (value, got), construct="legal value altered before it is sent")
            if raised and not returned:
                ck.ob("C07.value-exact", fi, raised[0][0].ast, False, "a legal value (%r) is accepted" % (value,), construct="legal value rejected")
    if n_dec < 6:
        raise AnalysisError("_convert_header_value could be evaluated concretely for only %d of %d sample values" % (n_dec, len(bad) + len(good)))


def _header_writers(ck):
    """(fi, cfg node, kind, name expr, value expr) for every direct write to self._headers in RequestHandler."""
    from ..rules import callers_of, references_to

    out = []
    for fi0 in list(ck.repo.module(WEB).funcs.values()):
        if "self" not in fi0.params()[:1]:
            continue
        fi = norm_func(ck.repo, fi0, depth=3, no_inline=KEEP_CALLS)
        if not any(q.dotted(x) == "self._headers" for x in q.walk_body(fi.node) if isinstance(x, ast.Attribute)):
            continue
        if fi0.name.startswith("_") and not fi0.name.startswith("__") and fi0.name not in KEEP_CALLS:
            # a private helper is judged where it is used: inlined into its callers (parameters replaced by the
            # callers' arguments).  It must then really have been inlined everywhere it is called.
            calls = callers_of(ck.repo, fi0.name, [WEB])
            refs = references_to(ck.repo, fi0.name, [WEB])
            if calls and len(refs) == len(calls):
                for cfi, _c in calls:
                    ncfi = norm_func(ck.repo, cfi, depth=3, no_inline=KEEP_CALLS)
                    if any(q.call_attr(x) == fi0.name for x in q.calls(ncfi.node, local=True)):
                        raise AnalysisError("private helper %s writes self._headers but could not be inlined into %s" % (fi0.qualname, cfi.qualname))
                continue
        ck.use(fi0)
        for node in fi.cfg.stmt_nodes(lambda n: n.kind == "stmt"):
            st = node.ast
            if isinstance(st, (ast.Assign, ast.AugAssign)):
                tgts = st.targets if isinstance(st, ast.Assign) else [st.target]
                for t in tgts:
                    if isinstance(t, ast.Subscript) and q.dotted(t.value) == "self._headers":
                        out.append((fi, node, "__setitem__", t.slice, st.value, st))
            for c in q.calls(st):
                if isinstance(c.func, ast.Attribute) and q.dotted(c.func.value) == "self._headers" and c.func.attr in ("add", "update", "setdefault", "parse_line"):
                    if c.func.attr != "add" or q.arg(c, 0, "name") is None or q.arg(c, 1, "value") is None:
                        raise AnalysisError("%s writes self._headers through %s(): unknown idiom" % (fi.qualname, c.func.attr))
                    out.append((fi, node, "add", q.arg(c, 0, "name"), q.arg(c, 1, "value"), c))
    return out


def check_value_sanitized(ck, writers):
    n = 0
    for fi, node, kind, name, value, site in writers:
        ps = [p for p in fi.params() if p != "self"] + ["self._new_cookie", "self.request"]
        states = flow_taint(fi, ps, sanitizers=VALUE_SANITIZERS)
        bad = any(expr_tainted(value, t, VALUE_SANITIZERS) for t in states.get(node.id, []))
        n += 1
        ck.ob("C07.value-sanitized", fi, site, not bad, "a caller-supplied header value reaches _headers only through _convert_header_value")
    ck.floor("C07.value-sanitized", n, 2, "direct writes to self._headers")
    # the indirect producers use the sanitising APIs
    for qn, callee, what in ((RH + ".redirect", "self.set_header", "Location"), (RH + ".flush", "self.add_header", "Set-Cookie")):
        fi = F(ck, WEB, qn)
        cs = [c for _n, c in call_sites(fi, callee) if isinstance(q.arg(c, 0, "name"), ast.Constant) and q.arg(c, 0, "name").value == what]
        ck.ob("C07.value-sanitized", fi, fi.node, len(cs) >= 1 or absent(fi, "%s(%r, ..)" % (callee, what)), "%s emits %s through %s (the value check applies)" % (qn, what, callee), construct="%s not emitted through %s" % (what, callee))


def _bound_matcher(repo, fi, e):
    """``P.search`` / ``P.match`` / ``P.fullmatch`` used as a function value -> (pattern text, mode)."""
    if isinstance(e, ast.Attribute) and e.attr in ("search", "match", "fullmatch"):
        return resolve_pattern(repo, fi, e.value), e.attr
    return None


def _scan_of(repo, fi, e):
    """Recognise an expression that scans a whole list with a regex:
    ``next(filter(P.search, L), None)``, ``next((x for x in L if P.search(x)), None)``,
    ``any(P.search(x) for x in L)``, ``any(map(P.search, L))``.
    Returns (guard, list expression, kind) with kind 'first' (value or None) / 'any' (bool); None if not a scan."""
    if not isinstance(e, ast.Call) or not isinstance(e.func, ast.Name):
        return None

    def from_gen(g, want_if):
        if not isinstance(g, (ast.GeneratorExp, ast.ListComp)) or len(g.generators) != 1 or not isinstance(g.generators[0].target, ast.Name):
            return None
        gen = g.generators[0]
        v = gen.target.id
        cond = None
        if want_if:
            if len(gen.ifs) != 1 or q.dotted(g.elt) != v:
                return None
            cond = gen.ifs[0]
        else:
            if gen.ifs:
                return None
            cond = g.elt
        rg = regex_guard(repo, fi, cond)
        if rg is None or rg.var != v or not rg.truthy_means_matched:
            return None
        return rg, gen.iter

    if e.func.id == "next" and 1 <= len(e.args) <= 2:
        if len(e.args) == 2 and not (isinstance(e.args[1], ast.Constant) and e.args[1].value is None):
            return None
        src = e.args[0]
        if isinstance(src, ast.Call) and isinstance(src.func, ast.Name) and src.func.id == "filter" and len(src.args) == 2:
            bm = _bound_matcher(repo, fi, src.args[0])
            if bm is None:
                return None
            return Guard("<element>", bm[0], bm[1], True, e), src.args[1], "first"
        r = from_gen(src, True)
        return (r[0], r[1], "first") if r else None
    if e.func.id == "any" and len(e.args) == 1:
        src = e.args[0]
        if isinstance(src, ast.Call) and isinstance(src.func, ast.Name) and src.func.id == "map" and len(src.args) == 2:
            bm = _bound_matcher(repo, fi, src.args[0])
            if bm is None:
                return None
            return Guard("<element>", bm[0], bm[1], True, e), src.args[1], "any"
        r = from_gen(src, False)
        return (r[0], r[1], "any") if r else None
    return None


def _list_guards(ck, fi):
    """(anchor node, test node, guard, list expression, edge kind taken when a bad line was found | None)"""
    cfg = fi.cfg
    out = []
    for n in cfg.stmt_nodes(lambda n: n.kind == "for"):
        tgt = n.ast.target
        scanned = n.ast.iter
        if isinstance(tgt, ast.Tuple) and len(tgt.elts) == 2 and all(isinstance(x, ast.Name) for x in tgt.elts) and q.is_call(n.ast.iter, "enumerate") and len(n.ast.iter.args) >= 1:
            tgt, scanned = tgt.elts[1], n.ast.iter.args[0]  # the index is irrelevant, every element is visited
        if not isinstance(tgt, ast.Name):
            continue
        for t in cfg.stmt_nodes(lambda m: m.kind == "test"):
            if not any(t.ast is x for st in n.ast.body for x in ast.walk(st)):
                continue
            # the match may have been stored in an explaining local first (m = P.search(line); if m is None: ...)
            keep0 = {q.dotted(c.func.value) for c in q.calls(fi.node) if isinstance(c.func, ast.Attribute) and c.func.attr in ("append", "extend", "insert") and q.dotted(c.func.value)}
            g = regex_guard(ck.repo, fi, expand_locals(fi, t.ast, keep=keep0 | {tgt.id}))
            if g is not None and g.var == tgt.id:
                out.append((n, t, g, scanned, None))
    # containers that are built up step by step keep their name (expanding them would replace the list by its
    # initial literal); everything else is looked through
    keep = {q.dotted(c.func.value) for c in q.calls(fi.node) if isinstance(c.func, ast.Attribute) and c.func.attr in ("append", "extend", "insert") and q.dotted(c.func.value)}
    for t in cfg.stmt_nodes(lambda m: m.kind == "test"):
        e = expand_locals(fi, t.ast, keep=keep)
        found_on = "true"
        if isinstance(e, ast.Compare) and len(e.ops) == 1 and isinstance(e.comparators[0], ast.Constant) and e.comparators[0].value is None:
            if isinstance(e.ops[0], ast.Is):
                found_on = "false"
            elif not isinstance(e.ops[0], ast.IsNot):
                continue
            e = e.left
        sc = _scan_of(ck.repo, fi, e)
        if sc is None:
            continue
        g, lst_expr, _kind = sc
        # the node where the scan is evaluated: the definition of the local the test reads, or the test itself
        anchor = t
        names = q.names_in(t.ast)
        for st_node in cfg.stmt_nodes(lambda m: m.kind == "stmt" and isinstance(m.ast, (ast.Assign, ast.AnnAssign)) and m.ast.value is not None):
            if (q.assigned_paths(st_node.ast) & names) and _scan_of(ck.repo, fi, expand_locals(fi, st_node.ast.value, keep=keep)) is not None:
                anchor = st_node
        out.append((anchor, t, g, lst_expr, found_on))
    return out


def _probe_final_guard(ck, fi):
    """Concrete evaluation of write_headers (server mode) on responses with a lone CR / LF / NUL in the reason phrase,
    in a header value and in a header name — also behind a multi-valued header, where the number of header lines
    differs from the number of distinct names.  Returns (where, byte, written bytes) for every probe whose bytes
    reach stream.write on a fully decided path; None if not even a clean response can be followed to the write."""
    ps = fi.params()
    if len(ps) < 4:
        raise AnalysisError("write_headers signature changed")
    sl, hd = ps[1], ps[2]
    getall = [c for c in q.calls(fi.node) if isinstance(c.func, ast.Attribute) and c.func.attr == "get_all" and q.dotted(c.func.value) == hd]
    if not getall:
        return None
    key = "call:" + q.unparse(getall[0])
    writes = {n.id: c for n, c in call_sites(fi, "self.stream.write") if not isinstance(q.arg(c, 0, "data"), ast.Constant)}
    if not writes:
        return None
    known = {m: None for m in pure_self_methods(ck.repo, H1, "HTTP1Connection")}
    known["_format_chunk"] = None
    resolver = make_resolver(ck.repo, H1, "HTTP1Connection")

    def rx_of(expr):
        try:
            return resolve_pattern(ck.repo, fi, expr)
        except AnalysisError:
            return None

    # What iterating the header container yields: verified on HTTPHeaders.__iter__ (one entry per distinct name, in
    # insertion order) — only then is the ordered-names model used; otherwise the container stays an unordered set.
    ordered = False
    if ck.repo.has_func(HU, "HTTPHeaders.__iter__"):
        it = ck.repo.func(HU, "HTTPHeaders.__iter__")
        rets = [n for n in q.walk_body(it.node) if isinstance(n, ast.Return) and n.value is not None]
        ordered = len(rets) == 1 and q.is_call(rets[0].value, "iter") and len(rets[0].value.args) == 1 and q.dotted(rets[0].value.args[0]) == "self._as_list"

    def run(reason, pairs):
        seen = []

        def hook(n, env):
            if n.id in writes:
                # only a path on which every branch was decided is evidence; anything else is "as far as I can see"
                seen.append((try_fold(q.arg(writes[n.id], 0, "data"), env), bool(env.get("@undecided"))))
            return None

        names = []
        for n_, _v in pairs:
            if n_ not in names:
                names.append(n_)
        init = module_constants(fi)
        init.update(class_constants(ck.repo, H1, "HTTP1Connection"))
        init.update({"self.is_client": False, "self._request_start_line.version": "HTTP/1.1", "self._request_start_line.method": "GET",
                "self._disconnect_on_finish": False, sl + ".code": 200, sl + "[1]": 200, sl + "[2]": reason, sl + ".reason": reason,
                hd: tuple(names) if ordered else frozenset(names), "@names-model:" + hd: ordered,
                key: tuple(pairs), "call:self.stream.closed()": False, ps[3]: None, "@resolve": resolver, "@rx": rx_of})
        peval(fi.cfg, init, hook=hook, known_self_methods=known, pure_methods=("get_all",), track=lambda t: True)
        return seen

    clean = [v for v, und in run("OK", (("Content-Length", "0"), ("X-Probe", "v"))) if not und]
    if not clean or any(v is UNK or not isinstance(v, bytes) for v in clean):
        return None  # write_headers cannot be followed concretely on a clean response: no evidence either way
    out = []
    CL = ("Content-Length", "0")
    for byte in (LF, CR, NUL):
        ch = chr(byte)
        bad_value, bad_name = ("X-Probe", "a" + ch + "b"), ("X" + ch + "Probe", "v")
        variants = [("the reason phrase", "OK" + ch + "x", (CL,)),
                    ("a header value", "OK", (CL, bad_value)),
                    ("a header name", "OK", (CL, bad_name)),
                    # several lines for one name: the number of lines differs from the number of distinct names
                    ("the value of the last header line after a multi-valued header", "OK", (CL, ("X-Multi", "1"), ("X-Multi", "2"), bad_value)),
                    ("the name of the last header line after a multi-valued header", "OK", (CL, ("X-Multi", "1"), ("X-Multi", "2"), ("X-Multi", "3"), bad_name)),
                    ("a later value of a multi-valued header", "OK", (CL, ("X-Multi", "1"), ("X-Multi", "a" + ch + "b"))),
                    ("the first header line", "OK", (bad_value, CL, ("X-Multi", "1"), ("X-Multi", "2")))]
        for where, reason, pairs in variants:
            for data, und in run(reason, pairs):
                if und or data is UNK or not isinstance(data, bytes):
                    continue
                if ch.encode("latin1") in data.replace(b"\r\n", b""):
                    out.append((where, byte, data))
                    break
    return out


def _final_guard(ck):
    """Analyse the per-line guard of write_headers; returns the set of bytes it detects."""
    fi = F(ck, H1, "HTTP1Connection.write_headers")
    cfg = fi.cfg
    loops = _list_guards(ck, fi)
    # Whatever the shape of the guard, it can be *refuted*: evaluate write_headers concretely on responses whose start
    # line / a header line carries a lone CR, LF or NUL (also behind a multi-valued header) and see whether the bytes
    # reach stream.write on a path where every branch was decided.  A counterexample is a violation.
    cex = _probe_final_guard(ck, fi)
    for where, byte, data in (cex or []):
        if byte == NUL:
            continue  # NUL is the name rule's business (C07.name-ctl); CR and LF are what this guard must stop
        ck.ob("C07.final-guard", fi, fi.node, False, "a lone %s in %s is rejected before the header block is written (concrete counterexample: write_headers hands %r to stream.write)" % (_fmt([byte]), where, data[:90]),
              construct="header block with a lone %s in %s reaches stream.write" % (_fmt([byte]), where))
    if cex and any(byte != NUL for _w, byte, _d in cex):
        return set()  # nothing can be relied upon from a guard that was refuted
    if not loops:
        raise AnalysisError("write_headers: no scan of the header lines with a regex was recognised (for-loop with a guard, next(filter(..)), any(..))%s: the guard is of a shape this rule cannot decide"
                            % (", and concrete probing found no counterexample" if cex is not None else ", and the function cannot be followed concretely"))
    writes = [(n, c) for n, c in call_sites(fi, "self.stream.write") if not isinstance(q.arg(c, 0, "data"), ast.Constant)]
    ck.floor("C07.final-guard", len(writes), 1, "stream.write(<header block>) in write_headers")
    detected = set()
    for fn, tn, g, lst_expr, found_on in loops:
        if found_on is None:
            good = [k for k in ("true", "false") if g.clean_for(k, (LF, CR))]
            det = [b for b in FORBIDDEN if any(g.clean_for(k, (b,)) for k in ("true", "false"))]
        else:
            # whole-list scan: the list is clean on the 'nothing found' edge iff a failed match proves absence
            ok_scan = g.clean_for("false", (LF, CR))
            good = [("false" if found_on == "true" else "true")] if ok_scan else []
            det = [b for b in FORBIDDEN if g.clean_for("false", (b,))]
        ck.ob("C07.final-guard", fi, tn.ast, len(good) == 1, "the final guard, as used (%s), detects CR and LF anywhere in a line (undetected: %s)" % (g.mode, _fmt([b for b in (LF, CR) if b not in det]) or "-"))
        if len(good) != 1:
            continue
        bad_kind = "false" if good[0] == "true" else "true"
        # the failing edge never reaches the write nor a normal return
        start = [s for s, k in cfg.succ[tn.id] if k == bad_kind]
        reach = set(start)
        stack = list(start)
        while stack:
            x = stack.pop()
            for y, _k in cfg.succ[x]:
                if y not in reach:
                    reach.add(y)
                    stack.append(y)
        escapes = cfg.exit.id in reach or any(w.id in reach for w, _ in writes) or fn.id in reach
        ck.ob("C07.final-guard", fi, tn.ast, not escapes, "a line failing the guard aborts write_headers (no write, no next line, no normal return)", construct="guard failure does not abort: " + q.normalize_construct(tn.ast, q.local_names(fi.node)))
        lst = q.dotted(lst_expr)
        if lst is None:
            # positively a subset (a slice / element / conditional choice of lists) -> violation; anything else is
            # a shape this rule does not understand -> fail closed, never a verdict
            subset = isinstance(lst_expr, ast.Subscript) or (isinstance(lst_expr, ast.IfExp) and any(isinstance(x, ast.Subscript) for x in ast.walk(lst_expr)))
            if not subset:
                raise AnalysisError("write_headers: the scanned collection %s is not a plain list name" % q.unparse(lst_expr)[:60])
            ck.ob("C07.final-guard", fi, lst_expr, False, "the guard iterates over the whole list of lines (not a slice/subset)")
            continue
        ck.ob("C07.final-guard", fi, lst_expr, True, "the guard iterates over the whole list of lines (not a slice/subset)")
        mut = lambda n, lst=lst: n.kind == "stmt" and (
            lst in q.assigned_paths(n.ast) or any(isinstance(c.func, ast.Attribute) and q.dotted(c.func.value) == lst and c.func.attr in ("append", "extend", "insert", "__iadd__") for c in q.calls(n.ast))
        )
        facts = event_facts(fi, {"checked": lambda n, fn=fn: n.id == fn.id}, {"checked": mut}, cond_facts=False)
        derived = tainted_names(fi, [lst])
        # the list that is tested must be the very list the header block is joined from (not one of its contributors)
        for wn, c in writes:
            a = q.arg(c, 0, "data")
            joined = set()
            names = set(q.names_in(a))
            for st in q.walk_body(fi.node):
                if isinstance(st, (ast.Assign, ast.AugAssign)) and (q.assigned_paths(st) & names):
                    for j in ast.walk(st.value):
                        if isinstance(j, ast.Call) and q.call_attr(j) == "join" and len(j.args) == 1 and isinstance(j.args[0], ast.Name):
                            joined.add(j.args[0].id)
            if not joined:
                raise AnalysisError("write_headers: cannot find the list the header block is joined from (unknown idiom)")
            ck.ob("C07.final-guard", fi, lst_expr, joined == {lst}, "the list that is tested ('%s') is the list the header block is joined from (%s): start line and every header line are covered" % (lst, ", ".join(sorted(joined))),
                  construct="guard iterates %s but the block is joined from %s" % ("the joined list" if joined == {lst} else "another list", "it" if joined == {lst} else "a list with more lines"))
        for wn, c in writes:
            a = q.arg(c, 0, "data")
            ck.ob("C07.final-guard", fi, c, ("@checked", True) in facts[wn.id], "every line was tested after the last modification of '%s' and before stream.write" % lst)
            ck.ob("C07.final-guard", fi, c, expr_tainted(a, derived), "the bytes written are built from the tested list '%s'" % lst, construct="written data not derived from the tested list")
        # header material must not bypass the list: the only route from headers/start_line to the write is the list
        ps = fi.params()
        if len(ps) >= 3:
            for wn, c in writes:
                a = q.arg(c, 0, "data")
                names = set()
                for nm in q.names_in(a):
                    names.add(nm)
                direct = [st for st in q.walk_body(fi.node) if isinstance(st, (ast.Assign, ast.AugAssign)) and (q.assigned_paths(st) & names)]
                for st in direct:
                    v = st.value
                    leaks = [p for p in (ps[1], ps[2]) if p in q.names_in(v)]
                    ck.ob("C07.final-guard", fi, st, not leaks, "header/start-line material reaches the written data only through the tested list")
        detected |= set(det)
    return detected


def check_names(ck, writers, detected_by_final):
    residual = [b for b in FORBIDDEN if b not in detected_by_final]
    ck.note("final guard detects %s; header names must be validated upstream for %s" % (_fmt(sorted(detected_by_final)) or "nothing", _fmt(residual) or "nothing"))
    n = 0
    for fi, node, kind, name, value, site in writers:
        ps = [p for p in fi.params() if p != "self"]
        if not ps:
            continue
        hs = HelperSummaries(ck.repo, fi, lambda h: regex_cleaner(ck.repo, h, residual))
        states = flow_taint(fi, ps, clean_on_edge=hs.cleaner(regex_cleaner(ck.repo, fi, residual)), on_node=hs.on_node, expr_hook=hs.expr_hook) if residual else {}
        tainted_here = bool(residual) and any(expr_tainted(name, t, (), (), hs.expr_hook) for t in states.get(node.id, []))
        if not expr_tainted(name, set(ps)):
            continue  # constant / framework-chosen name
        n += 1
        ok = True
        why = "validated in the API itself" if residual else "all of NUL/CR/LF are detected by the final guard"
        if tainted_here:
            # does the HTTPHeaders method the name lands in validate it?
            callee = F(ck, HU, "HTTPHeaders." + kind)
            cps = [p for p in callee.params() if p != "self"]
            cstates = flow_taint(callee, cps[:1], clean_on_edge=regex_cleaner(ck.repo, callee, residual))
            ok = True
            nsink = 0
            for cn in callee.cfg.stmt_nodes(lambda m: m.kind == "stmt" and isinstance(m.ast, ast.Assign)):
                for t in cn.ast.targets:
                    if isinstance(t, ast.Subscript) and (q.dotted(t.value) or "").startswith("self"):
                        nsink += 1
                        if any(expr_tainted(t.slice, s) for s in cstates.get(cn.id, [])):
                            ok = False
            if nsink == 0:
                raise AnalysisError("HTTPHeaders.%s stores nothing: unknown idiom" % kind)
            why = "validated by HTTPHeaders.%s" % kind if ok else "neither %s nor HTTPHeaders.%s rejects %s in the name, and the final guard does not detect it" % (fi.qualname, kind, _fmt(residual))
        ck.ob("C07.name-ctl", fi, site, ok, "a caller-supplied header name cannot carry NUL/CR/LF to the wire: " + why)
    ck.floor("C07.name-ctl", n, 2, "writes of caller-supplied header names")


def check_reason(ck):
    n_store = 0
    n_guard = 0
    for fi in ck.repo.direct_methods(WEB, RH):
        stores = fi.cfg.stmt_nodes(lambda n: n.kind == "stmt" and isinstance(n.ast, (ast.Assign, ast.AnnAssign, ast.AugAssign)) and "self._reason" in q.assigned_paths(n.ast))
        if not stores:
            continue
        ps = text_params(fi)
        hs = HelperSummaries(ck.repo, fi, lambda h: regex_cleaner(ck.repo, h, FORBIDDEN))
        cleaner = hs.cleaner(regex_cleaner(ck.repo, fi, FORBIDDEN))
        states = flow_taint(fi, ps, clean_on_edge=cleaner, on_node=hs.on_node, expr_hook=hs.expr_hook)
        cc = cond_cleaner_from(fi, cleaner)
        for s in stores:
            n_store += 1
            bad = any(expr_tainted(s.ast.value, t, (), (), hs.expr_hook, cc) for t in states.get(s.id, []))
            ck.ob("C07.reason", fi, s.ast, not bad, "a caller-supplied reason phrase is stored only after a regex check excluding NUL/CR/LF (or replaced by a constant)")
        for n, g in guards_in(ck.repo, fi):
            n_guard += 1
            ok = g.clean_for("true", FORBIDDEN) or g.clean_for("false", FORBIDDEN)
            ck.ob("C07.reason", fi, n.ast, ok, "the reason-phrase regex, as used (%s), proves absence of NUL/CR/LF" % g.mode)
    ck.floor("C07.reason", n_store, 2, "stores to self._reason")
    # send_error / HTTPError.reason funnel through set_status
    se = F(ck, WEB, RH + ".send_error")
    ck.ob("C07.reason", se, se.node, not q.stores_to(se.node, "self._reason") and (len(call_sites(se, "self.set_status")) >= 1 or absent(se, "self.set_status(..)")),
          "send_error passes its reason (and HTTPError.reason) to set_status instead of storing it", construct="send_error bypasses set_status")
    # the status line is built from the integer code and _reason only
    fl = F(ck, WEB, RH + ".flush")
    for _n, c in call_sites(fl, "httputil.ResponseStartLine", "ResponseStartLine"):
        a_code, a_reason = q.arg(c, 1, "code"), q.arg(c, 2, "reason")
        if a_code is None or a_reason is None:
            raise AnalysisError("RequestHandler.flush: arguments of ResponseStartLine not recognised")
        ck.ob("C07.reason", fl, c, q.dotted(expand_locals(fl, a_code)) == "self._status_code" and q.dotted(expand_locals(fl, a_reason)) == "self._reason", "the response start line carries the stored status code and the validated reason")
    wh = F(ck, H1, "HTTP1Connection.write_headers")
    sl = wh.params()[1]
    for node in wh.cfg.stmt_nodes(lambda n: n.kind == "stmt"):
        for b in ast.walk(node.ast):
            if isinstance(b, ast.BinOp) and isinstance(b.op, ast.Mod) and isinstance(b.left, ast.Constant) and isinstance(b.left.value, str) and b.left.value.startswith("HTTP/1.1 ") and sl in q.names_in(b.right):
                ck.ob("C07.reason", wh, b, b.left.value == "HTTP/1.1 %d %s", "the status code is formatted as an integer (%d) in the status line")


def check_cookie(ck, writers):
    """Cookie name/attributes reach the wire only inside the Set-Cookie value.
    That value is emitted through add_header -> _convert_header_value (checked
    above), so a cookie parameter needs its own NUL/CR/LF check only if that
    emission route is not the sanitising one."""
    fl = F(ck, WEB, RH + ".flush")
    emitted = []
    for n in q.walk_body(fl.node):
        if isinstance(n, ast.For) and "self._new_cookie" in q.paths_in(n.iter) and isinstance(n.target, ast.Name):
            for c in q.calls(n):
                if q.is_call(c, "self.add_header", "self.set_header") and isinstance(q.arg(c, 0, "name"), ast.Constant) and q.arg(c, 0, "name").value == "Set-Cookie" and n.target.id in q.names_in(c):
                    emitted.append(c)
    other_readers = [fi.qualname for fi in ck.repo.methods(WEB, RH) if fi.name not in ("set_cookie", "flush") and any(q.dotted(x) == "self._new_cookie" for x in q.walk_body(fi.node) if isinstance(x, ast.Attribute))]
    sanitised_route = len(emitted) >= 1 and not other_readers and not any(fi.name == "flush" and expr_tainted(value, {"self._new_cookie"}) or False for fi, node, kind, name, value, site in writers)
    # direct writes of cookie material into _headers (bypassing add_header) make the route unsanitised
    for fi, node, kind, name, value, site in writers:
        if fi.name == "flush":
            loopvars = {n.target.id for n in q.walk_body(fi.node) if isinstance(n, ast.For) and "self._new_cookie" in q.paths_in(n.iter) and isinstance(n.target, ast.Name)}
            if loopvars & q.names_in(value):
                sanitised_route = False
    ck.note("Set-Cookie emission route %s" % ("passes the header value check (add_header)" if sanitised_route else "does NOT pass the header value check"))
    fi, sinks, loops = analyse_cookie(ck.repo, FORBIDDEN)
    ck.use(fi)
    n = 0
    for s in sinks:
        n += 1
        if s.kind == "attr":
            ck.ob("C07.cookie-ctl", fi, s.stmt, sanitised_route or not s.value_tainted, "a cookie attribute reaches the wire only through the header value check, or is checked for NUL/CR/LF in set_cookie")
        else:
            ck.ob("C07.cookie-ctl", fi, s.stmt, sanitised_route or not s.key_tainted, "the cookie name reaches the wire only through the header value check, or is checked for NUL/CR/LF in set_cookie",
                  construct="cookie name unchecked: " + q.normalize_construct(s.stmt, q.local_names(fi.node)))
    ck.floor("C07.cookie-ctl", n, 5, "morsel stores in set_cookie")


def run(ck):
    ck.rule("C07.value-chars", "_convert_header_value: every text value returned passed a regex guard whose language (in the mode used) excludes NUL, CR and LF")
    ck.rule("C07.value-exact", "_convert_header_value, evaluated on sample values: anything containing CR/LF/NUL (also at the ends) is rejected; a legal value is returned exactly as supplied — no lossy rewriting between the supplied, the checked and the sent value")
    ck.rule("C07.value-sanitized", "every caller-supplied value written to RequestHandler._headers goes through _convert_header_value; redirect/Set-Cookie use the sanitising APIs")
    ck.rule("C07.name-ctl", "a caller-supplied header name is validated (in the API or in the HTTPHeaders method it lands in) for each of NUL/CR/LF the final guard does not detect")
    ck.rule("C07.reason", "the reason phrase reaches _reason/the status line only validated by a regex excluding NUL/CR/LF or replaced by a constant")
    ck.rule("C07.final-guard", "write_headers tests every line of the header block with a guard that detects CR and LF anywhere, aborts on failure, and writes only what was tested")
    ck.rule("C07.cookie-ctl", "cookie name/attributes reach the wire only inside a Set-Cookie value that passes the header value check, or are checked for NUL/CR/LF in set_cookie")
    check_value_chars(ck)
    check_value_exact(ck)
    writers = _header_writers(ck)
    check_value_sanitized(ck, writers)
    detected = _final_guard(ck)
    check_names(ck, writers, detected)
    check_reason(ck)
    check_cookie(ck, writers)



def _in(rel, qn, edit):
    return lambda repo: mutate(repo, rel, qn, edit)


def _u(n):
    return ast.unparse(n)


def _const_repl(old, new):
    return replace_expr(lambda n: isinstance(n, ast.Constant) and n.value == old, lambda n: ast.Constant(value=new))


def _final_pattern(f):
    """Rewrite the bytes pattern of the module-level final-guard regex."""

    def edit(root):
        for st in root.body:
            if isinstance(st, ast.Assign) and any(isinstance(t, ast.Name) and t.id == "CR_OR_LF_RE" for t in st.targets):
                for c in ast.walk(st.value):
                    if isinstance(c, ast.Constant) and isinstance(c.value, bytes):
                        nv = f(c.value)
                        if nv != c.value:
                            c.value = nv
                            return True
        return False

    return edit


def _mode(old, new, recv_contains):
    def pred(n):
        return isinstance(n, ast.Attribute) and n.attr == old and recv_contains in _u(n.value)

    return replace_expr(pred, lambda n: ast.Attribute(value=n.value, attr=new, ctx=ast.Load()))


def _swap_guard_and_extend(root):
    """Move the per-line guard loop in front of the statement that adds the header lines."""
    for node in ast.walk(root):
        body = getattr(node, "body", None)
        if isinstance(body, list):
            for i, st in enumerate(body):
                if isinstance(st, ast.For) and "CR_OR_LF_RE" in _u(st):
                    for j in range(i - 1, -1, -1):
                        if isinstance(body[j], ast.Expr) and ".extend(" in _u(body[j]):
                            body.insert(j, body.pop(i))
                            return True
    return False


def _guard_logs_only(root):
    for node in ast.walk(root):
        if isinstance(node, ast.For) and "CR_OR_LF_RE" in _u(node):
            for sub in ast.walk(node):
                if isinstance(sub, ast.If):
                    sub.body = [parse_stmt("gen_log.warning('illegal header line')")]
                    return True
    return False


MUTANTS = [
    ("add_header bypasses _convert_header_value", _in(WEB, RH + ".add_header", replace_expr(lambda n: q.is_call(n, "self._convert_header_value"), lambda n: n.args[0])), "C07.value-sanitized"),
    ("redirect stores Location directly", _in(WEB, RH + ".redirect", replace_stmt(lambda st: "set_header" in _u(st), lambda st: [parse_stmt("self._headers['Location'] = url")])), "C07.value-sanitized"),
    ("Set-Cookie written straight into _headers", _in(WEB, RH + ".flush", replace_expr(lambda n: q.is_call(n, "self.add_header"), lambda n: ast.Call(func=parse_expr("self._headers.add"), args=n.args, keywords=[]))), ("C07.value-sanitized", "C07.cookie-ctl")),
    ("_VALID_HEADER_CHARS widened with LF", _in(WEB, RH, _const_repl(r"[\x09\x20-\x7e\x80-\xff]*", r"[\x09\x0a\x20-\x7e\x80-\xff]*")), "C07.value-chars"),
    ("header value checked with match instead of fullmatch", _in(WEB, RH + "._convert_header_value", _mode("fullmatch", "match", "_VALID_HEADER_CHARS")), "C07.value-chars"),
    ("bytes values returned before the character check", _in(WEB, RH + "._convert_header_value", replace_stmt(lambda st: isinstance(st, ast.Assign) and "decode" in _u(st), lambda st: [parse_stmt("return value.decode('latin1')")])), "C07.value-chars"),
    ("reason phrase: only the '<' test remains", _in(WEB, RH + ".set_status", replace_expr(lambda n: isinstance(n, ast.BoolOp) and isinstance(n.op, ast.Or) and "reason_phrase" in _u(n), lambda n: n.values[0])), "C07.reason"),
    ("reason phrase checked with match instead of fullmatch", _in(WEB, RH + ".set_status", _mode("fullmatch", "match", "reason_phrase")), "C07.reason"),
    ("invalid reason no longer replaced", _in(WEB, RH + ".set_status", replace_stmt(lambda st: isinstance(st, ast.Assign) and isinstance(st.value, ast.Constant) and st.value.value == "Unknown", lambda st: [ast.Pass()])), "C07.reason"),
    ("reason_phrase class widened with LF", _in(HU, "_ABNF", replace_expr(lambda n: isinstance(n, ast.Constant) and isinstance(n.value, str) and n.value.startswith("(?:[\\t ]|"), lambda n: ast.Constant(value="(?:[\\t\\n ]|"))), "C07.reason"),
    ("final guard loses LF", _in(H1, None, _final_pattern(lambda b: b.replace(b"\n", b"\r"))), "C07.final-guard"),
    ("final guard loses NUL while set_header still trusts it (F7 re-introduced)", _in(H1, None, _final_pattern(lambda b: b.replace(b"\x00", b"\r"))), "C07.name-ctl"),
    ("final guard uses match (only the start of the line)", _in(H1, "HTTP1Connection.write_headers", _mode("search", "match", "CR_OR_LF_RE")), "C07.final-guard"),
    ("final guard skips the start line", _in(H1, "HTTP1Connection.write_headers", replace_stmt(lambda st: isinstance(st, ast.For) and "CR_OR_LF_RE" in _u(st), lambda st: [ast.For(target=st.target, iter=parse_expr("lines[1:]"), body=st.body, orelse=[])])), "C07.final-guard"),
    ("header lines added after the final guard ran", _in(H1, "HTTP1Connection.write_headers", _swap_guard_and_extend), "C07.final-guard"),
    ("guard folded into the header-line encoding (status line no longer scanned)", _in(H1, "HTTP1Connection.write_headers", lambda root: _guard_on_header_lines_only(root)), "C07.final-guard"),
    ("reason phrase validated stripped but stored raw", _in(WEB, RH + ".set_status", replace_expr(lambda n: isinstance(n, ast.Call) and q.call_attr(n) == "fullmatch" and "reason_phrase" in _u(n), lambda n: ast.Call(func=n.func, args=[parse_expr("reason.strip()")], keywords=[]))), "C07.reason"),
    ("header value validated stripped but returned raw", _in(WEB, RH + "._convert_header_value", replace_expr(lambda n: isinstance(n, ast.Call) and q.call_attr(n) == "fullmatch", lambda n: ast.Call(func=n.func, args=[parse_expr("retval.strip()")], keywords=[]))), "C07.value-chars"),
    ("header value check applied to the first 4096 characters only", _in(WEB, RH + "._convert_header_value", replace_expr(lambda n: isinstance(n, ast.Call) and q.call_attr(n) == "fullmatch", lambda n: ast.Call(func=n.func, args=[parse_expr("retval[:4096]")], keywords=[]))), "C07.value-chars"),
    ("server side scans only the status line (seeded C07-adv3)", _in(H1, "HTTP1Connection.write_headers", replace_stmt(lambda st: isinstance(st, ast.For) and "CR_OR_LF_RE" in _u(st), lambda st: [ast.For(target=st.target, iter=parse_expr("lines if self.is_client else lines[:1]"), body=st.body, orelse=[])])), "C07.final-guard"),
    ("per-line guard replaced by a CRLF count on the serialized block (seeded C07-adv4: a lone CR or LF passes)", _in(H1, "HTTP1Connection.write_headers", lambda root: _block_level_guard(root)), "C07.final-guard"),
    ("header lines scanned by zip(headers, lines[1:]) — one per distinct name, trailing lines unscanned (seeded C07-adv5)", _in(H1, "HTTP1Connection.write_headers", lambda root: _zip_scan(root)), "C07.final-guard"),
    ("header value stripped before the character check (seeded C07-adv6: 'x\\r\\n' silently rewritten)", _in(WEB, RH + "._convert_header_value", lambda root: _strip_before_check(root)), "C07.value-exact"),
    ("final guard only logs", _in(H1, "HTTP1Connection.write_headers", _guard_logs_only), "C07.final-guard"),
    ("send_error stores the reason itself", _in(WEB, RH + ".send_error", replace_stmt(lambda st: "self.set_status(status_code, reason=reason)" in _u(st), lambda st: [parse_stmt("self._status_code = status_code"), parse_stmt("self._reason = reason or 'Unknown'")])), "C07.reason"),
]


def _guard_on_header_lines_only(root):
    """encoded = [..header lines..]; test encoded; lines.extend(encoded)  (the start line escapes the test)"""
    for node in ast.walk(root):
        body = getattr(node, "body", None)
        if isinstance(body, list):
            for i, st in enumerate(body):
                if isinstance(st, ast.Expr) and ".extend(" in _u(st) and isinstance(st.value, ast.Call) and isinstance(st.value.args[0], ast.GeneratorExp):
                    for j in range(i + 1, len(body)):
                        if isinstance(body[j], ast.For) and "CR_OR_LF_RE" in _u(body[j]):
                            gen = st.value.args[0]
                            lst = _u(st.value.func.value)
                            loop = body[j]
                            loop.iter = ast.Name(id="encoded", ctx=ast.Load())
                            new = [ast.Assign(targets=[ast.Name(id="encoded", ctx=ast.Store())], value=ast.ListComp(elt=gen.elt, generators=gen.generators), lineno=st.lineno),
                                   loop, parse_stmt("%s.extend(encoded)" % lst)]
                            del body[j]
                            body[i:i + 1] = new
                            return True
    return False


def _block_level_guard(root):
    for node in ast.walk(root):
        body = getattr(node, "body", None)
        if isinstance(body, list):
            for i, st in enumerate(body):
                if isinstance(st, ast.For) and "CR_OR_LF_RE" in _u(st):
                    lst = _u(st.iter)
                    body[i:i + 1] = [
                        parse_stmt("_block = b'\\r\\n'.join(%s) + b'\\r\\n\\r\\n'" % lst),
                        ast.parse("if _block.count(b'\\r\\n') != len(%s) + 1 or b'\\x00' in _block:\n    raise ValueError('Illegal characters in headers')" % lst).body[0],
                    ]
                    return True
    return False


def _zip_scan(root):
    ps = [a.arg for a in root.args.args]
    for node in ast.walk(root):
        body = getattr(node, "body", None)
        if isinstance(body, list):
            for i, st in enumerate(body):
                if isinstance(st, ast.For) and "CR_OR_LF_RE" in _u(st) and isinstance(st.target, ast.Name):
                    lst, var = _u(st.iter), st.target.id
                    first = ast.parse("if CR_OR_LF_RE.search(%s[0]):\n    raise ValueError('Illegal characters in start line')" % lst).body[0]
                    loop = ast.For(target=ast.Tuple(elts=[ast.Name(id="_nm", ctx=ast.Store()), ast.Name(id=var, ctx=ast.Store())], ctx=ast.Store()),
                                   iter=parse_expr("zip(%s, %s[1:])" % (ps[2], lst)), body=st.body, orelse=[])
                    body[i:i + 1] = [first, loop]
                    return True
    return False


def _strip_before_check(root):
    body = root.body
    for i, st in enumerate(body):
        if isinstance(st, ast.If) and "_VALID_HEADER_CHARS" in _u(st.test):
            body.insert(i, parse_stmt("retval = retval.strip()"))
            return True
    return False
