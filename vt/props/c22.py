"""C22 -- linkify output is escaped text plus safe links only (tornado/escape.py).

Decided:
* order: the URL regex runs over ``xhtml_escape(text)`` and linkify returns that substitution;
* make_link returns either the untouched match or one anchor built from the match; the anchor return is
  reachable only when the protocol is permitted (or absent and not required), and a protocol-less href
  carries the ``http://`` prefix;
* the URL regex (AST from re._parser) can consume '&' only as part of a complete character entity that
  html.escape produces -- so a link never starts, ends or is cut by the regex inside an entity;
* the shortening code never splits an entity: after every truncation of the label the last '&' is looked
  up and the label is cut there, either (a) by a numeric look-back window that covers the longest entity
  the regex admits, relative to where the label was cut, or (b) whenever no ';' follows that '&'.

Not decided: the shortening heuristics as such (what is kept), label-is-prefix, extra_params content.
"""
from __future__ import annotations

import ast

from .. import q
from ..cfg import explore, must_facts, holds, canon_fact
from ..mutate import mutate, remove_stmts, replace_expr, replace_stmt, parse_stmt, parse_expr
from ..model import AnalysisError
from ..rules import tainted_names
from .. import x_sre
from ..x_emit import fold_format, PH
from ..x_valuewalk import single_assignment, own_nodes, alias_expand
from .c21 import qualify

TECHNIQUE = "dataflow/dominance on make_link's CFG + exhaustive case analysis of the protocol decision by partial evaluation (constant folding) of make_link's CFG + regex-AST entity analysis + exhaustive folding of the clip guard over all cut positions"
EXPLANATION = (
    "linkify: the subject of _URL_RE.sub is the (to_unicode of the) xhtml_escape of the text parameter and the substitution is what is returned.  "
    "make_link: every return is classified (untouched match / anchor); an exploration tracking the predicates proto, proto in permitted_protocols, "
    "require_protocol carries the href state (raw / http-prefixed).  _URL_RE's pattern constant is parsed with re._parser: every atom that can "
    "match '&' must be a literal inside a run whose strings are complete html.escape entities; the longest such entity is L.  The clip guard "
    "`if <test>: label = label[:amp]` is folded for every cut length n and every amp in (n-L, n): it must be true there (numeric form), or be the "
    "complete-entity form (no ';' after the last '&')."
)
NOT_DECIDED = "which part of a long URL is kept when shortening; label-is-prefix only over the bounded URL family of C22.label-prefix; the content returned by an extra_params callable; html.escape itself"

E = "tornado/escape.py"
HTML_ENTITIES = {"&amp;", "&lt;", "&gt;", "&quot;", "&#x27;"}  # what html.escape(quote=True) emits (trusted base)


def _link_ctx(ck):
    lk = ck.func(E, "linkify")
    mk = [f for f in ck.repo.nested(lk) if f.qualname.count(".<locals>.") == 1]
    subs = [c for c in q.calls(lk.node) if isinstance(c.func, ast.Attribute) and c.func.attr == "sub"]
    if len(subs) != 1 or len(subs[0].args) != 2:
        raise AnalysisError("linkify: expected one <regex>.sub(callback, text) call")
    sub = subs[0]
    cb = q.dotted(sub.args[0])
    mk = [f for f in mk if f.name == cb]
    if len(mk) != 1:
        raise AnalysisError("linkify: substitution callback %s is not a local function" % cb)
    return lk, ck.use(mk[0]), sub


def regex_info(ck, sub):
    m = ck.repo.module(E)
    rname = q.dotted(sub.func.value)
    if rname not in m.assigns:
        raise AnalysisError("URL regex %s is not a module constant" % rname)
    v = m.assigns[rname]
    if not (q.is_call(v, "re.compile") and v.args):
        raise AnalysisError("URL regex is not re.compile(<constant>)")
    pat = x_sre.pattern_constant(v.args[0], wrappers=("to_unicode", "_unicode", "native_str", "to_basestring"), module=m)
    flags = x_sre.flag_value(q.kwarg(v, "flags") or (v.args[1] if len(v.args) > 1 else None))
    return rname, v, pat, flags, x_sre.parse(pat, flags)


def rule_escape_first(ck, lk, mk, sub):
    rid = "C22.escape-first"
    m = ck.repo.module(E)
    text_p = lk.params()[0]
    subj = sub.args[1]
    src = subj
    if isinstance(subj, ast.Name):
        # the reaching definition of the subject at the substitution
        cfg = lk.cfg
        sn = cfg.nodes_for(sub)
        defs = cfg.stmt_nodes(lambda n: n.kind == "stmt" and subj.id in q.assigned_paths(n.ast))
        last = [d for d in defs if all(cfg.dominates(d, s) for s in sn)]
        later = [d for d in defs if d not in last]
        if not last:
            ck.ob(rid, lk, sub, False, "the regex runs over the HTML-escaped text")
            return
        # the last dominating definition
        last.sort(key=lambda d: len(cfg.dominators()[d.id]))
        src = last[-1].ast.value
        ck.ob(rid, lk, sub, not [d for d in later if d.id != last[-1].id and not cfg.dominates(d, last[-1])], "no other binding of %s can reach the substitution" % subj.id)
    e = src
    while isinstance(e, ast.Call) and qualify(m, e.func) in ("to_unicode", "tornado.escape.to_unicode") and len(e.args) == 1:
        e = e.args[0]
    ok = isinstance(e, ast.Call) and qualify(m, e.func) in ("xhtml_escape", "tornado.escape.xhtml_escape") and len(e.args) == 1 and q.dotted(e.args[0]) == text_p
    ck.ob(rid, lk, sub, ok, "the regex runs over xhtml_escape(%s) -- everything outside anchors is the escaped input" % text_p)
    rets = [n for n in own_nodes(lk.node) if isinstance(n, ast.Return)]
    ck.floor(rid, len(rets), 1, "returns in linkify")
    for r in rets:
        ok = r.value is sub or (isinstance(r.value, ast.Name) and single_assignment(lk.node, r.value.id) is sub)
        ck.ob(rid, lk, r, ok, "linkify returns the substitution result unchanged")


def _anchor(v):
    ff = fold_format(v) if v is not None else None
    if ff is None:
        return None
    t, xs, _ = ff
    if "<a " in t and "</a>" in t:
        return t, xs
    return None


MARK = "\u00a7MATCH\u00a7"
PERMITTED = ("http", "https")
PROTO_CASES = ("http", "https", "HTTP", "httpsx", "ftp", "javascript", "", None)
PURE_STR = {"startswith", "endswith", "lower", "upper", "strip", "lstrip", "rstrip", "casefold"}


def rich_fold(e, env):
    """Constant folding that also knows a few pure str/tuple operations (so that a guard such as
    ``proto.startswith(tuple(permitted))`` or ``proto.lower() in permitted`` is *decided* for a concrete case)."""
    from ..x_peval import UNK

    if isinstance(e, ast.Constant):
        return e.value
    d = q.dotted(e) if isinstance(e, (ast.Name, ast.Attribute)) else None
    if d is not None:
        if d in env and env[d] is not UNK:
            return env[d]
        raise q.NotFoldable(d)
    if isinstance(e, (ast.Tuple, ast.List, ast.Set)):
        return tuple(rich_fold(x, env) for x in e.elts)
    if isinstance(e, ast.BoolOp):
        r = None
        for v in e.values:
            r = rich_fold(v, env)
            if isinstance(e.op, ast.And) and not r:
                return r
            if isinstance(e.op, ast.Or) and r:
                return r
        return r
    if isinstance(e, ast.UnaryOp) and isinstance(e.op, ast.Not):
        return not rich_fold(e.operand, env)
    if isinstance(e, ast.Compare):
        left = rich_fold(e.left, env)
        for op, rhs in zip(e.ops, e.comparators):
            right = rich_fold(rhs, env)
            try:
                ok = {ast.Eq: lambda: left == right, ast.NotEq: lambda: left != right, ast.In: lambda: left in right, ast.NotIn: lambda: left not in right,
                      ast.Lt: lambda: left < right, ast.LtE: lambda: left <= right, ast.Gt: lambda: left > right, ast.GtE: lambda: left >= right,
                      ast.Is: lambda: left is right or (left is None and right is None), ast.IsNot: lambda: not (left is right)}[type(op)]()
            except Exception as ex:
                raise q.NotFoldable(str(ex))
            if not ok:
                return False
            left = right
        return True
    if isinstance(e, ast.Call) and not e.keywords:
        if isinstance(e.func, ast.Name) and e.func.id in ("tuple", "list", "set", "frozenset", "bool", "len", "str") and len(e.args) == 1:
            v = rich_fold(e.args[0], env)
            try:
                return {"tuple": tuple, "list": tuple, "set": frozenset, "frozenset": frozenset, "bool": bool, "len": len, "str": str}[e.func.id](v)
            except Exception as ex:
                raise q.NotFoldable(str(ex))
        if isinstance(e.func, ast.Attribute) and e.func.attr in PURE_STR:
            recv = rich_fold(e.func.value, env)
            args = [rich_fold(a, env) for a in e.args]
            if isinstance(recv, str):
                try:
                    return getattr(recv, e.func.attr)(*args)
                except Exception as ex:
                    raise q.NotFoldable(str(ex))
    if isinstance(e, ast.Call) and not e.keywords and isinstance(e.func, ast.Attribute) and e.func.attr == "group" and len(e.args) == 1 and isinstance(e.args[0], ast.Constant):
        key = "%s.group(%r)" % (q.dotted(e.func.value), e.args[0].value)
        if key in env:
            return env[key]
        raise q.NotFoldable(key)
    if isinstance(e, ast.Call) and not e.keywords and isinstance(e.func, ast.Name) and callable(env.get("@call")) and e.func.id not in ("callable", "len", "str", "tuple", "list", "set", "frozenset", "bool", "min", "max", "int"):
        return env["@call"](e.func.id, [rich_fold(a, env) for a in e.args])
    if isinstance(e, ast.Call) and not e.keywords:
        if isinstance(e.func, ast.Name) and e.func.id == "callable" and len(e.args) == 1:
            v = rich_fold(e.args[0], env)
            if isinstance(v, (str, bytes, int, float, tuple, type(None))):
                return False
        if isinstance(e.func, ast.Name) and e.func.id in ("min", "max", "int") and e.args:
            try:
                return {"min": min, "max": max, "int": int}[e.func.id](*[rich_fold(a, env) for a in e.args])
            except q.NotFoldable:
                raise
            except Exception as ex:
                raise q.NotFoldable(str(ex))
        if isinstance(e.func, ast.Attribute) and e.func.attr in ("split", "rsplit", "rfind", "find", "partition", "rpartition", "count", "index", "join", "replace"):
            recv = rich_fold(e.func.value, env)
            args = [rich_fold(a, env) for a in e.args]
            if isinstance(recv, str):
                try:
                    r_ = getattr(recv, e.func.attr)(*[list(a) if isinstance(a, tuple) and e.func.attr == "join" else a for a in args])
                except Exception as ex:
                    raise q.NotFoldable(str(ex))
                return tuple(r_) if isinstance(r_, list) else r_
    if isinstance(e, ast.Subscript):
        base = rich_fold(e.value, env)
        try:
            if isinstance(e.slice, ast.Slice):
                lo = rich_fold(e.slice.lower, env) if e.slice.lower is not None else None
                hi = rich_fold(e.slice.upper, env) if e.slice.upper is not None else None
                st_ = rich_fold(e.slice.step, env) if e.slice.step is not None else None
                return base[lo:hi:st_]
            return base[rich_fold(e.slice, env)]
        except q.NotFoldable:
            raise
        except Exception as ex:
            raise q.NotFoldable(str(ex))
    if isinstance(e, ast.IfExp):
        return rich_fold(e.body, env) if rich_fold(e.test, env) else rich_fold(e.orelse, env)
    if isinstance(e, ast.JoinedStr):
        out = ""
        for v in e.values:
            if isinstance(v, ast.Constant):
                out += str(v.value)
            elif isinstance(v, ast.FormattedValue) and v.format_spec is None and v.conversion in (-1, 115):
                out += str(rich_fold(v.value, env))
            else:
                raise q.NotFoldable("format spec")
        return out
    if isinstance(e, ast.UnaryOp) and isinstance(e.op, ast.USub):
        return -rich_fold(e.operand, env)
    if isinstance(e, ast.BinOp):
        l, r = rich_fold(e.left, env), rich_fold(e.right, env)
        try:
            if isinstance(e.op, ast.Add):
                return l + r
            if isinstance(e.op, ast.Sub):
                return l - r
            if isinstance(e.op, ast.Mult) and isinstance(l, (int, float)) and isinstance(r, (int, float)):
                return l * r
            if isinstance(e.op, ast.Mod) and isinstance(l, str):
                return l % r
        except Exception as ex:
            raise q.NotFoldable(str(ex))
    raise q.NotFoldable(q.unparse(e))


def rule_make_link(ck, lk, mk, sub):
    """Exhaustive case analysis of make_link by partial evaluation of its CFG: the match is a marker string, the
    protocol group and the require/permitted settings take concrete values, every test that folds is decided."""
    from ..x_peval import peval, UNK, STOP

    rid_r = "C22.plain-returns"
    rid_p = "C22.protocol-guard"
    cfg = mk.cfg
    mp = mk.params()[0]
    perm = [p for p in lk.params() if "permitted" in p]
    req = [p for p in lk.params() if "require" in p]
    if len(perm) != 1 or len(req) != 1:
        raise AnalysisError("linkify: protocol parameters not found")
    perm, req = perm[0], req[0]
    rets = cfg.stmt_nodes(lambda n: n.kind == "stmt" and isinstance(n.ast, ast.Return))
    anchors = [r for r in rets if _anchor(r.ast.value)]
    plain = [r for r in rets if not _anchor(r.ast.value)]
    ck.floor(rid_r, len(plain), 1, "non-link returns in make_link")
    ck.floor(rid_p, len(anchors), 1, "anchor returns in make_link")
    href_var = None
    for r in anchors:
        t, xs = _anchor(r.ast.value)
        ck.ob(rid_r, mk, r.ast, t.count("<a ") == 1 and t.count("</a>") == 1 and t.strip().startswith("<a ") and t.strip().endswith("</a>"), "a linkified match becomes exactly one anchor element")
        i = t.find('href="' + PH)
        ok = i >= 0 and t[i + len('href="' + PH):].startswith('"')
        ck.ob(rid_r, mk, r.ast, ok, "the href value is interpolated inside double quotes")
        if ok:
            hv = q.dotted(xs[t[:i + len('href="')].count(PH)])
            href_var = href_var or hv
            ck.ob(rid_r, mk, r.ast, hv is not None and hv == href_var, "one href variable")
    if href_var is None:
        return
    group_nodes = {}
    for n in cfg.stmt_nodes(lambda n: n.kind == "stmt" and isinstance(n.ast, (ast.Assign, ast.AnnAssign)) and n.ast.value is not None):
        v = n.ast.value
        if isinstance(n.ast, ast.AnnAssign):
            if q.is_call(v, mp + ".group") and len(v.args) == 1 and isinstance(v.args[0], ast.Constant) and isinstance(n.ast.target, ast.Name):
                group_nodes[n.id] = [(n.ast.target.id, v.args[0].value)]
            continue
        if q.is_call(v, mp + ".group") and len(v.args) == 1 and isinstance(v.args[0], ast.Constant) and len(n.ast.targets) == 1 and isinstance(n.ast.targets[0], ast.Name):
            group_nodes[n.id] = [(n.ast.targets[0].id, v.args[0].value)]
        elif q.is_call(v, mp + ".group") and len(v.args) > 1 and all(isinstance(a_, ast.Constant) for a_ in v.args) and len(n.ast.targets) == 1 and isinstance(n.ast.targets[0], ast.Tuple) and len(n.ast.targets[0].elts) == len(v.args) and all(isinstance(t_, ast.Name) for t_ in n.ast.targets[0].elts):
            group_nodes[n.id] = [(t_.id, a_.value) for t_, a_ in zip(n.ast.targets[0].elts, v.args)]
    if not any(g == 2 for binds in group_nodes.values() for _, g in binds):
        raise AnalysisError("make_link: the protocol group is not bound to a local")
    n_anchor = n_plain = 0
    seen_cases = set()
    for proto in PROTO_CASES:
        for rq in (True, False):

            def hook(n, env, proto=proto):
                if n.id in group_nodes:
                    whole = (proto + "://" + MARK) if proto else ("www." + MARK)
                    for name, g in group_nodes[n.id]:
                        env[name] = {1: whole, 0: whole, 2: proto, 3: ("//" if proto else None)}.get(g, UNK)
                    return True
                return None

            def on_edge(n, kind, env):
                names = q.names_in(n.ast)
                try:
                    v = rich_fold(n.ast, env)
                except q.NotFoldable:
                    env["@g8_undecided"] = tuple(sorted(set(env.get("@g8_undecided", ())) | {q.unparse(n.ast)}))
                    return None
                if bool(v) != (kind == "true"):
                    return STOP
                return None

            states = peval(cfg, {req: rq, perm: PERMITTED, "@g8_undecided": ()}, hook=hook, on_edge=on_edge, follow_exc=False, refine=False, pure_methods=PURE_STR | {"group", "split", "rfind", "find", "replace", "format", "join", "partition"})
            expected = (proto in PERMITTED) or (not proto and not rq)
            case = "proto=%r require_protocol=%s" % (proto, rq)
            for r in rets:
                for _facts, env in states.get(r.id, []):
                    und = [t for t in env.get("@g8_undecided", ()) if {x for x in q.names_in(ast.parse(t, mode="eval"))} & ({req, perm} | {nm for binds in group_nodes.values() for nm, g in binds if g == 2})]
                    if r in anchors:
                        n_anchor += 1
                        if und:
                            raise AnalysisError("make_link: protocol test %s is not decided for %s" % (und, case))
                        key = ("a", proto, rq)
                        if key not in seen_cases:
                            seen_cases.add(key)
                            ck.ob(rid_p, mk, r.ast, expected, "%s: an anchor is produced only for a permitted protocol, or for no protocol when none is required" % case, construct="anchor for %s" % case)
                        h = env.get(href_var, UNK)
                        if h is UNK:
                            recoded = [c_.func.attr if isinstance(c_.func, ast.Attribute) else c_.func.id for st_ in q.stores_to(mk.node, href_var) for c_ in ast.walk(st_.value) if isinstance(c_, ast.Call) and q.call_attr(c_) in TRANSCODERS]
                            if recoded:
                                ck.ob(rid_p, mk, r.ast, False, "href is the matched (escaped) URL, optionally with the literal 'http://' prefix -- not a re-coded form of it (calls %s)" % recoded, construct="href recoded by %s" % recoded)
                                continue
                            raise AnalysisError("make_link: href is not a foldable function of the match for %s" % case)
                        whole = (proto + "://" + MARK) if proto else ("www." + MARK)
                        want = whole if proto else "http://" + whole
                        key = ("h", proto, rq, h)
                        if key not in seen_cases:
                            seen_cases.add(key)
                            ck.ob(rid_p, mk, r.ast, h == want, "%s: href is %s (found %r)" % (case, "the matched URL itself" if proto else "'http://' + the matched URL", h if not isinstance(h, str) else h.replace(MARK, "<match>")), construct="href for %s = %s" % (case, str(h).replace(MARK, "<match>")))
                    else:
                        n_plain += 1
                        v = r.ast.value
                        try:
                            val = rich_fold(v, env) if v is not None else None
                        except q.NotFoldable:
                            raise AnalysisError("make_link: value returned for a match that is not linkified is not a foldable function of the match (%s)" % q.unparse(v))
                        key = ("p", val)
                        if key not in seen_cases:
                            seen_cases.add(key)
                            ck.ob(rid_r, mk, r.ast, isinstance(val, str) and val.endswith(MARK) and val in ((str(proto) + "://" + MARK), "www." + MARK), "a match that is not linkified is returned exactly as matched (the escaped text)", construct="plain return %s" % str(val).replace(MARK, "<match>"))
    ck.floor(rid_p, n_anchor, 3, "anchor outcomes over the protocol cases")
    ck.floor(rid_r, n_plain, 3, "non-link outcomes over the protocol cases")


def _is_http_prefix(v, href_var, whole, mp):
    return isinstance(v, ast.BinOp) and isinstance(v.op, ast.Add) and q.is_const(v.left, "http://") and (q.dotted(v.right) == href_var or q.dotted(v.right) in whole or (q.is_call(v.right, mp + ".group") and q.is_const(v.right.args[0], 1)))


def _reaches(cfg, a, b):
    """b is reachable from a along non-exception edges."""
    seen = {a.id}
    st = [a.id]
    while st:
        x = st.pop()
        for y, k in cfg.succ[x]:
            if k != "exc" and y not in seen:
                seen.add(y)
                st.append(y)
    return b.id in seen


def entity_strings(tree):
    ents = set()
    problems = []
    for run in x_sre.literal_runs(tree):
        for s in run:
            i = s.find("&")
            while i >= 0:
                j = s.find(";", i)
                if j < 0:
                    problems.append(s)
                    break
                ents.add(s[i:j + 1])
                i = s.find("&", j)
    return ents, problems


def rule_regex_entities(ck, sub):
    rid = "C22.regex-entities"
    rname, node, pat, flags, tree = regex_info(ck, sub)
    ents, problems = entity_strings(tree)
    ck.ob(rid, None, node, not problems, "every literal '&' in %s is the start of a complete '&...;' literal (found %s)" % (rname, problems or "none incomplete"), construct="incomplete entity literals %s" % sorted(problems), file=E)
    live = sorted(e for e in ents if e in HTML_ENTITIES)
    ck.note("entities admitted by %s: %s; of these html.escape can produce %s (others can never occur in escaped text)" % (rname, sorted(ents), live))
    # no class / wildcard can consume '&'
    bad = []
    for op, av in x_sre.atoms(tree):
        if op is x_sre._OP["LITERAL"]:
            continue
        if x_sre.atom_matches(op, av, "&", bool(flags & 16)):
            bad.append(str(op))
    ck.ob(rid, None, node, not bad, "no character class or wildcard of %s can match '&' (so '&' is consumed only inside a complete entity)" % rname, construct="atoms matching & : %d" % len(bad), file=E)
    # html.escape leaves no raw markup characters, and the regex cannot produce them
    return max((len(e) for e in live), default=0)


def _slices_with_upper(e):
    return [s for s in ast.walk(e) if isinstance(s, ast.Subscript) and isinstance(s.slice, ast.Slice) and s.slice.upper is not None and s.slice.lower is None]


def _trunc_sites(F, label, derived):
    out = []
    for n in F.cfg.stmt_nodes(lambda n: n.kind == "stmt" and isinstance(n.ast, (ast.Assign, ast.AugAssign)) and label in q.assigned_paths(n.ast)):
        sl = [s_ for s_ in _slices_with_upper(n.ast.value) if q.names_in(s_.value) & derived]
        if sl:
            out.append((n, sl))
    return out


def rule_entity_clip(ck, lk, mk, sub, lmax):
    rid = "C22.entity-clip"
    cfg = mk.cfg
    # the label: the variable interpolated as the anchor's content
    anchors = [r for r in cfg.stmt_nodes(lambda n: n.kind == "stmt" and isinstance(n.ast, ast.Return)) if _anchor(r.ast.value)]
    t, xs = _anchor(anchors[0].ast.value)
    k = t[:t.find(">" + PH + "</a>") + 1].count(PH) if (">" + PH + "</a>") in t else None
    if k is None:
        raise AnalysisError("make_link: anchor label not found in %r" % t)
    label = q.dotted(xs[k])
    derived = tainted_names(mk, [label])
    if _trunc_sites(mk, label, derived):
        return _clip_in(ck, lk, mk, label, lmax)
    # function splitting: the shortening lives in a helper that receives the matched text and returns the label
    cands = []
    for n in cfg.stmt_nodes(lambda n: n.kind == "stmt" and isinstance(n.ast, ast.Assign) and (q.assigned_paths(n.ast) & derived)):
        for c in q.calls(n.ast.value):
            if isinstance(c.func, ast.Name) and c.args and (q.names_in(c.args[0]) & derived):
                h = mk.module.funcs.get(c.func.id) or mk.module.funcs.get(lk.qualname + ".<locals>." + c.func.id)
                if h is not None and h.params():
                    p0 = h.params()[0]
                    hd = tainted_names(h, [p0])
                    work = sorted({q.dotted(r.value) for r in q.walk_body(h.node) if isinstance(r, ast.Return) and r.value is not None and q.dotted(r.value) in hd and q.dotted(r.value) != p0})
                    for w_ in work:
                        if _trunc_sites(h, w_, hd):
                            cands.append((h, w_))
    if len(cands) == 1:
        ck.use(cands[0][0])
        return _clip_in(ck, lk, cands[0][0], cands[0][1], lmax)
    if len(cands) > 1:
        raise AnalysisError("make_link: several shortening helpers")
    raise AnalysisError("make_link: no label truncation found here or in a helper the matched text is passed to")


def _clip_in(ck, lk, mk, label, lmax):
    """Entity-guard analysis inside function ``mk`` (make_link or the helper that shortens) for label variable ``label``."""
    rid = "C22.entity-clip"
    cfg = mk.cfg
    derived = tainted_names(mk, [label] + ([mk.params()[0]] if mk.params() else []))
    # truncation sites: (re)bindings of the label whose value takes a bounded prefix of label-derived text
    truncs = []
    for n in cfg.stmt_nodes(lambda n: n.kind == "stmt" and isinstance(n.ast, (ast.Assign, ast.AugAssign)) and label in q.assigned_paths(n.ast)):
        v = n.ast.value
        sl = [s for s in _slices_with_upper(v) if q.names_in(s.value) & derived]
        if sl:
            truncs.append((n, sl))
    ck.floor(rid, len(truncs), 1, "label truncation sites")
    # the guard: the last '&' of the label is looked up, here or in a same-module helper the label is passed through
    amp_defs = _amp_lookups(mk)
    if not amp_defs:
        helpers = _label_helpers(ck, lk, mk, label, derived)
        with_lookup = [(n, c, h) for n, c, h in helpers if _amp_lookups(h)]
        if not with_lookup:
            if helpers:
                raise AnalysisError("make_link: the label passes through %s, which has no recognisable '&' look-up" % sorted({h.qualname for _, _, h in helpers}))
            for n, sl in truncs:
                ck.ob(rid, mk, n.ast, False, "after truncating the label the last '&' is examined so that no entity is split")
            return
        for n, c, h in with_lookup:
            ck.use(h)
            L = h.params()[0]
            had = _amp_lookups(h)
            if len(had) != 1:
                raise AnalysisError("%s: several '&' look-ups" % h.qualname)
            hamp = q.dotted(had[0].ast.targets[0])
            ck.ob(rid, h, had[0].ast, had[0].ast.value.func.attr == "rfind" and q.dotted(had[0].ast.value.func.value) == L and len(had[0].ast.value.args) == 1, "the *last* '&' of the (truncated) label is looked up")
            exits = []
            for r in h.cfg.stmt_nodes(lambda x: x.kind == "stmt" and isinstance(x.ast, ast.Return)):
                v = alias_expand(h.node, r.ast.value)
                if q.dotted(v) == L or q.dotted(r.ast.value) == L:
                    exits.append((r, False))
                elif _is_cut(r.ast.value, L, hamp):
                    exits.append((r, True))
                else:
                    raise AnalysisError("%s: returned value not understood: %s" % (h.qualname, q.unparse(r.ast.value)))
            _dual_check(ck, rid, h, L, hamp, exits)
            for tn, sl in truncs:
                ck.ob(rid, mk, tn.ast, not _reaches(cfg, n, tn) or tn.id == n.id, "no truncation of the label happens after the entity guard (%s)" % h.name)
            ck.ob(rid, mk, c, len(c.args) == 1 and q.dotted(c.args[0]) == label and label in q.assigned_paths(n.ast), "the whole truncated label goes through the entity guard and its result becomes the label")
        return
    if len(amp_defs) != 1:
        raise AnalysisError("make_link: several '&' look-ups")
    ad = amp_defs[0]
    amp = q.dotted(ad.ast.targets[0])
    ck.ob(rid, mk, ad.ast, ad.ast.value.func.attr == "rfind" and q.dotted(ad.ast.value.func.value) == label and len(ad.ast.value.args) == 1, "the *last* '&' of the (truncated) label is looked up")
    cuts = [n for n in cfg.stmt_nodes(lambda n: n.kind == "stmt" and isinstance(n.ast, ast.Assign) and label in q.assigned_paths(n.ast)) if _is_cut(n.ast.value, label, amp)]
    truncs = [(n, sl) for n, sl in truncs if n.id not in {c_.id for c_ in cuts}]
    # all truncations happen before the look-up
    for n, sl in truncs:
        ck.ob(rid, mk, n.ast, not _reaches(cfg, ad, n), "no truncation of the label happens after the '&' look-up")
    # the ellipsis is appended only after the guard ran
    ell = cfg.stmt_nodes(lambda n: n.kind == "stmt" and isinstance(n.ast, (ast.AugAssign, ast.Assign)) and label in q.assigned_paths(n.ast) and ((isinstance(n.ast, ast.AugAssign) and isinstance(n.ast.value, ast.Constant) and isinstance(n.ast.value.value, str)) or (isinstance(n.ast, ast.Assign) and isinstance(n.ast.value, ast.BinOp) and isinstance(n.ast.value.op, ast.Add) and q.dotted(n.ast.value.left) == label and isinstance(n.ast.value.right, ast.Constant))))
    ck.floor(rid, len(ell), 1, "ellipsis append")
    for e in ell:
        ck.ob(rid, mk, e.ast, cfg.dominates(ad, e), "the ellipsis is appended only after the entity guard")
    semi_tests = [t for t in cfg.stmt_nodes(lambda t: t.kind == "test") if _meaning(t.ast, True, label, amp) in ("semi", "nosemi")]
    if semi_tests:
        # shape (b): complete-entity test, decided on the paths (not on the syntactic position of the cut)
        _dual_check(ck, rid, mk, label, amp, [(e, False) for e in ell])
        return
    if len(cuts) != 1:
        ck.ob(rid, mk, ad.ast, False, "the label is cut at the last '&' when that entity would be split", construct="cut label[:amp] sites %d" % len(cuts))
        return
    cut = cuts[0]
    # guard condition: the conjunction of branch facts under which the cut executes
    pm = q.parent_map(mk.node)
    ifs = [a for a in q.ancestors(pm, cut.ast) if isinstance(a, ast.If)]
    if not ifs or cut.ast not in ifs[0].body:
        raise AnalysisError("make_link: the cut at '&' is not the body of an if")
    test = ifs[0].test
    conj = q.split_conj(test)
    names = q.names_in(test)
    semi = [c for c in conj if _is_no_semicolon_after(c, label, amp)]
    if semi:
        # shape (b): complete-entity test
        rest = [c for c in conj if c not in semi]
        ok_rest = all(_is_found_test(c, amp) for c in rest)
        if not ok_rest:
            raise AnalysisError("entity guard: unrecognised extra condition in %s" % q.unparse(test))
        for n, sl in truncs:
            ck.ob(rid, mk, n.ast, True, "truncation %s is followed by the complete-entity guard (cut at the last '&' when no ';' follows it)" % q.unparse(n.ast)[:60])
        return
    # shape (a): numeric look-back
    consts = {}
    for nm in names - {amp, label, "len"}:
        v = single_assignment(mk.node, nm)
        hops = 0
        while isinstance(v, ast.Name) and hops < 4:
            v = single_assignment(mk.node, v.id) or mk.module.assigns.get(v.id)
            hops += 1
        if v is None and nm in mk.module.assigns:
            v = mk.module.assigns[nm]
        if isinstance(v, ast.Constant) and isinstance(v.value, (int, float)):
            consts[nm] = v.value
        else:
            raise AnalysisError("entity guard: unknown idiom %s (name %s is not a numeric constant)" % (q.unparse(test), nm))
    uses_len = any(q.is_call(c, "len") and q.dotted(c.args[0]) == label for c in ast.walk(test))
    cmp_ok = all(isinstance(c, ast.Compare) for c in conj)
    if not cmp_ok:
        raise AnalysisError("entity guard: unknown idiom %s" % q.unparse(test))

    class _Sub(ast.NodeTransformer):
        def visit_Call(self, node):
            if q.is_call(node, "len") and q.dotted(node.args[0]) == label:
                return ast.Name(id="__n__", ctx=ast.Load())
            return self.generic_visit(node)

    import copy

    t2 = _Sub().visit(copy.deepcopy(test))
    ast.fix_missing_locations(t2)

    def covered(n):
        """guard true for every amp that would leave an entity of up to lmax chars split at cut length n"""
        miss = []
        for a in range(max(0, n - lmax + 1), n):
            env = dict(consts)
            env[amp] = a
            env["__n__"] = n
            try:
                if not q.fold(t2, env):
                    miss.append(a)
            except q.NotFoldable as ex:
                raise AnalysisError("entity guard: unknown idiom %s (%s)" % (q.unparse(test), ex))
        return miss

    for n, sl in truncs:
        lens = set()
        exact = True
        v = n.ast.value
        for s in sl:
            if s is v or (isinstance(v, ast.Subscript) and s is v):
                try:
                    lens.add(int(q.fold(s.slice.upper, consts)))
                except (q.NotFoldable, TypeError, ValueError):
                    exact = False
            else:
                exact = False
        if exact and len(lens) == 1 and q.dotted(v.value) == label:
            L = lens.pop()
            miss = covered(L)
            ck.ob(rid, mk, n.ast, not miss, "label cut to %d chars: the look-back window of the guard `%s` covers every position from which an entity of up to %d chars (longest the URL regex admits) would be split%s" % (L, q.unparse(test), lmax, "" if not miss else "; not covered: amp=%s" % miss),
                  construct="clip %s" % q.normalize_construct(n.ast, q.local_names(mk.node)))
        else:
            # the label's length after this truncation is not a constant: the window must be relative to the label's end
            hi = int(max([2 * x for x in consts.values() if isinstance(x, (int, float))] + [64]))
            bad = None
            for L in range(lmax, hi):
                if covered(L):
                    bad = L
                    break
            ck.ob(rid, mk, n.ast, bad is None, "label rebuilt from a bounded prefix (length not fixed): the guard `%s` must cover the last %d chars of the label whatever its length%s" % (q.unparse(test), lmax, "" if bad is None else "; fails e.g. for a label of %d chars" % bad),
                  construct="prefix-clip %s" % q.normalize_construct(n.ast, q.local_names(mk.node))[:90])


SAFE_LABEL_CALLS = {"split", "rsplit", "partition", "rpartition", "rfind", "find", "len", "group", "min", "max", "int", "startswith", "endswith", "join"}
TRANSCODERS = {"xhtml_unescape", "unescape", "url_unescape", "unquote", "unquote_plus", "xhtml_escape", "escape", "url_escape", "quote", "quote_plus", "decode", "encode", "lower", "upper", "title", "replace", "translate", "format", "strip", "lstrip", "rstrip"}


def _label_calls(lk, F, v, depth=2):
    """(bad transcoder calls, unknown calls) in expression ``v`` of function ``F``; same-module helpers are followed."""
    bad, unknown = [], []
    for c in [c for c in ast.walk(v) if isinstance(c, ast.Call)]:
        nm = q.call_attr(c)
        if nm in SAFE_LABEL_CALLS:
            continue
        if nm in TRANSCODERS:
            bad.append(nm)
            continue
        h = None
        if isinstance(c.func, ast.Name):
            h = F.module.funcs.get(c.func.id) or F.module.funcs.get(lk.qualname + ".<locals>." + c.func.id)
        if h is not None and depth > 0 and h.params():
            hd = tainted_names(h, [h.params()[0]])
            ok = True
            for st in [x for x in q.walk_body(h.node) if isinstance(x, (ast.Assign, ast.AugAssign)) and (q.assigned_paths(x) & hd)]:
                b2, u2 = _label_calls(lk, h, st.value, depth - 1)
                bad += b2
                unknown += u2
                lits = [k_.value for k_ in ast.walk(st.value) if isinstance(k_, ast.Constant) and isinstance(k_.value, str) and not any(isinstance(c2, ast.Call) and k_ in c2.args for c2 in ast.walk(st.value))]
                if any(set(x) & set("<>&\"'") for x in lits):
                    bad.append("markup literal in %s" % h.name)
            for r in [r for r in q.walk_body(h.node) if isinstance(r, ast.Return) and r.value is not None]:
                b2, u2 = _label_calls(lk, h, r.value, depth - 1)
                bad += b2
                unknown += u2
            continue
        unknown.append(nm)
    return bad, unknown


def rule_label_derived(ck, lk, mk):
    """The visible label is cut out of the matched (escaped) text: slices, pieces of a split and literal
    separators only -- no re-coding of the text and no markup characters added."""
    rid = "C22.label-derived"
    cfg = mk.cfg
    anchors = [r for r in cfg.stmt_nodes(lambda n: n.kind == "stmt" and isinstance(n.ast, ast.Return)) if _anchor(r.ast.value)]
    t, xs = _anchor(anchors[0].ast.value)
    if (">" + PH + "</a>") not in t:
        raise AnalysisError("make_link: anchor label not found")
    label = q.dotted(xs[t[:t.find(">" + PH + "</a>") + 1].count(PH)])
    mp = mk.params()[0]
    derived = tainted_names(mk, [label, mp])
    n = 0
    for st in [x for x in q.walk_body(mk.node) if isinstance(x, (ast.Assign, ast.AugAssign)) and (label in q.assigned_paths(x) or (q.assigned_paths(x) & derived and any(nm in q.names_in(x.value) for nm in (label,))))]:
        n += 1
        v = st.value
        bad_calls, unknown = _label_calls(lk, mk, v)
        if unknown and not bad_calls:
            raise AnalysisError("make_link: call %s in the label computation is not understood" % unknown)
        ck.ob(rid, mk, st, not bad_calls, "the label is cut out of the matched text without re-coding it%s" % ("" if not bad_calls else " (calls %s)" % bad_calls))
        lits = [k.value for k in ast.walk(v) if isinstance(k, ast.Constant) and isinstance(k.value, str) and not any(isinstance(c, ast.Call) and k in c.args for c in ast.walk(v))]
        ck.ob(rid, mk, st, all(not (set(x) & set("<>&\"'")) for x in lits), "literal text added to the label contains no markup characters", construct="label literals %s" % lits)
    ck.floor(rid, n, 1, "label computations")


def url_cases():
    """Escaped URL texts spanning the shortening heuristics: 1-3 slashes after the scheme, no scheme (www.), short and
    long hosts, path segments with '.', '?', and the two entities the regex admits at every offset near the cut points."""
    out = []
    tails = ["", "/", "/some/long/path/segment/here.html?x=1&amp;y=2", "/x/" + "y" * 40]
    for k in range(0, 31):
        tails.append("/" + "a" * k + "&quot;" + "b" * 40)
    for k in range(0, 9):
        tails.append("/" + "a" * k + "&amp;" + "b" * 40)
    for pre in ("http:/", "http://", "http:///", "www."):
        for host in ("example.com", "a" * 36 + ".com"):
            for t in tails:
                u = pre + host + t
                if len(u) > 30:
                    out.append(u)
    return out


def rule_label_prefix(ck, lk, mk, sub):
    """Partial evaluation (constant folding) of make_link with shorten=True over a bounded family of concrete escaped
    URLs: the folded label must be the URL itself or a prefix of it followed by '...', and must not end inside an
    entity.  The match groups are obtained by applying the URL regex constant to the case text."""
    import re as _re
    from ..x_peval import peval, UNK, STOP

    rid = "C22.label-prefix"
    rname, node, pat, flags, tree = regex_info(ck, sub)
    rx_ = _re.compile(pat, flags)
    cfg = mk.cfg
    mp = mk.params()[0]
    lp_ = lk.params()
    sh = [p for p in lp_ if "shorten" in p]
    perm = [p for p in lp_ if "permitted" in p]
    req = [p for p in lp_ if "require" in p]
    ex = [p for p in lp_ if "extra" in p]
    if not (sh and perm and req):
        raise AnalysisError("linkify: shorten / protocol parameters not found")
    rets = cfg.stmt_nodes(lambda n: n.kind == "stmt" and isinstance(n.ast, ast.Return))
    anchors = {r.id: r for r in rets if _anchor(r.ast.value)}
    group_nodes = {}
    for n in cfg.stmt_nodes(lambda n: n.kind == "stmt" and isinstance(n.ast, (ast.Assign, ast.AnnAssign)) and n.ast.value is not None):
        v = n.ast.value
        if q.is_call(v, mp + ".group") and all(isinstance(a_, ast.Constant) for a_ in v.args) and v.args:
            tg = n.ast.targets[0] if isinstance(n.ast, ast.Assign) else n.ast.target
            if len(v.args) == 1 and isinstance(tg, ast.Name):
                group_nodes[n.id] = [(tg.id, v.args[0].value)]
            elif isinstance(tg, ast.Tuple) and len(tg.elts) == len(v.args) and all(isinstance(t_, ast.Name) for t_ in tg.elts):
                group_nodes[n.id] = [(t_.id, a_.value) for t_, a_ in zip(tg.elts, v.args)]
    def generic_hook(n, env):
        if n.kind != "stmt":
            return None
        st = n.ast
        if isinstance(st, ast.AnnAssign) and st.value is not None and isinstance(st.target, ast.Name):
            try:
                env[st.target.id] = rich_fold(st.value, env)
            except q.NotFoldable:
                env[st.target.id] = UNK
            return True
        if isinstance(st, ast.Assign) and len(st.targets) == 1 and isinstance(st.targets[0], ast.Name):
            try:
                env[st.targets[0].id] = rich_fold(st.value, env)
            except q.NotFoldable:
                env[st.targets[0].id] = UNK
            return True
        if isinstance(st, ast.AugAssign) and isinstance(st.target, ast.Name) and isinstance(st.op, ast.Add):
            try:
                env[st.target.id] = rich_fold(ast.Name(id=st.target.id, ctx=ast.Load()), env) + rich_fold(st.value, env)
            except (q.NotFoldable, TypeError):
                env[st.target.id] = UNK
            return True
        return None

    def generic_edge(n, kind, env):
        try:
            v = rich_fold(n.ast, env)
        except q.NotFoldable:
            return None
        return STOP if bool(v) != (kind == "true") else None

    PM = PURE_STR | {"group", "split", "rfind", "find", "replace", "format", "join", "partition", "rsplit", "count", "index"}
    depth = [0]

    def call_helper(name, args):
        """value of a same-module helper for concrete arguments (its CFG is folded the same way)"""
        h = mk.module.funcs.get(name) or mk.module.funcs.get(lk.qualname + ".<locals>." + name)
        if h is None or depth[0] > 2:
            raise q.NotFoldable("call %s" % name)
        ps = h.params()
        if len(args) > len(ps):
            raise q.NotFoldable("call %s" % name)
        init_ = {p_: a_ for p_, a_ in zip(ps, args)}
        for k_, v_ in mk.module.assigns.items():
            if isinstance(v_, ast.Constant) and k_ not in init_:
                init_[k_] = v_.value
        init_["@call"] = call_helper
        depth[0] += 1
        try:
            st_ = peval(h.cfg, init_, hook=generic_hook, on_edge=generic_edge, follow_exc=False, refine=False, pure_methods=PM)
            vals = set()
            for r_ in h.cfg.stmt_nodes(lambda n: n.kind == "stmt" and isinstance(n.ast, ast.Return)):
                for _f, env_ in st_.get(r_.id, []):
                    vals.add(rich_fold(r_.ast.value, env_) if r_.ast.value is not None else None)
        finally:
            depth[0] -= 1
        if len(vals) != 1:
            raise q.NotFoldable("call %s has %d outcomes" % (name, len(vals)))
        return vals.pop()

    bad = {}
    n_cases = n_short = 0
    for case in url_cases():
        mt = rx_.match(case)
        if mt is None or mt.end() != len(case):
            continue
        n_cases += 1
        groups = {i: mt.group(i) for i in range(0, (rx_.groups or 0) + 1)}

        def fold(e, env):
            return rich_fold(e, env)

        def hook(n, env):
            if n.kind != "stmt":
                return None
            st = n.ast
            if n.id in group_nodes:
                for name, g in group_nodes[n.id]:
                    env[name] = groups.get(g, UNK)
                return True
            if isinstance(st, ast.AnnAssign) and st.value is not None and isinstance(st.target, ast.Name):
                try:
                    env[st.target.id] = fold(st.value, env)
                except q.NotFoldable:
                    env[st.target.id] = UNK
                return True
            if isinstance(st, ast.Assign) and len(st.targets) == 1 and isinstance(st.targets[0], ast.Name):
                try:
                    env[st.targets[0].id] = fold(st.value, env)
                except q.NotFoldable:
                    env[st.targets[0].id] = UNK
                return True
            if isinstance(st, ast.AugAssign) and isinstance(st.target, ast.Name) and isinstance(st.op, ast.Add):
                try:
                    env[st.target.id] = rich_fold(ast.Name(id=st.target.id, ctx=ast.Load()), env) + fold(st.value, env)
                except (q.NotFoldable, TypeError):
                    env[st.target.id] = UNK
                return True
            return None

        def on_edge(n, kind, env):
            try:
                v = fold(n.ast, env)
            except q.NotFoldable:
                return None
            return STOP if bool(v) != (kind == "true") else None

        init = {sh[0]: True, perm[0]: PERMITTED, req[0]: False, "@call": call_helper}
        for k_, v_ in mk.module.assigns.items():
            if isinstance(v_, ast.Constant):
                init[k_] = v_.value
        for i_, g_ in groups.items():
            init["%s.group(%r)" % (mp, i_)] = g_
        if ex:
            init[ex[0]] = ""
        states = peval(cfg, init, hook=hook, on_edge=on_edge, follow_exc=False, refine=False, pure_methods=PM)
        for rid_, r in anchors.items():
            for _f, env in states.get(rid_, []):
                try:
                    html_ = fold(r.ast.value, env)
                except q.NotFoldable as e_:
                    raise AnalysisError("make_link: the anchor is not a foldable function of the match for %r (%s)" % (case, e_))
                if not isinstance(html_, str) or ">" not in html_ or not html_.endswith("</a>"):
                    raise AnalysisError("make_link: folded anchor not understood: %r" % (html_,))
                label = html_[html_.index(">") + 1:-len("</a>")]
                why = None
                if label != case:
                    n_short += 1
                    if not label.endswith("..."):
                        why = "a changed label does not end in '...'"
                    elif not case.startswith(label[:-3]):
                        why = "the label is not a prefix of the URL"
                    else:
                        amp_ = label[:-3].rfind("&")
                        if amp_ != -1 and ";" not in label[:-3][amp_:]:
                            why = "the label ends inside a character entity"
                if why and why not in bad:
                    bad[why] = (case, label)
    ck.floor(rid, n_cases, 50, "URL cases matched by the URL regex")
    ck.floor(rid, n_short, 20, "cases in which the label was shortened")
    ck.ob(rid, mk, mk.node, not bad, "shorten=True over %d concrete escaped URLs (%d shortened): every label is the URL or a prefix of it + '...', never cut inside an entity%s" % (n_cases, n_short, "" if not bad else "; " + "; ".join("%s: %r -> %r" % (w_, c_, l_) for w_, (c_, l_) in bad.items())),
          construct="label-prefix %s" % sorted(bad))


def _amp_lookups(fi):
    return [n for n in fi.cfg.stmt_nodes(lambda n: n.kind == "stmt" and isinstance(n.ast, ast.Assign) and isinstance(n.ast.value, ast.Call) and isinstance(n.ast.value.func, ast.Attribute) and n.ast.value.func.attr in ("rfind", "find", "rindex", "index") and n.ast.value.args and q.is_const(n.ast.value.args[0], "&"))]


def _is_cut(v, L, amp):
    return isinstance(v, ast.Subscript) and q.dotted(v.value) == L and isinstance(v.slice, ast.Slice) and q.dotted(v.slice.upper) == amp and v.slice.lower is None and v.slice.step is None


def _label_helpers(ck, lk, mk, label, derived):
    """(cfg node, call, helper FuncInfo) for calls, inside assignments to the label, of functions defined in this
    module (or next to make_link) that receive label-derived text."""
    m = mk.module
    out = []
    for n in mk.cfg.stmt_nodes(lambda n: n.kind == "stmt" and isinstance(n.ast, (ast.Assign, ast.AugAssign)) and label in q.assigned_paths(n.ast)):
        for c in q.calls(n.ast.value):
            if isinstance(c.func, ast.Name) and c.args and (q.names_in(c.args[0]) & derived):
                h = m.funcs.get(c.func.id) or m.funcs.get(lk.qualname + ".<locals>." + c.func.id)
                if h is not None and len(h.params()) >= 1:
                    out.append((n, c, h))
    return out


def _meaning(e, pol, L, amp):
    """What a branch outcome says: 'notfound'/'found' (is there an '&'), 'semi'/'nosemi' (does a ';' follow it)."""
    while isinstance(e, ast.UnaryOp) and isinstance(e.op, ast.Not):
        e, pol = e.operand, not pol
    if not (isinstance(e, ast.Compare) and len(e.ops) == 1):
        return None
    op, l, r = e.ops[0], e.left, e.comparators[0]

    def flip(x):
        return {"semi": "nosemi", "nosemi": "semi", "found": "notfound", "notfound": "found"}[x]

    res = None
    if isinstance(op, (ast.In, ast.NotIn)) and q.is_const(l, ";") and isinstance(r, ast.Subscript) and q.dotted(r.value) == L and isinstance(r.slice, ast.Slice) and q.dotted(r.slice.lower) == amp and r.slice.upper is None:
        res = "semi" if isinstance(op, ast.In) else "nosemi"
    else:
        try:
            k = q.fold(r, {})
        except q.NotFoldable:
            return None
        subj = None
        if q.dotted(l) == amp:
            subj = ("found", "notfound")
        elif q.is_call(l, L + ".find") and len(l.args) == 2 and q.is_const(l.args[0], ";") and q.dotted(l.args[1]) == amp:
            subj = ("semi", "nosemi")
        if subj is None or not isinstance(k, int):
            return None
        yes, no = subj
        table = {(ast.Eq, -1): no, (ast.NotEq, -1): yes, (ast.Lt, 0): no, (ast.GtE, 0): yes, (ast.Gt, -1): yes, (ast.LtE, -1): no}
        res = table.get((type(op), k))
        if res is None:
            return None
    return res if pol else flip(res)


def _dual_check(ck, rid, F, L, amp, exits):
    """On every path to an exit (where the possibly truncated label leaves the guard) either the label was cut at
    the last '&', or the path established that there is no '&' or that a ';' follows the last '&'."""
    cfg = F.cfg
    cut_ids = {n.id for n in cfg.stmt_nodes(lambda n: n.kind == "stmt" and isinstance(n.ast, ast.Assign) and L in q.assigned_paths(n.ast) and _is_cut(n.ast.value, L, amp))}
    lookups = {n.id for n in _amp_lookups(F)}

    def transfer(n, val):
        if n.id in lookups:
            return "looked"
        if n.id in cut_ids:
            return "cut" if val in ("looked", "cut") else val
        return val

    seen = explore(cfg, "none", transfer, lambda t: amp in t, follow_exc=False)
    n_states = 0
    for node, is_cut in exits:
        for facts, val in sorted(seen.get(node.id, ()), key=repr):
            n_states += 1
            why = None
            if is_cut or val == "cut":
                why = "cut at the last '&'"
            else:
                for t, pol in facts:
                    try:
                        e = ast.parse(t, mode="eval").body
                    except SyntaxError:
                        continue
                    mng = _meaning(e, pol, L, amp)
                    if mng == "notfound":
                        why = "no '&' in the label"
                    elif mng == "semi":
                        why = "a ';' follows the last '&' (entity complete)"
            if val == "none":
                why = None
            ck.ob(rid, F, node.ast, why is not None, "the label leaves the entity guard only %s" % (why or "after the last '&' was examined: cut there, or no '&', or a ';' after it (path: state=%s, facts=%s)" % (val, sorted(t for t, p_ in facts))),
                  construct="guard exit state=%s facts=%s" % (val, sorted((t, p_) for t, p_ in facts)))
    ck.floor(rid, n_states, 1, "paths through the entity guard")


def _is_no_semicolon_after(c, label, amp):
    # ";" not in label[amp:]
    if isinstance(c, ast.Compare) and len(c.ops) == 1 and isinstance(c.ops[0], ast.NotIn) and q.is_const(c.left, ";"):
        s = c.comparators[0]
        return isinstance(s, ast.Subscript) and q.dotted(s.value) == label and isinstance(s.slice, ast.Slice) and q.dotted(s.slice.lower) == amp and s.slice.upper is None
    if isinstance(c, ast.UnaryOp) and isinstance(c.op, ast.Not):
        x = c.operand
        if isinstance(x, ast.Compare) and len(x.ops) == 1 and isinstance(x.ops[0], ast.In) and q.is_const(x.left, ";"):
            s = x.comparators[0]
            return isinstance(s, ast.Subscript) and q.dotted(s.value) == label and isinstance(s.slice, ast.Slice) and q.dotted(s.slice.lower) == amp and s.slice.upper is None
    if isinstance(c, ast.Compare) and len(c.ops) == 1 and isinstance(c.ops[0], (ast.Eq, ast.Lt)) and q.is_call(c.left, label + ".find") and len(c.left.args) == 2 and q.is_const(c.left.args[0], ";") and q.dotted(c.left.args[1]) == amp:
        r = c.comparators[0]
        return (isinstance(c.ops[0], ast.Eq) and q.is_const(r, -1) or isinstance(r, ast.UnaryOp) and q.unparse(r) == "-1") or (isinstance(c.ops[0], ast.Lt) and q.is_const(r, 0))
    return False


def _is_found_test(c, amp):
    # amp != -1 / amp >= 0 / amp > -1
    if isinstance(c, ast.Compare) and len(c.ops) == 1 and q.dotted(c.left) == amp:
        try:
            r = q.fold(c.comparators[0], {})
        except q.NotFoldable:
            return False
        op = c.ops[0]
        return (isinstance(op, ast.NotEq) and r == -1) or (isinstance(op, ast.GtE) and r == 0) or (isinstance(op, ast.Gt) and r == -1)
    return False


def run(ck):
    from ..x_valuewalk import guard_obligations, canonical

    ck.repo = canonical(ck.repo, ['tornado/escape.py'], keep_names=('_DEFAULT_AUTOESCAPE',))
    from ..x_valuewalk import split_ifexp_assign

    ck.repo = split_ifexp_assign(ck.repo, 'tornado/escape.py', ['make_link'])

    guard_obligations(ck, [])
    ck.rule("C22.escape-first", "linkify applies the URL regex to xhtml_escape(text) and returns the substitution result")
    ck.rule("C22.plain-returns", "make_link returns either the match unmodified or exactly one anchor whose href (double-quoted) derives from the match")
    ck.rule("C22.protocol-guard", "the anchor return is reached only with a permitted protocol, or none when none is required; protocol-less hrefs get http://")
    ck.rule("C22.regex-entities", "the URL regex consumes '&' only inside complete entities that html.escape produces")
    ck.rule("C22.label-derived", "every computation of the visible label uses only slices/splits of the matched (escaped) text and markup-free literals; no unescape/escape/case/strip/replace re-coding")
    ck.rule("C22.label-prefix", "constant folding of make_link (shorten=True) over a bounded family of concrete escaped URLs (1-3 slashes, www., long hosts, entities at every offset near the cut points): the label is the URL or a prefix of it followed by '...', and never ends inside an entity")
    ck.rule("C22.entity-clip", "after every truncation of the link label the last '&' is examined and the label cut there: numeric look-back covering the longest regex entity relative to the cut, or the complete-entity test (no ';' after the '&')")
    lk, mk, sub = _link_ctx(ck)
    rule_escape_first(ck, lk, mk, sub)
    rule_make_link(ck, lk, mk, sub)
    lmax = rule_regex_entities(ck, sub)
    ck.note("longest entity admitted by the URL regex: %d characters" % lmax)
    rule_entity_clip(ck, lk, mk, sub, lmax)
    rule_label_derived(ck, lk, mk)
    rule_label_prefix(ck, lk, mk, sub)


def _in(qn, edit):
    return lambda repo: mutate(repo, E, qn, edit)


def _u(n):
    return ast.unparse(n)


def _mod(edit):
    return lambda repo: mutate(repo, E, None, edit)


def _regex_edit(old, new):
    def ed(tree):
        for st in tree.body:
            if isinstance(st, ast.Assign) and isinstance(st.targets[0], ast.Name) and st.targets[0].id == "_URL_RE":
                for n in ast.walk(st.value):
                    if isinstance(n, ast.Constant) and isinstance(n.value, str) and old in n.value:
                        n.value = n.value.replace(old, new)
                        return True
        return False

    return _mod(ed)


def _guard(new_src):
    """replace the test of the entity guard (the `if` whose body cuts the label at amp)"""
    def ed(fn):
        for n in ast.walk(fn):
            if isinstance(n, ast.If) and len(n.body) == 1 and _u(n.body[0]) == "url = url[:amp]":
                n.test = parse_expr(new_src)
                return True
        return False

    return ed


def _regex_before_escape(fn):
    # text = _URL_RE.sub(make_link, text); return xhtml_escape(text)  -- wrong order
    body = fn.body
    for i, st in enumerate(body):
        if isinstance(st, ast.Assign) and "xhtml_escape" in _u(st.value):
            body[i:] = [parse_stmt("text = _URL_RE.sub(make_link, _unicode(text))"), parse_stmt("return _unicode(xhtml_escape(text))")]
            return True
    return False


MUTANTS = [
    ("regex applied before escaping", _in("linkify", _regex_before_escape), "C22.escape-first"),
    ("regex applied to the unescaped text, result escaped nowhere", _in("linkify", replace_expr(lambda n: isinstance(n, ast.Call) and _u(n.func) == "xhtml_escape", lambda n: n.args[0])), "C22.escape-first"),
    ("result post-processed after substitution", _in("linkify", replace_stmt(lambda st: isinstance(st, ast.Return) and "_URL_RE.sub" in _u(st), lambda st: [parse_stmt("return _URL_RE.sub(make_link, text).replace('&amp;amp;', '&amp;')")])), "C22.escape-first"),
    ("permitted-protocol test dropped", _in("linkify", remove_stmts(lambda st: isinstance(st, ast.If) and "permitted_protocols" in _u(st.test))), "C22.protocol-guard"),
    ("permitted-protocol test inverted to a block list", _in("linkify", replace_expr(lambda n: isinstance(n, ast.Compare) and isinstance(n.ops[0], ast.NotIn) and "permitted_protocols" in _u(n), lambda n: parse_expr("proto in ('javascript',)"))), "C22.protocol-guard"),
    ("require_protocol ignored", _in("linkify", remove_stmts(lambda st: isinstance(st, ast.If) and "require_protocol" in _u(st.test))), "C22.protocol-guard"),
    ("protocol-less links lose the http:// prefix", _in("linkify", remove_stmts(lambda st: isinstance(st, ast.If) and _u(st.test) == "not proto" and "http://" in _u(st))), "C22.protocol-guard"),
    ("http:// prefix added to every href", _in("linkify", replace_stmt(lambda st: isinstance(st, ast.If) and _u(st.test) == "not proto" and "http://" in _u(st), lambda st: st.body)), "C22.protocol-guard"),
    ("rejected match returned lower-cased", _in("linkify", replace_stmt(lambda st: isinstance(st, ast.Return) and _u(st) == "return url", lambda st: [parse_stmt("return url.lower()")], limit=1)), "C22.plain-returns"),
    ("href taken from the (shortened) label", _in("linkify", replace_expr(lambda n: isinstance(n, ast.JoinedStr), lambda n: parse_expr("f'<a href=\"{url}\"{params}>{url}</a>'"))), ("C22.plain-returns", "C22.protocol-guard")),
    ("seeded C22-adv4: literal proto + '://' used as split offset and label prefix", _in("linkify", lambda fn: (replace_stmt(lambda st: isinstance(st, ast.If) and _u(st.test) == "proto" and "proto_len" in _u(st), lambda st: [parse_stmt("scheme = proto + '://' if proto else ''")])(fn) and replace_expr(lambda n: isinstance(n, ast.Subscript) and _u(n) == "url[proto_len:]", lambda n: parse_expr("url[len(scheme):]"))(fn) and replace_expr(lambda n: isinstance(n, ast.Subscript) and _u(n) == "url[:proto_len]", lambda n: parse_expr("scheme"))(fn))), "C22.label-prefix"),
    ("path prefix taken from the second path segment", _in("linkify", replace_expr(lambda n: isinstance(n, ast.Subscript) and _u(n) == "parts[1][:8]", lambda n: parse_expr("parts[-1][:8]"))), "C22.label-prefix"),
    ("label shown unescaped ('nicer' display)", _in("linkify", replace_stmt(lambda st: isinstance(st, ast.AugAssign) and _u(st) == "url += '...'", lambda st: [parse_stmt("url = xhtml_unescape(url)"), st])), "C22.label-derived"),
    ("label lower-cased", _in("linkify", replace_stmt(lambda st: isinstance(st, ast.Assign) and _u(st) == "before_clip = url", lambda st: [st, parse_stmt("url = url.lower()")])), "C22.label-derived"),
    ("ellipsis as an entity-like literal with markup", _in("linkify", replace_expr(lambda n: q.is_const(n, "..."), lambda n: ast.Constant(value="<i>...</i>"))), ("C22.label-derived", "C22.entity-clip")),
    ("href built from the unescaped match", _in("linkify", replace_stmt(lambda st: isinstance(st, ast.Assign) and _u(st) == "href = m.group(1)", lambda st: [parse_stmt("href = xhtml_unescape(m.group(1))")])), "C22.protocol-guard"),
    ("regex class no longer excludes '&'", _regex_edit(r"(?:[^\s&()]|&amp;|&quot;)*(?:[^!", r"(?:[^\s()]|&amp;|&quot;)*(?:[^!"), "C22.regex-entities"),
    ("regex admits a bare '&#'", _regex_edit(r"|&amp;|&quot;)*\)", r"|&amp;|&quot;|&#)*\)"), "C22.regex-entities"),
    ("F16 repair undone: look-back of 5 relative to max_len", _in("linkify", _guard("amp > max_len - 5")), "C22.entity-clip"),
    ("look-back of 6 relative to max_len only (path-prefix cut unprotected)", _in("linkify", _guard("amp > max_len - 6")), "C22.entity-clip"),
    ("first '&' examined instead of the last", _in("linkify", replace_expr(lambda n: isinstance(n, ast.Attribute) and n.attr == "rfind", lambda n: ast.Attribute(value=n.value, attr="find", ctx=ast.Load()))), "C22.entity-clip"),
    ("entity guard removed", _in("linkify", remove_stmts(lambda st: isinstance(st, ast.If) and len(st.body) == 1 and _u(st.body[0]) == "url = url[:amp]")), "C22.entity-clip"),
    ("label truncated again after the entity guard", _in("linkify", replace_stmt(lambda st: isinstance(st, ast.AugAssign) and _u(st) == "url += '...'", lambda st: [parse_stmt("url = url[:max_len]"), st])), "C22.entity-clip"),
]
