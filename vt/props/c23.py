"""C23 - signed values cannot be forged, replayed across names or crash the reader.

Decided statically (DESIGN.md section 4, C23):

* MPT  - every non-None return of the two format decoders is dominated by the
  success branch of the MAC comparison (one side computed by the signer from
  the secret, the other parsed from the input), by the expiry comparison and by
  the name binding; in ``decode_signed_value`` by the ``version >= min_version``
  floor and by the dispatch test of the format the decoder belongs to.
* what the MAC covers - the returned payload, the timestamp that is compared
  and the name are inside the MAC input (v1: argument list of the signer; v2:
  the single buffer prefix the fields are parsed from).
* EXC  - which fallible operations on attacker-controlled text sit outside a
  handler, interprocedurally over the decoder closure, with *authenticated
  declassification* only for fields of a single MAC-verified buffer.
* TBL  - field order/arity/separator/codec agreement between
  ``create_signed_value`` and the decoders, derived from data flow (roles),
  not from local names.
* the signers are keyed HMACs over every data argument; version detection.

All names of locals are derived through reaching definitions; only the public
parameter names (``secret``, ``name``, ``value``, ``max_age_days``, ``clock``,
``min_version``, ``key_version``) and the anchored function names are fixed.
"""
from __future__ import annotations

import ast

from .. import q
from ..cfg import must_facts, explore, canon_fact
from ..model import AnalysisError
from ..mutate import mutate, remove_stmts, replace_expr, replace_stmt, parse_stmt, parse_expr
from ..rules import tainted_names, mentions
from ..rx import Rx, module_pattern
from ..x_secflow import (Reach, Escapes, is_unpack, strip_wrappers, same, parsed_facts, fact_geq0, equality_fact,
                         tests_reaching, names_of, edge_dominates, absent_or_unknown, own_nodes, concat_canon, concat_to_join, positional_call)

TECHNIQUE = "must-pass-through (guard dominance) on the CFG with reaching-definition expansion, exception-escape analysis against a frozen raise model, encoder/decoder role tables, regex language inclusion"
EXPLANATION = (
    "For _decode_signed_value_v1/_v2: every non-None return must hold (as must-facts on every CFG path) the MAC comparison "
    "success whose operands are the signer's output and the parsed signature, the expiry comparison in linear normal form, "
    "the name binding; payload/timestamp/name must be inside the MAC input. decode_signed_value: version floor and dispatch. "
    "Exception-escape analysis of the decoder closure (conversions, unpacking, lookups, raise/assert) with declassification only "
    "after the MAC success on a single delimited buffer. Role tables of create_signed_value vs. the decoders; signer shape; "
    "_get_version (regex language, fallback to 1, threshold)."
)
NOT_DECIDED = (
    "unforgeability itself (HMAC is trusted), exhaustive edit distance over signed values, the residual v1 ambiguity between payload and "
    "timestamp digits beyond the two guards, round trip for names/values containing newlines or lone surrogates, float/overflow behaviour of "
    "clock arithmetic, the strictness (< vs <=) of the expiry boundary"
)
LEVEL_NOTE = ("Structural necessary conditions only. Trusted base: hmac/hashlib/base64 behave as documented; utf8() does not raise on str/bytes "
              "without lone surrogates; logging calls do not raise; caller-supplied clock() does not raise; config errors (min_version > 2) excluded.")

W = "tornado/web.py"
CODEC_WRAPPERS_ = ("utf8", "native_str", "to_unicode", "to_basestring", "str", "bytes")
SIGNERS = ("_create_signature_v1", "_create_signature_v2")
CONFIG_PARAMS = {"secret", "name", "max_age_days", "clock", "min_version", "self", "cls", "key_version", "version"}
ANALYSED = (
    "decode_signed_value", "_get_version", "_decode_signed_value_v1", "_decode_signed_value_v2", "_decode_fields_v2",
    "get_signature_key_version", "_create_signature_v1", "_create_signature_v2",
)
ENTRIES = ("decode_signed_value", "get_signature_key_version")


def base_id(n):
    return n.id.split("@")[0] if isinstance(n, ast.Name) else None


def is_signer_call(e):
    return isinstance(e, ast.Call) and isinstance(e.func, ast.Name) and e.func.id in SIGNERS


def ret_nodes(fi):
    return fi.cfg.stmt_nodes(lambda n: n.kind == "stmt" and isinstance(n.ast, ast.Return))


class _ValueSite:
    """Stands for ``return <value>`` at the CFG node where a single-exit result variable receives that value."""

    __slots__ = ("id", "kind", "ast", "suspends", "label")

    def __init__(self, node, value):
        self.id = node.id
        self.kind = "stmt"
        self.ast = ast.copy_location(ast.Return(value=value), node.ast)
        ast.fix_missing_locations(self.ast)
        self.suspends = False
        self.label = " result"

    @property
    def lineno(self):
        return getattr(self.ast, "lineno", 0)


def _straight_to(cfg, a_id, b_id):
    """No branch lies between node a and node b (every node on a path a -> b other than b is not a test)."""
    fwd, st = {a_id}, [a_id]
    while st:
        x = st.pop()
        for y, k in cfg.succ[x]:
            if y not in fwd and k != "exc":
                fwd.add(y)
                st.append(y)
    back, st = {b_id}, [b_id]
    while st:
        x = st.pop()
        for y, k in cfg.pred[x]:
            if y not in back:
                back.add(y)
                st.append(y)
    return b_id in fwd and not any(cfg.nodes[i].kind in ("test", "for") for i in (fwd & back) - {a_id, b_id})


def nonnull_returns(fi):
    """Return nodes that return a value.  For the single-exit style (``result = None`` ... ``result = decode(x)`` ...
    ``return result``) the sites are the assignments of a non-None value to the result variable, provided nothing
    is tested between the assignment and the return (otherwise the plain return is kept and the rules see the
    merged variable, which they refuse to judge)."""
    out = []
    rd = None
    for n in ret_nodes(fi):
        v = n.ast.value
        if v is None or (isinstance(v, ast.Constant) and v.value is None):
            continue
        if isinstance(v, ast.Name) and v.id not in fi.params():
            rd = rd or Reach(fi)
            ds = rd.defs_at(n, v.id)
            if len(ds) > 1 and all(d.kind == "assign" and d.value is not None and d.node is not None for d in ds) and all(_straight_to(fi.cfg, d.node.id, n.id) for d in ds if not (isinstance(d.value, ast.Constant) and d.value.value is None)):
                for d in ds:
                    if not (isinstance(d.value, ast.Constant) and d.value.value is None):
                        out.append(_ValueSite(d.node, d.value))
                continue
        out.append(n)
    return out


def _is_func_call(e):
    return isinstance(e, ast.Call) and isinstance(e.func, ast.Name) and e.func.id not in ("__unpack__",)


def canon_elems(e):
    """One canonical form for 'element i of a sequence': ``S[i]`` for a sequence value
    (``x.split(..)``, a local list), ``__unpack__(f(..), i, n)`` for the tuple returned by a
    function call - whichever way (index or tuple unpacking) the code took it."""

    class T(ast.NodeTransformer):
        def visit_Call(self, node):
            self.generic_visit(node)
            u = is_unpack(node)
            if u is not None and not _is_func_call(u[0]):
                return self.visit_Subscript(ast.Subscript(value=u[0], slice=ast.Constant(value=u[1]), ctx=ast.Load()), False)
            return node

        def visit_Subscript(self, node, descend=True):
            if descend:
                self.generic_visit(node)
            if isinstance(node.value, (ast.Tuple, ast.List)) and isinstance(node.slice, ast.Constant) and isinstance(node.slice.value, int) and not isinstance(node.slice.value, bool) \
                    and -len(node.value.elts) <= node.slice.value < len(node.value.elts) and not any(isinstance(x, ast.Starred) for x in node.value.elts):
                return node.value.elts[node.slice.value]  # element of a tuple built in place
            if isinstance(node.slice, ast.Constant) and isinstance(node.slice.value, int) and not isinstance(node.slice.value, bool) and node.slice.value >= 0 and _is_func_call(node.value) and isinstance(node.ctx, ast.Load):
                return ast.Call(func=ast.Name(id="__unpack__", ctx=ast.Load()), args=[node.value, ast.Constant(value=node.slice.value), ast.Constant(value=None)], keywords=[])
            return node

    import copy

    return T().visit(copy.deepcopy(e))


def elem(e):
    """(source, index, arity|None) for either canonical element form."""
    e = strip_wrappers(e)
    u = is_unpack(e)
    if u is not None:
        return u
    if isinstance(e, ast.Subscript) and isinstance(e.slice, ast.Constant) and isinstance(e.slice.value, int) and not isinstance(e.slice.value, bool):
        return e.value, e.slice.value, None
    return None


class CReach(Reach):
    def expand(self, expr, at, depth=16, _stack=()):
        return self._positional(canon_elems(Reach.expand(self, expr, at, depth, _stack)))

    def _positional(self, e):
        """Calls of this module's own functions with keyword arguments rewritten positionally (by the callee's signature)."""
        funcs = self.fi.module.funcs
        if not any(isinstance(x, ast.Call) and x.keywords and isinstance(x.func, ast.Name) and x.func.id in funcs for x in ast.walk(e)):
            return e

        class T(ast.NodeTransformer):
            def visit_Call(self_, node):
                self_.generic_visit(node)
                if node.keywords and isinstance(node.func, ast.Name) and node.func.id in funcs:
                    return positional_call(node, funcs[node.func.id].params())
                return node

        return T().visit(e)


class Ctx:
    def __init__(self, ck, fi):
        self.ck = ck
        self.fi = fi
        self.rd = CReach(fi)
        self.facts = must_facts(fi.cfg)

    def bfacts(self, node):
        """Facts at ``node``; a fact on a *named boolean* (``too_old = version < min_version`` ... ``if too_old``) is
        given as the comparison it names (one level at a time, operands unchanged since)."""
        out = []
        for e, pol, text in parsed_facts(self.facts[node.id]):
            for _ in range(3):
                if not isinstance(e, ast.Name):
                    break
                d = self.rd.unique(node, e.id)
                if d is None or d.kind != "assign" or not isinstance(d.value, (ast.Compare, ast.BoolOp, ast.UnaryOp, ast.Call, ast.Name)):
                    break
                involved = {x.id for x in ast.walk(d.value) if isinstance(x, ast.Name)}
                if not all(self.rd.IN.get(d.node.id, {}).get(v_) == self.rd.IN.get(node.id, {}).get(v_) for v_ in involved):
                    break
                e = d.value
                while isinstance(e, ast.UnaryOp) and isinstance(e.op, ast.Not):
                    e, pol = e.operand, not pol
            if isinstance(e, ast.Compare) and len(e.ops) > 1 and pol:
                # a chained comparison known true gives each link
                left = e.left
                for op, right in zip(e.ops, e.comparators):
                    out.append((ast.Compare(left=left, ops=[op], comparators=[right]), True, text))
                    left = right
                continue
            if isinstance(e, ast.BoolOp):
                # a conjunction known true / a disjunction known false gives each operand
                if (isinstance(e.op, ast.And) and pol) or (isinstance(e.op, ast.Or) and not pol):
                    for v_ in e.values:
                        out.append((v_, pol, text))
                    continue
            out.append((e, pol, text))
        return out

    def xfacts(self, node):
        """Facts at ``node`` with every local expanded through its reaching definition."""
        out = []
        for e, pol, text in parsed_facts(self.facts[node.id]):
            out.append((self.rd.expand(e, node), pol, text, e))
        return out


# ---------------------------------------------------------------------------
# MAC gate


class Mac:
    """A MAC-success fact: signer call (expanded), passed signature (expanded)."""

    def __init__(self, signer_call, passed, text):
        self.call = signer_call
        self.passed = passed
        self.text = text
        self.signer = signer_call.func.id
        self.data = list(signer_call.args[1:])
        self.key = signer_call.args[0] if signer_call.args else None
        # coverage mode
        self.mode = None
        self.buffer = None
        if len(self.data) == 1 and not isinstance(self.data[0], ast.Starred):
            b = prefix_of_buffer(self.data[0], passed)
            if b is not None:
                self.mode, self.buffer = "buffer", b
        if self.mode is None and self.data and not any(isinstance(a, ast.Starred) for a in self.data):
            self.mode = "parts"

    def covers(self, e) -> bool:
        """``e`` (expanded, wrappers stripped) is inside the authenticated MAC input."""
        e = strip_wrappers(e)
        if self.mode == "parts":
            return any(same(strip_wrappers(a), e) for a in self.data)
        if self.mode == "buffer":
            u = is_unpack(e)
            if u is None:
                return False
            src, _i, _n = u
            return isinstance(src, ast.Call) and len(src.args) == 1 and same(strip_wrappers(src.args[0]), self.buffer) and isinstance(src.func, ast.Name)
        return False


def prefix_of_buffer(e, passed):
    """``B[:-len(S)]`` / ``B[:len(B) - len(S)]`` with S the passed signature -> B."""
    if not (isinstance(e, ast.Subscript) and isinstance(e.slice, ast.Slice) and e.slice.lower is None and e.slice.step is None and e.slice.upper is not None):
        return None
    B = strip_wrappers(e.value)
    up = e.slice.upper

    def is_len_of(x, what):
        return isinstance(x, ast.Call) and isinstance(x.func, ast.Name) and x.func.id == "len" and len(x.args) == 1 and same(strip_wrappers(x.args[0]), strip_wrappers(what))

    if isinstance(up, ast.UnaryOp) and isinstance(up.op, ast.USub) and is_len_of(up.operand, passed):
        return B
    if isinstance(up, ast.BinOp) and isinstance(up.op, ast.Sub) and is_len_of(up.left, B) and is_len_of(up.right, passed):
        return B
    return None


def mac_fact(cx: Ctx, node):
    """The MAC-success fact holding at ``node`` (None if there is none)."""
    for E, pol, text, _raw in cx.xfacts(node):
        pair = None
        if isinstance(E, ast.Call) and q.call_attr(E) == "compare_digest" and len(E.args) == 2 and pol:
            pair = (E.args[0], E.args[1])
        else:
            eq = equality_fact(E, pol)
            if eq is not None and eq[2]:
                pair = (eq[0], eq[1])
        if pair is None:
            continue
        for a, b in (pair, pair[::-1]):
            sa = strip_wrappers(a)
            if is_signer_call(sa):
                return Mac(sa, b, text)
    return None


def recognised_compares(cx):
    """Nodes holding a comparison the recogniser fully understands (compare_digest / == as a test or
    as the value of a boolean local) or the computation of the expected signature itself."""
    out = set()
    for n in cx.fi.cfg.stmt_nodes():
        from ..x_secflow import node_exprs

        for e in node_exprs(n):
            E = strip_wrappers(cx.rd.expand(e, n))
            if is_signer_call(E):
                out.add(n.id)  # expected = signer(...)
            if isinstance(E, ast.Call) and q.call_attr(E) == "compare_digest" and len(E.args) == 2:
                out.add(n.id)
            if isinstance(E, ast.Compare) and len(E.ops) == 1 and isinstance(E.ops[0], (ast.Eq, ast.NotEq)):
                out.add(n.id)
    return out


def weak_mac_test(cx, r):
    """A recognised but insufficient comparison with the signer's output (prefix / substring / truncated)."""
    for n in cx.fi.cfg.stmt_nodes(lambda n: n.kind == "test"):
        E = cx.rd.expand(n.ast, n)
        if isinstance(E, ast.Call) and isinstance(E.func, ast.Attribute) and E.func.attr in ("startswith", "endswith", "find", "count") and any(is_signer_call(x) for x in ast.walk(E)):
            return q.unparse(n.ast)
        if isinstance(E, ast.Compare) and any(isinstance(o, (ast.In, ast.NotIn)) for o in E.ops) and any(is_signer_call(x) for x in ast.walk(E)):
            return q.unparse(n.ast)
        if isinstance(E, ast.Call) and q.call_attr(E) == "compare_digest" and len(E.args) == 2 and any(is_signer_call(x) for x in ast.walk(E)) and not any(is_signer_call(strip_wrappers(a)) for a in E.args):
            # the signer's output goes through a further (many-to-one) transformation before it is compared, e.g. hex decoding / case folding
            return q.unparse(n.ast) + "  [operands transformed before the comparison]"
    return None


def compare_sites(fi):
    return [c for c in q.calls(fi.node) if q.call_attr(c) == "compare_digest"]


def check_mac_gate(ck, cx: Ctx):
    fi = cx.fi
    rets = nonnull_returns(fi)
    ck.floor("C23.mac-gate", len(rets), 1, "value-returning returns in %s" % fi.qualname)
    macs = []
    for r in rets:
        rv = cx.rd.expand(r.ast.value, r)
        if isinstance(rv, ast.Name) and "@" in rv.id:
            raise AnalysisError("%s: returns the merged variable %s; the rule cannot tell which value it holds on which path" % (fi.qualname, rv.id))
        m = mac_fact(cx, r)
        weak = None
        if m is None:
            weak = weak_mac_test(cx, r)
            if weak is None:
                absent_or_unknown(cx.rd, r, lambda E: any(is_signer_call(x) for x in ast.walk(E)) or any(isinstance(x, ast.Call) and q.call_attr(x) == "compare_digest" for x in ast.walk(E)),
                                  recognised_compares(cx), "the MAC comparison")
        ck.ob("C23.mac-gate", fi, r.ast, m is not None,
              "return of a value is dominated by the success branch of the MAC comparison (signer output vs. parsed signature, both verbatim)%s" % (": " + m.text if m else ("; found only: " + weak if weak else "")))
        if m is None:
            continue
        macs.append((r, m))
        # the key is the secret, the passed signature comes from the input
        key_ok = m.key is not None and base_id(strip_wrappers(m.key)) == "secret"
        if not key_ok and m.key is not None:
            kn = {base_id(x) for x in ast.walk(m.key) if isinstance(x, ast.Name)}
            hard = [x for x in ast.walk(m.key) if isinstance(x, ast.Constant) and isinstance(x.value, (bytes, str)) and x.value not in ("", b"")]
            if "secret" in kn and not hard:
                # a key derived from the secret only (selected by key version, conditional on its type, renamed): fine unless something else is mixed in
                if kn - {"secret", "__unpack__", "_decode_fields_v2", "value", "isinstance", "dict", "int", "utf8"}:
                    raise AnalysisError("%s: cannot establish what the MAC key %s is" % (fi.qualname, q.unparse(m.key)[:80]))
                key_ok = True
            elif "secret" in kn or any("@" in (x.id if isinstance(x, ast.Name) else "") for x in ast.walk(m.key)):
                raise AnalysisError("%s: cannot establish what the MAC key %s is" % (fi.qualname, q.unparse(m.key)[:80]))
        ck.ob("C23.mac-gate", fi, r.ast, key_ok, "the expected signature is computed by %s with the secret as key" % m.signer, construct="key of " + q.unparse(m.call)[:120])
        passed_ok = "value" in names_of(m.passed) and not any(is_signer_call(x) for x in ast.walk(m.passed))
        ck.ob("C23.mac-gate", fi, r.ast, passed_ok, "the compared signature is parsed from the input value (not recomputed)", construct="passed " + q.unparse(m.passed)[:120])
        verbatim = elem(m.passed) is not None
        ck.ob("C23.mac-gate", fi, r.ast, verbatim, "the compared signature is one field of the input taken verbatim (no case folding, stripping or slicing, so every edit of it is noticed)", construct="verbatim " + q.unparse(m.passed)[:120])
        if m.mode is None:
            raise AnalysisError("%s: MAC input %s is in no recognised shape (argument list or prefix of the parsed buffer)" % (fi.qualname, q.unparse(m.call)))
        if m.mode == "buffer":
            ex = exactness(m.buffer, "value")
            if ex == "unknown":
                raise AnalysisError("%s: cannot establish that the verified buffer (%s) is the input value" % (fi.qualname, q.unparse(m.buffer)[:60]))
            ck.ob("C23.mac-gate", fi, r.ast, ex == "exact", "the buffer that is parsed and verified is the input value exactly (no stripping / case folding / replacing before the MAC check)", construct="exact input")
    return macs


# ---------------------------------------------------------------------------
# payload / name / expiry


def payload_of(cx, r):
    """The raw (pre-decoding) text whose decoding is returned at ``r``."""
    E = cx.rd.expand(r.ast.value, r)
    if isinstance(E, ast.Call) and q.dotted(E.func) in ("base64.b64decode", "base64.urlsafe_b64decode", "base64.standard_b64decode") and E.args:
        return E.args[0], q.dotted(E.func)
    return E, None


def check_payload(ck, cx, r, m):
    P, codec = payload_of(cx, r)
    if not m.covers(P) and elem(P) is None and any(isinstance(x, ast.Call) and isinstance(x.func, ast.Name) and x.func.id not in ("__unpack__", "utf8", "bytes", "str") for x in ast.walk(P)):
        raise AnalysisError("%s: the returned value %s goes through a helper the rule does not understand" % (cx.fi.qualname, q.unparse(P)[:80]))
    ck.ob("C23.mac-covers", cx.fi, r.ast, m.covers(P), "the returned payload %s is part of the MAC input (%s mode)" % (q.unparse(P)[:80], m.mode))
    return P, codec


def check_field_lengths(ck, cx, r, m):
    """The decoder does not reject a correctly signed value because of the *length* of one of its fields:
    create_signed_value signs names and values of any length."""
    from ..x_secflow import guarding_tests
    import copy

    fi = cx.fi
    for t, edge in guarding_tests(fi.cfg, r):
        E = cx.rd.expand(t.ast, t)
        if not (isinstance(E, ast.Compare) and len(E.ops) == 1):
            continue
        lens = [x for x in [E.left] + list(E.comparators) if isinstance(x, ast.Call) and isinstance(x.func, ast.Name) and x.func.id == "len" and len(x.args) == 1 and m.covers(x.args[0])]
        if not lens:
            continue
        dumps = {ast.dump(x) for x in lens}

        class L(ast.NodeTransformer):
            def visit_Call(self, node):
                if ast.dump(node) in dumps:
                    return ast.Name(id="__L", ctx=ast.Load())
                return self.generic_visit(node)

        F = L().visit(copy.deepcopy(E))
        try:
            passing = {n_ for n_ in list(range(0, 300)) + [4096, 10 ** 6] if bool(q.fold(F, {"__L": n_})) == (edge == "true")}
        except q.NotFoldable:
            raise AnalysisError("%s: length test on a signed field not evaluable: %s" % (fi.qualname, q.unparse(t.ast)[:80]))
        rejected = sorted((set(range(1, 300)) | {4096, 10 ** 6}) - passing)
        ck.ob("C23.fields-agree", fi, t.ast, not rejected, "the decoder accepts signed fields of any length (the encoder signs names and values of any length)%s" % ("" if not rejected else "; rejected lengths e.g. %s" % rejected[:4]))


def check_name(ck, cx, r, m):
    fi = cx.fi
    if m.mode == "parts":
        ok = any(base_id(strip_wrappers(a)) == "name" and "@" not in strip_wrappers(a).id for a in m.data if isinstance(strip_wrappers(a), ast.Name))
        ck.ob("C23.name-bound", fi, r.ast, ok, "the name parameter is one of the MAC inputs of %s" % m.signer, construct="name in " + q.unparse(m.call)[:120])
        return None
    for E, pol, text, _raw in cx.xfacts(r):
        eq = equality_fact(E, pol)
        if eq is None or not eq[2]:
            continue
        for a, b in ((eq[0], eq[1]), (eq[1], eq[0])):
            sa = strip_wrappers(a)
            if isinstance(sa, ast.Name) and sa.id == "name" and m.covers(b):
                ck.ob("C23.name-bound", fi, r.ast, True, "return dominated by equality of the authenticated name field with the name parameter: " + text)
                return b
    rec = set()
    for n in fi.cfg.stmt_nodes(lambda n: n.kind == "test"):
        E = cx.rd.expand(n.ast, n)
        if equality_fact(E, True) is not None or (isinstance(E, ast.Call) and isinstance(E.func, ast.Attribute) and E.func.attr in ("startswith", "endswith")):
            rec.add(n.id)  # understood: an (in)equality / prefix test - if it were the binding it would have matched above
    absent_or_unknown(cx.rd, r, lambda E: any(isinstance(x, ast.Name) and x.id == "name" for x in ast.walk(E)) and not any(is_signer_call(x) for x in ast.walk(E)), rec, "the name binding")
    ck.ob("C23.name-bound", fi, r.ast, False, "return of a value is dominated by the comparison of the authenticated name field with the name parameter", construct="name test before " + q.unparse(r.ast)[:80])
    return None


def classify_time_atoms(cx, r, atoms, m):
    """atom text -> role in {'ts','clock','age'}; anything else -> None."""
    roles = {}
    params = set(cx.fi.params())
    for t, a in atoms.items():
        E = cx.rd.expand(a, r)
        role = None
        inner = E.args[0] if isinstance(E, ast.Call) and isinstance(E.func, ast.Name) and E.func.id in ("int", "float") and len(E.args) == 1 else None
        if inner is not None and ((isinstance(inner, ast.Call) and not inner.args and isinstance(inner.func, ast.Name) and base_id(inner.func) in params) or (isinstance(inner, ast.Name) and inner.id in params)):
            E, inner = inner, None  # int(clock()) / float(max_age_days): the conversion does not change the role
        if inner is not None:
            role = ("ts", inner)
        elif isinstance(E, ast.Call) and not E.args and not E.keywords and ((isinstance(E.func, ast.Name) and base_id(E.func) in params) or q.dotted(E.func) == "time.time"):
            role = ("clock", None)
        elif isinstance(E, ast.Name) and E.id in params:
            role = ("age", E.id)
        roles[t] = role
    return roles


def time_facts(cx, r, m):
    """Order facts at r over (timestamp, clock, [age]) as (coef_ts, coef_clock, coef_age, const, ts_operand, text)."""
    out = []
    for e, pol, text in cx.bfacts(r):
        g = fact_geq0(e, pol)
        if g is None:
            g = fact_geq0(cx.rd.expand(e, r), pol)  # e.g. a module-level constant for the seconds per day
        if g is None:
            continue
        coefs, const, strict, atoms = g
        if "__floor__" not in atoms:
            # a rounded age may also sit in a local: look one definition deeper
            g2 = fact_geq0(cx.rd.expand(e, r), pol)
            if g2 is not None and "__floor__" in g2[3]:
                coefs, const, strict, atoms = g2
        roles = classify_time_atoms(cx, r, {t: atoms[t] for t in coefs}, m)
        if any(v is None for v in roles.values()):
            g2 = fact_geq0(cx.rd.expand(e, r), pol)
            if g2 is None:
                continue
            coefs, const, strict, atoms = g2
            roles = classify_time_atoms(cx, r, {t: atoms[t] for t in coefs}, m)
            if any(v is None for v in roles.values()):
                continue
        by = {}
        ts_op = None
        for t, (role, extra) in roles.items():
            by[role] = by.get(role, 0) + coefs[t]
            if role == "ts":
                ts_op = extra
        if "ts" in by and "clock" in by:
            out.append((by["ts"], by["clock"], by.get("age", 0), const, ts_op, text + (" [rounded down with //]" if "__floor__" in atoms else "")))
    return out


def _mentions_clock_call(E, params):
    return any(isinstance(x, ast.Call) and not x.args and ((isinstance(x.func, ast.Name) and base_id(x.func) in params) or q.dotted(x.func) == "time.time") for x in ast.walk(E))


def time_test_nodes(cx, m, r):
    """ids of test nodes that parse as linear order facts over (timestamp, clock[, age])."""
    out = set()
    for n in cx.fi.cfg.stmt_nodes(lambda n: n.kind == "test"):
        g = fact_geq0(n.ast, True)
        if g is None:
            continue
        coefs, _c, _s, atoms = g
        roles = classify_time_atoms(cx, n, {t: atoms[t] for t in coefs}, m)
        if roles and all(v is not None for v in roles.values()):
            out.add(n.id)
    return out


def check_expiry(ck, cx, r, m):
    fi = cx.fi
    found = None
    wrong = None
    for cts, cclk, cage, const, ts_op, text in time_facts(cx, r, m):
        # ts - clock + 86400*age >= 0
        if cts > 0 and cclk == -cts and cage > 0:
            found = (cts, cage, const, ts_op, text)
            break
        if cage != 0:
            wrong = text
    if found is None and wrong is None:
        params = set(fi.params())
        absent_or_unknown(cx.rd, r, lambda E: _mentions_clock_call(E, params) and any(isinstance(x, ast.Name) and x.id == "max_age_days" for x in ast.walk(E)), time_test_nodes(cx, m, r), "the expiry test")
    ck.ob("C23.expiry", fi, r.ast, found is not None, "return of a value is dominated by 'timestamp >= clock() - max_age_days * 86400' (any equivalent arrangement)%s" % (": " + found[4] if found else ("; found with the wrong orientation: " + wrong if wrong else "")),
          construct="expiry test before " + q.unparse(r.ast)[:80])
    if not found:
        return None
    cts, cage, const, ts_op, text = found
    ck.ob("C23.expiry", fi, r.ast, abs(cage - 86400 * cts) <= 1e-9 * abs(cage) and const == 0, "the age bound is max_age_days in days (x 86400 s), no slack constant: " + text, construct="scale of " + text)
    ck.ob("C23.expiry", fi, r.ast, "[rounded down" not in text, "the age is compared exactly, not after rounding down to whole units (a floored age keeps a value valid up to one unit longer and rounds fractional max_age_days up)", construct="exact comparison")
    ck.ob("C23.mac-covers", fi, r.ast, m.covers(ts_op), "the timestamp that is compared (%s) is part of the MAC input" % q.unparse(ts_op)[:80], construct="timestamp " + q.unparse(ts_op)[:100])
    return ts_op


def check_v1_delimiter(ck, cx, r, m, ts_op):
    """MAC over an undelimited argument list: digits can migrate between payload and
    timestamp without changing the MAC; the two guards that bound it must hold."""
    fi = cx.fi
    fut = None
    for cts, cclk, cage, const, op, text in time_facts(cx, r, m):
        if cts < 0 and cclk == -cts and cage == 0 and 0 < const / cclk <= 100 * 366 * 86400:
            fut = text
    if fut is None:
        params = set(fi.params())
        absent_or_unknown(cx.rd, r, lambda E: _mentions_clock_call(E, params) and not any(isinstance(x, ast.Name) and x.id == "max_age_days" for x in ast.walk(E)), time_test_nodes(cx, m, r), "the upper timestamp bound")
    ck.ob("C23.v1-digit-shift", fi, r.ast, fut is not None, "undelimited MAC: return dominated by an upper bound 'timestamp <= clock() + const' with const below 100 years (one shifted digit multiplies the timestamp by >= 10; digits moved from the payload into the timestamp)%s" % (": " + fut if fut else ""),
          construct="future bound before " + q.unparse(r.ast)[:80])
    lead = False
    for E, pol, text, _raw in cx.xfacts(r):
        if isinstance(E, ast.Call) and q.call_attr(E) == "startswith" and not pol and isinstance(E.func, ast.Attribute) and len(E.args) == 1:
            z = E.args[0]
            if isinstance(z, ast.Constant) and z.value in (b"0", "0") and ts_op is not None and same(strip_wrappers(E.func.value), strip_wrappers(ts_op)):
                lead = True
        eq = equality_fact(E, pol)
        if eq and not eq[2] and ts_op is not None:
            for a, b in ((eq[0], eq[1]), (eq[1], eq[0])):
                if isinstance(b, ast.Constant) and b.value in (b"0", "0") and isinstance(a, ast.Subscript) and isinstance(a.slice, ast.Slice) and a.slice.lower is None and a.slice.step is None \
                        and isinstance(a.slice.upper, ast.Constant) and a.slice.upper.value == 1 and same(strip_wrappers(a.value), strip_wrappers(ts_op)):
                    lead = True
    if not lead and ts_op is not None:
        tsd = ast.dump(strip_wrappers(ts_op))
        bad_idx = set()
        for n in fi.cfg.stmt_nodes(lambda n: n.kind == "test"):
            eqn = equality_fact(cx.rd.expand(n.ast, n), True)
            if eqn:
                for a, b in ((eqn[0], eqn[1]), (eqn[1], eqn[0])):
                    if isinstance(b, ast.Constant) and isinstance(b.value, (bytes, str)) and isinstance(a, ast.Subscript) and not isinstance(a.slice, ast.Slice) and ast.dump(strip_wrappers(a.value)) == tsd:
                        bad_idx.add(n.id)  # understood and insufficient: indexing bytes yields an int, never equal to b"0"
        absent_or_unknown(cx.rd, r, lambda E: any(ast.dump(x) == tsd for x in ast.walk(E)) and any(isinstance(x, ast.Constant) and x.value in (b"0", "0", 48) for x in ast.walk(E)), bad_idx, "the leading-zero rejection")
    ck.ob("C23.v1-digit-shift", fi, r.ast, lead, "undelimited MAC: return dominated by rejection of a timestamp with a leading '0' (zero digits moved from the payload)",
          construct="leading-zero test before " + q.unparse(r.ast)[:80])


# ---------------------------------------------------------------------------
# decode_signed_value: floor + dispatch


def signer_versions(ck, enc):
    """signer name -> format version under which create_signed_value calls it."""
    cx = Ctx(ck, enc)
    out = {}
    for node, c in enc.cfg.find(is_signer_call):
        for E, pol, text, raw in cx.xfacts(node):
            eq = equality_fact(raw, pol)
            if eq and eq[2]:
                for a, b in ((eq[0], eq[1]), (eq[1], eq[0])):
                    if isinstance(a, ast.Name) and a.id == "version" and isinstance(b, ast.Constant) and isinstance(b.value, int):
                        out[c.func.id] = b.value
    return out


def check_entry(ck, dec, decoder_signer, sv):
    cx = Ctx(ck, dec)
    rets = nonnull_returns(dec)
    ck.floor("C23.version-floor", len(rets), 1, "value-returning returns in decode_signed_value")
    virtual = []
    for r in rets:
        E0 = cx.rd.expand(r.ast.value, r)
        if isinstance(E0, ast.Call) and isinstance(E0.func, ast.Name) and E0.func.id in decoder_signer:
            virtual.append((r, E0, None))
            continue
        # a lookup table instead of the branch chain: {1: f1, 2: f2}.get(version)(...) / TABLE[version](...)
        f = E0.func if isinstance(E0, ast.Call) else None
        tbl = key = None
        if isinstance(f, ast.Call) and isinstance(f.func, ast.Attribute) and f.func.attr == "get" and f.args:
            tbl, key = f.func.value, f.args[0]
        elif isinstance(f, ast.Subscript):
            tbl, key = f.value, f.slice
        if isinstance(tbl, ast.Name) and tbl.id in dec.module.assigns:
            tbl = dec.module.assigns[tbl.id]
        if isinstance(tbl, ast.Dict) and key is not None and _is_version_expr(strip_wrappers(key)) and all(isinstance(k_, ast.Constant) and isinstance(v_, ast.Name) for k_, v_ in zip(tbl.keys, tbl.values)):
            for k_, v_ in zip(tbl.keys, tbl.values):
                if v_.id not in decoder_signer:
                    raise AnalysisError("decode_signed_value: dispatch table entry %s is not a format decoder the rule knows" % v_.id)
                virtual.append((r, ast.Call(func=ast.Name(id=v_.id, ctx=ast.Load()), args=E0.args, keywords=E0.keywords), (k_.value, strip_wrappers(key))))
            continue
        if isinstance(E0, ast.Constant) or (isinstance(E0, ast.Name) and E0.id in dec.params()):
            ck.ob("C23.mac-gate", dec, r.ast, False, "decode_signed_value returns only None or the result of a format decoder (returns %s)" % q.unparse(E0)[:40])
            continue
        raise AnalysisError("decode_signed_value: returns %s, which the rule cannot relate to a format decoder" % q.unparse(E0)[:80])
    ck.floor("C23.dispatch", len(virtual) + len([v for v in ck.violations if v.rule == "C23.mac-gate" and v.func == dec.qualname]), 2, "format decoders dispatched to by decode_signed_value")
    for r, E, table_key in virtual:
        # floor
        floor = None
        ver_expr = None
        for e, pol, text in cx.bfacts(r):
            g = fact_geq0(e, pol)
            if g is None:
                continue
            coefs, const, strict, atoms = g
            if len(coefs) != 2:
                continue
            v = [t for t in coefs if _is_version(cx, r, atoms[t])]
            mn = [t for t in coefs if isinstance(atoms[t], ast.Name) and atoms[t].id == "min_version"]
            if len(v) == 1 and len(mn) == 1 and coefs[v[0]] > 0 and coefs[mn[0]] == -coefs[v[0]] and ((not strict and const == 0) or (strict and const == coefs[v[0]])):
                floor = text
                ver_expr = cx.rd.expand(atoms[v[0]], r)
        if floor is None:
            rec = set()
            for n in dec.cfg.stmt_nodes(lambda n: n.kind == "test"):
                if fact_geq0(n.ast, True) is not None or equality_fact(n.ast, True) is not None:
                    rec.add(n.id)  # an order / equality test the rule parses; had it been the floor it would have matched
            absent_or_unknown(cx.rd, r, lambda E: any(isinstance(x, ast.Name) and base_id(x) == "min_version" for x in ast.walk(E)) and any(_is_version_expr(x) for x in ast.walk(E)), rec, "the min_version floor")
        ck.ob("C23.version-floor", dec, r.ast, floor is not None, "decoder result returned only when version >= min_version holds on every path%s" % (": " + floor if floor else ""),
              construct="floor before " + q.unparse(r.ast)[:80])
        # dispatch
        want = sv.get(decoder_signer[E.func.id])
        got = None
        if table_key is not None:
            got, ver_expr = table_key[0], (ver_expr or table_key[1])
        for Ef, pol, text, raw in (cx.xfacts(r) if table_key is None else []):
            eq = equality_fact(Ef, pol)
            if eq and eq[2]:
                for a, b in ((eq[0], eq[1]), (eq[1], eq[0])):
                    if _is_version_expr(a) and isinstance(b, ast.Constant):
                        got = b.value
                        ver_expr = ver_expr or a
        if got is None:
            rec = {n.id for n in dec.cfg.stmt_nodes(lambda n: n.kind == "test") if fact_geq0(n.ast, True) is not None or equality_fact(n.ast, True) is not None}
            absent_or_unknown(cx.rd, r, lambda E: any(_is_version_expr(x) for x in ast.walk(E)) and not any(isinstance(x, ast.Name) and base_id(x) == "min_version" for x in ast.walk(E)) and not _is_version_expr(E), rec, "the format dispatch")
        ck.ob("C23.dispatch", dec, r.ast, want is not None and got == want, "%s (MAC by %s, written by create_signed_value for version %s) is called only under version == %s" % (E.func.id, decoder_signer[E.func.id], want, want),
              construct="dispatch of " + E.func.id)
        # same buffer
        if ver_expr is not None and _is_version_expr(ver_expr):
            buf = strip_wrappers(ver_expr.args[0])
            ck.ob("C23.dispatch", dec, r.ast, any(same(strip_wrappers(a), buf) for a in E.args), "the decoder receives the same buffer the version was detected on", construct="buffer of " + E.func.id)


def _is_version_expr(E):
    return isinstance(E, ast.Call) and isinstance(E.func, ast.Name) and E.func.id == "_get_version" and len(E.args) == 1


def _is_version(cx, r, atom):
    return _is_version_expr(cx.rd.expand(atom, r))


# ---------------------------------------------------------------------------
# pass-through of parameters (wrapper -> anchored function, entry -> format decoder)


NORMALISING = {"strip", "lstrip", "rstrip", "lower", "upper", "casefold", "replace", "translate", "title", "swapcase", "capitalize", "expandtabs", "removeprefix", "removesuffix"}


def exactness(E, pname):
    """How the (expanded) expression relates to parameter ``pname``: 'exact' (the parameter, at most converted by
    utf8/bytes), 'lossy' (the parameter after a many-to-one normalisation: stripping, case folding, replacing,
    slicing - different inputs give the same bytes), or 'unknown'."""
    s_ = strip_wrappers(E)
    if isinstance(s_, ast.Name) and base_id(s_) == pname:
        return "exact"
    if not any(isinstance(x, ast.Name) and base_id(x) == pname for x in ast.walk(E)):
        return "unknown"
    cur = s_
    lossy = False
    while True:
        cur = strip_wrappers(cur)
        if isinstance(cur, ast.Call) and isinstance(cur.func, ast.Attribute) and cur.func.attr in NORMALISING:
            lossy, cur = True, cur.func.value
        elif isinstance(cur, ast.Subscript) and isinstance(cur.slice, ast.Slice):
            lossy, cur = True, cur.value
        else:
            break
    if lossy and isinstance(cur, ast.Name) and base_id(cur) == pname:
        return "lossy"
    return "unknown"


def _default_of(fi, pname):
    a = fi.node.args
    pos = a.posonlyargs + a.args
    for arg, d in zip(pos[len(pos) - len(a.defaults):], a.defaults):
        if arg.arg == pname:
            return d
    for arg, d in zip(a.kwonlyargs, a.kw_defaults):
        if arg.arg == pname:
            return d
    return None


def check_pass_through(ck, caller, callee):
    """Every call of ``callee`` in ``caller`` hands each parameter the caller's same-named value
    (the secret: the cookie_secret setting), and does not fall back to the callee's default for a
    parameter the caller itself receives."""
    rd = Reach(caller)
    cparams = [p for p in callee.params()]
    mine = set(caller.params())
    n = 0
    for node, c in caller.cfg.find(lambda x: isinstance(x, ast.Call) and isinstance(x.func, ast.Name) and x.func.id == callee.name):
        n += 1
        if any(isinstance(a, ast.Starred) for a in c.args) or any(k.arg is None for k in c.keywords):
            raise AnalysisError("%s: call of %s with */** arguments" % (caller.qualname, callee.name))
        given = {}
        for i, a in enumerate(c.args):
            if i < len(cparams):
                given[cparams[i]] = a
        for k in c.keywords:
            given[k.arg] = k.value
        for p_, a in given.items():
            E = strip_wrappers(rd.expand(a, node))
            ok = isinstance(E, ast.Name) and base_id(E) == p_
            if p_ == "secret" and not ok:
                ok = any(isinstance(x, ast.Constant) and x.value == "cookie_secret" for x in ast.walk(E))
            if not ok and p_ not in mine and isinstance(E, ast.Constant):
                dflt = _default_of(callee, p_)
                ok = isinstance(dflt, ast.Constant) and dflt.value == E.value and type(dflt.value) is type(E.value)  # explicit default
            if not ok and p_ in mine and exactness(rd.expand(a, node), p_) == "lossy":
                ck.ob("C23.pass-through", caller, c, False, "%s(...) is given the caller's '%s' exactly (converted by utf8() at most): after stripping / case folding / replacing / slicing, different inputs verify as the same value (got %s)"
                      % (callee.name, p_, q.unparse(rd.expand(a, node))[:60]), construct="%s(%s lossy)" % (callee.name, p_))
                continue
            if not ok and not (isinstance(E, ast.Constant) or (isinstance(E, ast.Name) and (base_id(E) in mine or base_id(E) in cparams))):
                raise AnalysisError("%s: cannot establish what %s receives for '%s' (%s)" % (caller.qualname, callee.name, p_, q.unparse(E)[:60]))
            ck.ob("C23.pass-through", caller, c, ok, "%s(...) receives the caller's own '%s' for its parameter '%s' (got %s)" % (callee.name, p_, p_, q.unparse(E)[:60]), construct="%s(%s=...)" % (callee.name, p_))
        for p_ in cparams:
            if p_ not in given and p_ in mine:
                ck.ob("C23.pass-through", caller, c, False, "%s(...) is not given the caller's '%s' (the callee's default would silently replace it)" % (callee.name, p_), construct="%s(%s missing)" % (callee.name, p_))
    return n


# ---------------------------------------------------------------------------
# role tables


def classify_enc_elt(enc, e):
    formatted = False
    if isinstance(e, ast.Constant):
        return ("const", e.value, False)
    if is_signer_call(e):
        return ("sig", e, False)
    if isinstance(e, ast.Call) and isinstance(e.func, ast.Lambda) and len(e.args) == 1 and not e.keywords and len(e.func.args.args) == 1 and not (e.func.args.vararg or e.func.args.kwarg or e.func.args.kwonlyargs):
        # a formatter written as a lambda bound to a local (the expansion put the lambda in call position)
        if formatter_shape_ok(e.func.args.args[0].arg, e.func.body) is not True:
            raise AnalysisError("create_signed_value: field formatter lambda in a shape the rule does not understand")
        formatted = "<lambda>"
        e = e.args[0]
    elif isinstance(e, ast.Call) and isinstance(e.func, ast.Name) and formatter_func(enc, e.func.id) is not None and len(e.args) == 1 and not e.keywords:
        formatted = e.func.id
        e = e.args[0]
    s = strip_wrappers(e)
    if isinstance(s, ast.Name) and s.id == "name":
        return ("name", s, formatted)
    if any(isinstance(x, ast.Call) and (q.dotted(x.func) or "").startswith("base64.") and (q.dotted(x.func) or "").endswith("encode") for x in ast.walk(s)):
        return ("value", s, formatted)
    if any(isinstance(x, ast.Call) and not x.args and isinstance(x.func, ast.Name) and base_id(x.func) == "clock" for x in ast.walk(s)):
        return ("ts", s, formatted)
    if any(isinstance(x, ast.Name) and base_id(x) == "key_version" for x in ast.walk(s)):
        return ("kv", s, formatted)
    raise AnalysisError("create_signed_value: cannot assign a role to wire element %s" % q.unparse(e))


_NESTED = {}


def formatter_shape_ok(p0, value):
    """``value`` writes '<len(p0)>:' followed by p0 (concatenation, %-format or f-string)."""
    has_len = any(isinstance(y, ast.Call) and isinstance(y.func, ast.Name) and y.func.id == "len" and len(y.args) == 1 and isinstance(y.args[0], ast.Name) and y.args[0].id == p0 for y in ast.walk(value))
    has_fmt = any(isinstance(y, ast.Constant) and y.value in ("%d:", b"%d:") for y in ast.walk(value))
    def is_len(x):
        if isinstance(x, ast.Tuple) and len(x.elts) == 1:
            x = x.elts[0]
        return isinstance(x, ast.Call) and isinstance(x.func, ast.Name) and x.func.id == "len" and len(x.args) == 1 and isinstance(strip_wrappers(x.args[0]), ast.Name) and strip_wrappers(x.args[0]).id == p0

    okf = False
    if isinstance(value, ast.BinOp) and isinstance(value.op, ast.Add) and isinstance(strip_wrappers(value.right), ast.Name) and strip_wrappers(value.right).id == p0:
        pre = strip_wrappers(value.left)
        okf = isinstance(pre, ast.BinOp) and isinstance(pre.op, ast.Mod) and isinstance(pre.left, ast.Constant) and pre.left.value in ("%d:", b"%d:") and is_len(pre.right)
        if not okf and isinstance(pre, ast.BinOp) and isinstance(pre.op, ast.Mod) and isinstance(pre.left, ast.Constant) and pre.left.value in ("%d:", b"%d:"):
            r_ = pre.right.elts[0] if isinstance(pre.right, ast.Tuple) and len(pre.right.elts) == 1 else pre.right
            if isinstance(r_, ast.BinOp) and isinstance(r_.op, (ast.Add, ast.Sub, ast.Mult)) and (is_len(r_.left) or is_len(r_.right)) and (isinstance(r_.left, ast.Constant) or isinstance(r_.right, ast.Constant)):
                return "bad-length"  # understood: the prefix is an arithmetic variation of the field's length
    v_ = strip_wrappers(value)
    if not okf and isinstance(v_, ast.BinOp) and isinstance(v_.op, ast.Mod) and isinstance(v_.left, ast.Constant) and v_.left.value in ("%d:%s", b"%d:%s", b"%d:%b") and isinstance(v_.right, ast.Tuple) and len(v_.right.elts) == 2:
        l_, d_ = v_.right.elts
        okf = is_len(l_) and isinstance(strip_wrappers(d_), ast.Name) and strip_wrappers(d_).id == p0
    if not okf and isinstance(v_, ast.JoinedStr) and len(v_.values) == 3 and isinstance(v_.values[1], ast.Constant) and v_.values[1].value == ":" and all(isinstance(v_.values[k], ast.FormattedValue) for k in (0, 2)):
        l_, d_ = v_.values[0].value, v_.values[2].value
        okf = isinstance(l_, ast.Call) and isinstance(l_.func, ast.Name) and l_.func.id == "len" and len(l_.args) == 1 and isinstance(l_.args[0], ast.Name) and l_.args[0].id == p0 and isinstance(d_, ast.Name) and d_.id == p0
    return bool(okf)


def formatter_func(enc, name):
    """FuncInfo of a one-argument helper of the encoder (nested in it or at module level) used to format a field."""
    if name in SIGNERS or name in CODEC_WRAPPERS_ or name == "__unpack__":
        return None
    m = enc.module
    fi = m.funcs.get(enc.qualname + ".<locals>." + name) or m.funcs.get(name)
    if fi is None:
        return None
    ps = [p for p in fi.params()]
    return fi if len(ps) == 1 else None


def enc_nested(enc):
    return [f.node for q_, f in enc.module.funcs.items() if q_.startswith(enc.qualname + ".<locals>.")]


CODEC_PAIRS = {"base64.b64encode": "base64.b64decode", "base64.urlsafe_b64encode": "base64.urlsafe_b64decode", "base64.standard_b64encode": "base64.standard_b64decode"}


def payload_codec(elts):
    """(encoder codec name, payload encoded whole and byte-exact?) from the classified wire elements."""
    for role, e, _f in elts:
        if role == "value":
            if isinstance(e, ast.Call) and q.dotted(e.func) in CODEC_PAIRS and len(e.args) == 1 and not e.keywords:
                inner = strip_wrappers(e.args[0])
                return q.dotted(e.func), isinstance(inner, ast.Name) and inner.id == "value"
            return q.unparse(e)[:60], False
    return None, False


def flatten_elts(container):
    """Elements of a list/tuple display with ``*map(f, (a, b))`` / ``*[f(x) for x in (a, b)]`` / ``*(a, b)`` spelled out."""
    out = []
    for el in container.elts:
        if not isinstance(el, ast.Starred):
            out.append(el)
            continue
        v = el.value
        if isinstance(v, (ast.Tuple, ast.List)) and not any(isinstance(x, ast.Starred) for x in v.elts):
            out.extend(v.elts)
            continue
        if isinstance(v, ast.Call) and isinstance(v.func, ast.Name) and v.func.id == "map" and len(v.args) == 2 and isinstance(v.args[0], ast.Name) and isinstance(v.args[1], (ast.Tuple, ast.List)) \
                and not any(isinstance(x, ast.Starred) for x in v.args[1].elts):
            out.extend(ast.Call(func=v.args[0], args=[x], keywords=[]) for x in v.args[1].elts)
            continue
        if isinstance(v, (ast.ListComp, ast.GeneratorExp)) and len(v.generators) == 1 and not v.generators[0].ifs and isinstance(v.generators[0].target, ast.Name) and isinstance(v.generators[0].iter, (ast.Tuple, ast.List)) \
                and not any(isinstance(x, ast.Starred) for x in v.generators[0].iter.elts):
            import copy

            var = v.generators[0].target.id
            for x in v.generators[0].iter.elts:
                class S(ast.NodeTransformer):
                    def visit_Name(self, node, x=x):
                        return copy.deepcopy(x) if node.id == var and isinstance(node.ctx, ast.Load) else node

                out.append(S().visit(copy.deepcopy(v.elt)))
            continue
        raise AnalysisError("create_signed_value: starred element %s of the wire format cannot be spelled out" % q.unparse(el)[:80])
    return out


def is_join(e):
    return isinstance(e, ast.Call) and isinstance(e.func, ast.Attribute) and e.func.attr == "join" and isinstance(e.func.value, ast.Constant) and len(e.args) == 1 and isinstance(e.args[0], (ast.List, ast.Tuple))


def encoder_tables(ck, enc):
    """version -> dict(mode, sep, roles(list), signer, mac_roles)."""
    cx = Ctx(ck, enc)
    out = {}
    for r in nonnull_returns(enc):
        ver = None
        for e, pol, text in cx.bfacts(r):
            eq = equality_fact(e, pol)
            if eq and eq[2]:
                for a, b in ((eq[0], eq[1]), (eq[1], eq[0])):
                    if isinstance(a, ast.Name) and a.id == "version" and isinstance(b, ast.Constant):
                        ver = b.value
        if ver is None:
            raise AnalysisError("create_signed_value: a value is returned outside a 'version == K' branch")
        E = concat_canon(cx.rd.expand(r.ast.value, r))
        if not is_join(E) and not (isinstance(E, ast.BinOp) and isinstance(E.op, ast.Add) and is_signer_call(strip_wrappers(E.right)) and is_join(strip_wrappers(E.left))):
            E = concat_to_join(E)  # a + SEP + b + SEP + c is the same field sequence as SEP.join([a, b, c])
        if is_join(E):
            elts = [classify_enc_elt(enc, x) for x in flatten_elts(E.args[0])]
            sig = [x for x in elts if x[0] == "sig"]
            if len(sig) != 1:
                raise AnalysisError("create_signed_value v%s: expected exactly one signature element" % ver)
            call = sig[0][1]
            out[ver] = dict(mode="parts", sep=E.func.value.value, roles=[x[0] for x in elts], signer=call.func.id, codec=payload_codec(elts),
                            mac_roles=[classify_enc_elt(enc, a)[0] for a in call.args[1:]], ret=r, formatted=[x[2] for x in elts])
        elif isinstance(E, ast.BinOp) and isinstance(E.op, ast.Add) and is_signer_call(strip_wrappers(E.right)) and is_join(strip_wrappers(E.left)):
            T = strip_wrappers(E.left)
            call = strip_wrappers(E.right)
            elts = [classify_enc_elt(enc, x) for x in flatten_elts(T.args[0])]
            signed_same = len(call.args) == 2 and same(strip_wrappers(call.args[1]), T)
            out[ver] = dict(mode="buffer", sep=T.func.value.value, roles=[x[0] for x in elts] + ["sig"], signer=call.func.id, codec=payload_codec(elts), consts=[x[1] for x in elts if x[0] == "const"],
                            signed_same=signed_same, ret=r, formatted=[x[2] for x in elts] + [False], key=call.args[0] if call.args else None)
        else:
            raise AnalysisError("create_signed_value v%s: wire format %s is in no recognised shape" % (ver, q.unparse(E)[:120]))
    return out


def subscript_index(e):
    el = elem(e)
    if el is not None and not _is_func_call(el[0]):
        return el[1], el[0]
    return None


def split_sep(e):
    """``X.split(SEP)`` -> (X, SEP)"""
    if isinstance(e, ast.Call) and isinstance(e.func, ast.Attribute) and e.func.attr == "split" and len(e.args) == 1 and isinstance(e.args[0], ast.Constant):
        return e.func.value, e.args[0].value
    return None


def check_tables_parts(ck, cx, r, m, P, ts_op, codec, tab):
    """v1-style: positions of payload / timestamp / signature in the split agree with the join."""
    fi = cx.fi
    pos = {}
    seqs = []
    for role, e in (("value", P), ("ts", ts_op), ("sig", m.passed)):
        if e is None:
            continue  # already reported by the rule that looks for it
        si = subscript_index(e)
        if si is None and not m.covers(e):
            continue  # not part of the MAC input: reported by C23.mac-covers / C23.mac-gate
        if si is None:
            raise AnalysisError("%s: %s is not an element of the split input (%s)" % (fi.qualname, role, q.unparse(e) if e is not None else "?"))
        pos[role] = si[0]
        seqs.append(si[1])
    ck.need(all(same(s, seqs[0]) for s in seqs), "%s: payload, timestamp and signature come from different sequences" % fi.qualname)
    whole = seqs[0]
    truncated = False
    if isinstance(whole, ast.Subscript) and isinstance(whole.slice, ast.Slice) and split_sep(whole.value) is not None:
        # the fields are taken from a slice of the split: whatever lies beyond the slice is never looked at
        truncated, whole = True, whole.value
    sp = split_sep(whole)
    if sp is None and isinstance(whole, ast.Call) and isinstance(whole.func, ast.Attribute) and whole.func.attr in ("split", "rsplit") and len(whole.args) == 2:
        raise AnalysisError("%s: split with a maxsplit argument is not modelled" % fi.qualname)
    ck.need(sp is not None, "%s: the parts are not the result of <input>.split(SEP)" % fi.qualname)
    ex = exactness(sp[0], "value")
    if ex == "unknown":
        raise AnalysisError("%s: cannot establish that the text that is split (%s) is the input value" % (fi.qualname, q.unparse(sp[0])[:60]))
    ck.ob("C23.fields-agree", fi, r.ast, ex == "exact", "the text that is split and verified is the input value exactly (no stripping / case folding / replacing before the MAC check)", construct="exact input")
    ck.ob("C23.fields-agree", fi, r.ast, not truncated, "all parts of the split input are accounted for (the fields are not taken from a truncating slice, which would ignore anything appended to a signed value)",
          construct="whole split")
    want = {role: i for i, role in enumerate(tab["roles"]) if role in pos}
    ck.ob("C23.fields-agree", fi, r.ast, pos == want, "positions of payload/timestamp/signature in the decoder %s equal the encoder's join order %s" % (pos, want), construct="positions %s" % sorted(pos.items()))
    ck.ob("C23.fields-agree", fi, r.ast, sp[1] == tab["sep"], "decoder splits on the separator the encoder joins with (%r)" % (tab["sep"],), construct="separator %r" % (sp[1],))
    # arity: len(parts) == number of joined elements
    n = len(tab["roles"])
    ok = False
    for e, pol, text in cx.bfacts(r):
        eq = equality_fact(e, pol)
        if eq and eq[2]:
            for a, b in ((eq[0], eq[1]), (eq[1], eq[0])):
                if isinstance(a, ast.Call) and isinstance(a.func, ast.Name) and a.func.id == "len" and isinstance(b, ast.Constant) and b.value == n:
                    if same(cx.rd.expand(a.args[0], r), seqs[0]):
                        ok = True
    if not ok:
        # unpacking the whole sequence into exactly n targets establishes the arity too (it raises otherwise; the
        # escape rules decide whether that ValueError is handled)
        for d in cx.rd.defs:
            if d.kind == "unpack" and d.arity == n and d.node is not None and d.node.id in fi.cfg.dominators().get(r.id, set()) and same(cx.rd.expand(d.value, d.node), seqs[0]):
                ok = True
    if not ok and not truncated:
        absent_or_unknown(cx.rd, r, lambda E: any(isinstance(x, ast.Call) and isinstance(x.func, ast.Name) and x.func.id == "len" for x in ast.walk(E)) and any(split_sep(x) is not None for x in ast.walk(E)),
                          {x.id for x in fi.cfg.stmt_nodes(lambda x: x.kind == "test") if equality_fact(x.ast, True) is not None or fact_geq0(x.ast, True) is not None}, "the number-of-parts test")
    ck.ob("C23.fields-agree", fi, r.ast, ok, "return dominated by 'number of parts == %d' (the encoder joins %d elements)" % (n, n), construct="arity %d" % n)
    # MAC argument order
    roles = []
    for a in m.data:
        sa = strip_wrappers(a)
        if isinstance(sa, ast.Name) and sa.id == "name":
            roles.append("name")
        elif same(sa, strip_wrappers(P)):
            roles.append("value")
        elif ts_op is not None and same(sa, strip_wrappers(ts_op)):
            roles.append("ts")
        else:
            roles.append("?")
    ck.ob("C23.fields-agree", fi, r.ast, roles == tab["mac_roles"] and m.signer == tab["signer"], "MAC inputs of the decoder %s equal the encoder's %s (same signer %s)" % (roles, tab["mac_roles"], tab["signer"]),
          construct="mac order %s" % roles)
    check_codec(ck, fi, r, codec, tab)


def check_codec(ck, fi, r, codec, tab):
    enc_codec, whole = tab["codec"]
    ck.ob("C23.fields-agree", fi, r.ast, codec is not None and CODEC_PAIRS.get(enc_codec) == codec, "payload codec: encoder %s <-> decoder %s are an inverse pair" % (enc_codec, codec), construct="codec %s" % codec)
    ck.ob("C23.fields-agree", fi, r.ast, whole, "the encoder encodes the whole value byte-exactly (utf8(value), no stripping/case folding/slicing)", construct="payload byte-exact")


def field_index(e, m):
    u = is_unpack(strip_wrappers(e)) if e is not None else None
    return u[1] if u else None


def check_tables_buffer(ck, cx, r, m, P, ts_op, name_field, codec, tab, parser):
    fi = cx.fi
    pos = {"value": field_index(P, m), "ts": field_index(ts_op, m), "name": field_index(name_field, m), "sig": field_index(m.passed, m)}
    # key version: the subscript of the secret
    for x in q.walk_body(fi.node):
        sel = None
        if isinstance(x, ast.Subscript) and isinstance(x.ctx, ast.Load) and isinstance(x.value, ast.Name) and x.value.id == "secret":
            sel = x.slice
        elif isinstance(x, ast.Call) and isinstance(x.func, ast.Attribute) and x.func.attr == "get" and isinstance(x.func.value, ast.Name) and x.func.value.id == "secret" and x.args:
            sel = x.args[0]
        if sel is not None:
            ns = cx.rd.cfg_nodes_of(x)
            if ns:
                pos["kv"] = field_index(strip_wrappers(cx.rd.expand(sel, ns[0])), m)
    want = {role: i for i, role in enumerate([x for x in tab["roles"] if x != "const"])}
    if "kv" not in pos:
        want.pop("kv", None)  # the decoder does not select a key by version: nothing to compare for that role
    ck.ob("C23.fields-agree", fi, r.ast, pos == want, "field positions used by the decoder %s equal the encoder's field order %s" % (sorted(pos.items()), sorted(want.items())),
          construct="positions %s" % sorted(pos.items(), key=lambda kv: kv[0]))
    ck.ob("C23.fields-agree", fi, r.ast, m.signer == tab["signer"] and tab["signed_same"], "decoder verifies with %s, the signer the encoder applies to the whole joined prefix" % tab["signer"], construct="signer " + m.signer)
    check_codec(ck, fi, r, codec, tab)
    # the key: secret, or secret[<authenticated key-version field>]
    ok = True
    for d in cx.rd.defs_at(r, "secret"):
        if d.kind == "param":
            continue
        v = d.value
        sel = None
        if d.kind == "assign" and isinstance(v, ast.Subscript) and isinstance(v.value, ast.Name) and v.value.id == "secret":
            sel = v.slice
        elif d.kind == "assign" and isinstance(v, ast.Call) and isinstance(v.func, ast.Attribute) and v.func.attr == "get" and isinstance(v.func.value, ast.Name) and v.func.value.id == "secret" and 1 <= len(v.args) <= 2 and not v.keywords:
            if len(v.args) == 2 and not (isinstance(v.args[1], ast.Constant) and v.args[1].value is None):
                ok = False  # an unknown key version silently falls back to a fixed key
                continue
            sel = v.args[0]
        else:
            raise AnalysisError("%s: the secret is re-bound in a way the rule does not understand: %s" % (fi.qualname, q.unparse(v)[:80] if v is not None else d.kind))
        ok = ok and field_index(cx.rd.expand(sel, d.node), m) == want.get("kv")
    ck.ob("C23.fields-agree", fi, r.ast, ok, "the MAC key is the secret, or the secret selected by the key-version field (position %s)" % want.get("kv"), construct="key selection")


def check_field_parser(ck, parser, tab, callers_arity):
    """_decode_fields_v2: consume order == return order; arity; prefix strip == len(version const + sep)."""
    cx = Ctx(ck, parser)
    rets = nonnull_returns(parser)
    ck.floor("C23.fields-agree", len(rets), 1, "returns of the field parser")
    nfields = len([x for x in tab["roles"] if x not in ("const", "sig")])
    for r in rets:
        E = cx.rd.expand(r.ast.value, r)
        ck.need(isinstance(E, ast.Tuple), "%s: return value is not a tuple" % parser.qualname)
        ck.ob("C23.fields-agree", parser, r.ast, len(E.elts) == nfields + 1 and all(a == len(E.elts) for a in callers_arity),
              "the parser returns %d fields + the signature; every caller unpacks %d values" % (nfields, nfields + 1), construct="arity %d" % len(E.elts))
        order_ok = True
        start = None
        consumer = None
        for i, e in enumerate(E.elts):
            e = strip_wrappers(e, ("int",) + ("utf8", "bytes", "str"))
            depth, take, root, cons = _chain(e)
            if i < len(E.elts) - 1:
                order_ok = order_ok and depth == i + 1 and take == 0
            else:
                order_ok = order_ok and depth == i and take == 1
            start = root if start is None else start
            order_ok = order_ok and root is not None and same(root, start)
            consumer = cons or consumer
        ck.ob("C23.fields-agree", parser, r.ast, order_ok, "the i-th returned field is the i-th consumed field; the signature is what remains after the last field", construct="consume order")
        # start of parsing: buffer[len(const)+len(sep):]
        pre = tab["consts"][0] + tab["sep"] if tab.get("consts") else None
        ok = isinstance(start, ast.Subscript) and isinstance(start.slice, ast.Slice) and start.slice.upper is None and isinstance(start.slice.lower, ast.Constant) and pre is not None and start.slice.lower.value == len(pre) \
            and isinstance(start.value, ast.Name) and start.value.id in parser.params()
        ck.ob("C23.fields-agree", parser, r.ast, ok, "parsing starts after the version prefix %r the encoder writes (%s)" % (pre, q.unparse(start) if start is not None else "?"), construct="prefix strip")
        # trailing separator after the last field <-> encoder's trailing empty element
        ck.ob("C23.fields-agree", parser, r.ast, tab["roles"][-2] == "const" and tab["consts"][-1] in (b"", ""), "the encoder terminates the last field with the separator (trailing empty element)", construct="trailing separator")
        return consumer
    return None


def _chain(e):
    """``__unpack__(C(R), k, 2)`` chains: (depth, k, root, consumer name)."""
    u = is_unpack(e)
    if u is None:
        return 0, None, e, None
    src, k, n = u
    if not (isinstance(src, ast.Call) and isinstance(src.func, ast.Name) and len(src.args) == 1 and n == 2):
        return 0, None, None, None
    inner = src.args[0]
    ui = is_unpack(inner)
    if ui is None:
        return 1, k, inner, src.func.id
    d, k2, root, cons = _chain(inner)
    if k2 != 1:
        return 0, None, None, None
    return d + 1, k, root, src.func.id


def check_consumer(ck, cons, enc, tabs):
    """_consume_field is the inverse of the encoder's length-prefix formatter."""
    cx = Ctx(ck, cons)
    p = [x for x in cons.params()][0]
    rets = nonnull_returns(cons)
    for r in rets:
        E = cx.rd.expand(r.ast.value, r)
        ck.need(isinstance(E, ast.Tuple) and len(E.elts) == 2, "%s: does not return (field, rest)" % cons.qualname)
        fld, rest = E.elts
        # field = REST[:n], rest = REST[n+1:], n = int(length), (length, _, REST) = s.partition(b":")
        ok = isinstance(fld, ast.Subscript) and isinstance(fld.slice, ast.Slice) and fld.slice.lower is None and isinstance(fld.slice.upper, ast.Call) and q.call_attr(fld.slice.upper) == "int"
        body = fld.value if ok else None
        n = fld.slice.upper if ok else None
        ok = ok and isinstance(rest, ast.Subscript) and isinstance(rest.slice, ast.Slice) and rest.slice.upper is None and same(rest.value, body) and isinstance(rest.slice.lower, ast.BinOp) \
            and isinstance(rest.slice.lower.op, ast.Add) and same(rest.slice.lower.left, n) and isinstance(rest.slice.lower.right, ast.Constant) and rest.slice.lower.right.value == 1
        if ok:
            ub, un = elem(body), elem(n.args[0])
            ok = ub is not None and un is not None and same(ub[0], un[0]) and ub[1] == 2 and un[1] == 0 and isinstance(ub[0], ast.Call) and q.call_attr(ub[0]) == "partition" \
                and isinstance(ub[0].args[0], ast.Constant) and ub[0].args[0].value in (b":", ":") and isinstance(ub[0].func.value, ast.Name) and ub[0].func.value.id == p
        ck.ob("C23.fields-agree", cons, r.ast, bool(ok), "a field is the <length> bytes after the ':' and the rest starts one separator later (inverse of the encoder's '%d:' length prefix)", construct="length-prefixed field")
        # the separator after the field is verified on every return path (edge dominance: the
        # test's local operands are re-bound afterwards, so a must-fact would be killed)
        sepok = False
        for t in cons.cfg.stmt_nodes(lambda n: n.kind == "test"):
            Et = cx.rd.expand(t.ast, t)
            for pol in (True, False):
                eq = equality_fact(Et, pol)
                if eq and eq[2]:
                    for a, b in ((eq[0], eq[1]), (eq[1], eq[0])):
                        if isinstance(b, ast.Constant) and b.value in (b"|", "|") and isinstance(a, ast.Subscript) and isinstance(a.slice, ast.Slice) and body is not None and same(a.value, body) \
                                and a.slice.lower is not None and same(a.slice.lower, n) and edge_dominates(cons.cfg, t, "true" if pol else "false", r):
                            sepok = True
        ck.ob("C23.fields-agree", cons, r.ast, sepok, "the byte after each field is verified to be the separator on every path that accepts the field", construct="separator check")
    # encoder side: every helper the encoder formats a field with
    names = sorted({f for t in tabs.values() for f in t.get("formatted", []) if f})
    ck.need(len(names) >= 1, "create_signed_value: the length-prefixed fields are not written through a helper the rule recognises")
    for nm in names:
        if nm == "<lambda>":
            continue  # shape verified where it was met
        fi = formatter_func(enc, nm)
        f = fi.node
        ps = [a.arg for a in f.args.args]
        okf = False
        for x in own_nodes(f):
            if isinstance(x, ast.Return) and x.value is not None:
                okf = formatter_shape_ok(ps[0], x.value)
        if not okf:
            raise AnalysisError("%s: field formatter in a shape the rule does not understand" % fi.qualname)
        ck.ob("C23.fields-agree", ck.use(fi), f, okf is True, "the field formatter writes '<len(s)>:' followed by s (the prefix is exactly the field's length)", construct="length prefix")


# ---------------------------------------------------------------------------
# signers


LOSSY_ATTRS = {"strip", "lstrip", "rstrip", "lower", "upper", "replace", "split", "title", "casefold"}


def _peel_bytes(e):
    """utf8(x) / x.encode() / x.encode('utf-8') -> x"""
    while True:
        e2 = strip_wrappers(e)
        if isinstance(e2, ast.Call) and isinstance(e2.func, ast.Attribute) and e2.func.attr == "encode" and len(e2.args) <= 1 and not e2.keywords \
                and (not e2.args or (isinstance(e2.args[0], ast.Constant) and str(e2.args[0].value).lower().replace("-", "") == "utf8")):
            e2 = e2.func.value
        if e2 is e:
            return e
        e = e2


def _feed_of(e, params, loopvars):
    """What an expression handed to the MAC carries: ('whole', param) | ('lossy', param) | ('unknown', None)"""
    s = _peel_bytes(e)
    if isinstance(s, ast.Name):
        if s.id in params:
            return ("whole", s.id)
        if s.id in loopvars:
            return loopvars[s.id]
        return ("unknown", None)
    names = {x.id for x in ast.walk(s) if isinstance(x, ast.Name)}
    hit = [n for n in names if n in params or n in loopvars]
    if hit and (isinstance(s, ast.Subscript) or (isinstance(s, ast.Call) and isinstance(s.func, ast.Attribute) and s.func.attr in LOSSY_ATTRS)):
        p_ = hit[0] if hit[0] in params else loopvars[hit[0]][1]
        return ("lossy", p_)
    # b"".join(utf8(p) for p in PARAM)
    if isinstance(s, ast.Call) and isinstance(s.func, ast.Attribute) and s.func.attr == "join" and isinstance(s.func.value, ast.Constant) and s.func.value.value in (b"", "") and len(s.args) == 1 \
            and isinstance(s.args[0], (ast.GeneratorExp, ast.ListComp)) and len(s.args[0].generators) == 1 and not s.args[0].generators[0].ifs:
        g = s.args[0].generators[0]
        if isinstance(g.target, ast.Name):
            src = _iter_source(g.iter, params)
            if src is not None:
                inner = _feed_of(s.args[0].elt, params, {g.target.id: src})
                return inner
    return ("unknown", None)


def _iter_source(it, params):
    if isinstance(it, ast.Call) and isinstance(it.func, ast.Name) and it.func.id == "map" and len(it.args) == 2 and isinstance(it.args[0], ast.Name) and it.args[0].id in CODEC_WRAPPERS_:
        return _iter_source(it.args[1], params)  # map(utf8, parts): every element, converted only
    if isinstance(it, (ast.GeneratorExp, ast.ListComp)) and len(it.generators) == 1 and not it.generators[0].ifs and isinstance(it.generators[0].target, ast.Name) \
            and isinstance(_peel_bytes(it.elt), ast.Name) and _peel_bytes(it.elt).id == it.generators[0].target.id:
        return _iter_source(it.generators[0].iter, params)  # (utf8(p) for p in parts)
    if isinstance(it, ast.Name) and it.id in params:
        return ("whole", it.id)
    if isinstance(it, ast.Subscript) and isinstance(it.value, ast.Name) and it.value.id in params:
        return ("lossy", it.value.id)
    return None


def check_signer(ck, fi):
    cx = Ctx(ck, fi)
    params = fi.params()
    key = params[0]
    data = list(params[1:])
    rets = nonnull_returns(fi)
    ck.floor("C23.sig-keyed", len(rets), 1, "returns of " + fi.qualname)
    for r in rets:
        E = _peel_bytes(cx.rd.expand(r.ast.value, r))
        h = None
        fed, lossy, unknown = set(), set(), []
        if isinstance(E, ast.Call) and isinstance(E.func, ast.Attribute) and E.func.attr in ("hexdigest", "digest") and isinstance(E.func.value, ast.Call) and q.dotted(E.func.value.func) == "hmac.new":
            h = E.func.value
            karg, marg, darg = q.arg(h, 0, "key"), q.arg(h, 1, "msg"), q.arg(h, 2, "digestmod")
        elif isinstance(E, ast.Call) and isinstance(E.func, ast.Attribute) and E.func.attr == "hex" and isinstance(E.func.value, ast.Call) and q.dotted(E.func.value.func) == "hmac.digest":
            h = E.func.value
            karg, marg, darg = q.arg(h, 0, "key"), q.arg(h, 1, "msg"), q.arg(h, 2, "digest")
        else:
            unkeyed = any(isinstance(x, ast.Call) and (q.dotted(x.func) or "").startswith("hashlib.") for x in ast.walk(E)) and not any(isinstance(x, ast.Call) and (q.dotted(x.func) or "").startswith("hmac.") for x in own_nodes(fi.node))
            if not unkeyed:
                raise AnalysisError("%s: the signature %s is computed in a way the rule does not understand" % (fi.qualname, q.unparse(E)[:80]))
            ck.ob("C23.sig-keyed", fi, r.ast, False, "the signature is an HMAC keyed by the secret, not a plain hash")
            continue
        ck.ob("C23.sig-keyed", fi, r.ast, True, "the signature is the digest of an hmac object")
        ks = _peel_bytes(karg) if karg is not None else None
        if ks is None or not isinstance(ks, ast.Name) and any(isinstance(x, ast.Call) and isinstance(x.func, ast.Name) and x.func.id not in CODEC_WRAPPERS_ for x in ast.walk(ks)):
            raise AnalysisError("%s: HMAC key %s not understood" % (fi.qualname, q.unparse(karg) if karg is not None else None))
        ck.ob("C23.sig-keyed", fi, r.ast, isinstance(ks, ast.Name) and ks.id == key and darg is not None, "the HMAC key is the whole %s parameter; a digest is given" % key, construct="hmac key")
        if marg is not None:
            k_, p_ = _feed_of(marg, data, {})
            (fed if k_ == "whole" else lossy if k_ == "lossy" else unknown).add(p_) if k_ != "unknown" else unknown.append(q.unparse(marg))
        # updates of the local holding the hmac object
        # the local(s) holding the hmac object: found through the definitions, not through the shape of the return
        hnames = {d.path for d in cx.rd.defs if d.kind == "assign" and isinstance(d.value, ast.Call) and q.dotted(d.value.func) in ("hmac.new", "hmac.HMAC") and "." not in d.path}
        if len(hnames) > 1:
            raise AnalysisError("%s: more than one hmac object" % fi.qualname)
        hname = next(iter(hnames), None)
        if hname is not None:
            pm = q.parent_map(fi.node)
            dom = fi.cfg.dominators()
            for n, c in fi.cfg.find(lambda x: isinstance(x, ast.Call) and isinstance(x.func, ast.Attribute) and x.func.attr == "update" and isinstance(x.func.value, ast.Name) and x.func.value.id == hname):
                if len(c.args) != 1:
                    unknown.append(q.unparse(c))
                    continue
                ctl = [x for x in q.ancestors(pm, c) if isinstance(x, (ast.For, ast.While, ast.If, ast.Try, ast.With))]
                loopvars = {}
                plain_loop = len(ctl) == 1 and isinstance(ctl[0], ast.For) and isinstance(ctl[0].target, ast.Name) and not ctl[0].orelse and not any(isinstance(y, (ast.Break, ast.Continue, ast.Return)) for y in ast.walk(ctl[0]))
                if plain_loop:
                    src = _iter_source(ctl[0].iter, data)
                    if src is None:
                        unknown.append(q.unparse(ctl[0].iter))
                        continue
                    loopvars = {ctl[0].target.id: src}
                elif ctl or n.id not in dom[r.id]:
                    unknown.append("conditional " + q.unparse(c))
                    continue
                fed_expr = c.args[0]
                for _k in range(3):  # an explaining local between the data and the update
                    inner = _peel_bytes(fed_expr)
                    if not isinstance(inner, ast.Name) or inner.id in data or inner.id in loopvars:
                        break
                    dd = cx.rd.unique(n, inner.id)
                    if dd is None or dd.kind != "assign" or dd.value is None:
                        break
                    fed_expr = dd.value
                k_, p_ = _feed_of(fed_expr, data, loopvars)
                if k_ == "whole":
                    fed.add(p_)
                elif k_ == "lossy":
                    lossy.add(p_)
                else:
                    unknown.append(q.unparse(c))
        missing = [p_ for p_ in data if p_ not in fed]
        bad = [p_ for p_ in missing if p_ in lossy or not any(isinstance(x, ast.Name) and x.id == p_ for x in own_nodes(fi.node))]
        if missing and not bad:
            raise AnalysisError("%s: cannot establish how %s reaches the HMAC (%s)" % (fi.qualname, missing, "; ".join(unknown)[:120]))
        ck.ob("C23.sig-keyed", fi, r.ast, not missing, "every data parameter %s is fed, whole and unconditionally, to the HMAC (fed: %s%s)" % (data, sorted(fed), "; truncated/transformed or ignored: %s" % bad if bad else ""),
              construct="hmac data %s" % sorted(fed))


# ---------------------------------------------------------------------------
# version detection


def check_get_version(ck, fi):
    cx = Ctx(ck, fi)
    # 1. the regex
    mcalls = [c for c in q.calls(fi.node) if isinstance(c.func, ast.Attribute) and c.func.attr in ("match", "fullmatch", "search") and isinstance(c.func.value, ast.Name)]
    ck.floor("C23.version-detect", len(mcalls), 1, "regex match calls in _get_version")
    for c in mcalls:
        pat = module_pattern(ck.repo, W, c.func.value.id)
        L = Rx.from_pattern(pat, "fullmatch")
        is_b = isinstance(pat, bytes)
        upper = Rx.from_pattern(rb"[1-9][0-9]*\|[\x00-\xff]*" if is_b else r"[1-9][0-9]*\|[\x00-\xff]*", "fullmatch")
        lower = Rx.from_pattern(rb"[1-9][0-9]{0,2}\|[\x20-\x7e]*" if is_b else r"[1-9][0-9]{0,2}\|[\x20-\x7e]*", "fullmatch")
        ck.ob("C23.version-detect", fi, c, L.subset_of(upper), "only text starting with a decimal number without leading zero and '|' gets an explicit version (regex language inclusion; witness %r)" % (L.witness_not_in(upper),),
              construct="regex upper bound")
        ck.ob("C23.version-detect", fi, c, lower.subset_of(L), "every '<1-3 digit version>|<printable>' text is recognised (regex language inclusion; witness %r)" % (lower.witness_not_in(L),), construct="regex lower bound")
        anchored = c.func.attr in ("match", "fullmatch") or (isinstance(pat, (bytes, str)) and pat[:1] in (b"^", "^"))
        ck.ob("C23.version-detect", fi, c, anchored, "the version regex is applied anchored at the start of the value", construct="anchored match")
    # 2. path-sensitive result
    rets = ret_nodes(fi)
    var = None
    def arms(e, conds=()):
        """(extra conditions, value) for every arm of a (nested) conditional expression"""
        if isinstance(e, ast.IfExp):
            return arms(e.body, conds + ((e.test, True),)) + arms(e.orelse, conds + ((e.test, False),))
        return [(conds, e)]

    for r in rets:
        for _c, a_ in arms(r.ast.value) if r.ast.value is not None else []:
            if isinstance(a_, ast.Name):
                var = a_.id
    cfg = fi.cfg

    def transfer(n, val):
        if n.kind == "stmt" and isinstance(n.ast, (ast.Assign, ast.AnnAssign)) and var in q.assigned_paths(n.ast):
            v = n.ast.value
            if isinstance(v, ast.Constant):
                return ("const", v.value)
            if isinstance(v, ast.Call) and isinstance(v.func, ast.Name) and v.func.id == "int" and any(isinstance(x, ast.Call) and q.call_attr(x) == "group" for x in ast.walk(cx.rd.expand(v, n))):
                return ("parsed", None)
            return ("other", q.unparse(v))
        return val

    seen = explore(cfg, ("unset", None), transfer, lambda t: var is not None and var in {x.id for x in ast.walk(ast.parse(t, mode="eval")) if isinstance(x, ast.Name)}, exc_effect=False)
    n_states = 0
    for r in rets:
        for facts, val0 in sorted(seen.get(r.id, ()), key=repr):
          for extra, arm in arms(r.ast.value):
            n_states += 1
            val = val0
            if isinstance(arm, ast.Constant):
                val = ("const", arm.value)
            elif not (isinstance(arm, ast.Name) and arm.id == var):
                raise AnalysisError("_get_version: returns %s, which the rule cannot relate to the parsed number" % q.unparse(arm)[:60])
            kind, v = val
            if kind == "const":
                ck.ob("C23.version-detect", fi, r.ast, v == 1, "without an explicit version number the value is format 1 (path result: %r)" % (v,), construct="fallback %r" % (v,))
            elif kind == "parsed":
                conds = [(ast.parse(t, mode="eval").body, pol) for t, pol in facts] + [(e_, p_) for e_, p_ in extra]
                allowed = set()
                try:
                    for k in list(range(1, 12000)) + [10 ** 6, 10 ** 9, 10 ** 12]:
                        if all(bool(q.fold(e, {var: k})) == pol for e, pol in conds):
                            allowed.add(k)
                except q.NotFoldable as ex:
                    raise AnalysisError("_get_version: condition on %s not foldable: %s" % (var, ex))
                ok = 1 in allowed and 2 in allowed and not any(k >= 1000 for k in allowed)
                ck.ob("C23.version-detect", fi, r.ast, ok, "a parsed number is used as the version only below 1000 (4-digit numbers are valid base64 of format 1) and 1, 2 stay versions; allowed sample max=%s" % (max(allowed) if allowed else None),
                      construct="parsed-version range")
            else:
                raise AnalysisError("_get_version: result state %r not understood" % (val,))
    ck.floor("C23.version-detect", n_states, 2, "result states of _get_version")


# ---------------------------------------------------------------------------
# EXC


def sources(fi):
    if fi.parent is not None:
        return [p for p in fi.params()]
    return [p for p in fi.params() if p not in CONFIG_PARAMS]


def check_exceptions(ck, funcs, mac_ctx):
    """funcs: qualname -> FuncInfo (decoder closure).  mac_ctx: qualname -> Ctx for MAC declassification."""
    analysed = set(funcs)
    es = Escapes(ck.repo, W, analysed, sources)
    callers = {}
    for qn, fi in funcs.items():
        for s in es.sites(fi):
            if s.kind == "call":
                callers.setdefault((s.detail, s.exc), []).append(s)

    def to_entry(qn, exc, seen=()):
        if qn in ENTRIES:
            return [qn]
        for s in callers.get((qn, exc), []):
            if s.handler is None and s.fi.qualname not in seen:
                p = to_entry(s.fi.qualname, exc, seen + (qn,))
                if p:
                    return [qn] + p
        return None

    n = 0
    for qn, fi in funcs.items():
        tainted = tainted_names(fi, sources(fi))
        for s in es.sites(fi):
            if s.kind == "call":
                continue
            n += 1
            rule = {"conversion": "C23.exc-conversion", "unpack": "C23.exc-conversion", "index": "C23.exc-lookup", "key": "C23.exc-lookup", "none-attr": "C23.exc-lookup",
                    "raise": "C23.exc-raise", "assert": "C23.exc-raise"}[s.kind]
            if s.handler is not None:
                ck.ob(rule, fi, s.node, True, "%s from %s is caught locally (except %s)" % (s.exc, s.kind, ", ".join(q.handler_names(s.handler))))
                continue
            path = to_entry(qn, s.exc)
            if path is None:
                ck.ob(rule, fi, s.node, True, "%s from %s escapes %s but is caught at every call site on the way to the public decoders" % (s.exc, s.kind, qn))
                continue
            via = " -> ".join(reversed(path))
            if s.kind in ("raise", "assert"):
                nodes = Reach(fi).cfg_nodes_of(s.node)
                tests = [t for nd in nodes for t in tests_reaching(fi.cfg, nd)]
                sel = [t for t in tests if mentions(t.ast, tainted)]
                ok = not sel
                ck.ob(rule, fi, s.node, ok, ("explicit %s (%s) reaches the caller of %s: allowed only when no branch on attacker-controlled text selects it (configuration error)" % (s.kind, s.exc, via))
                      + ("" if ok else "; selected by: " + "; ".join(sorted({q.unparse(t.ast) for t in sel}))[:160]))
                continue
            # declassification: dominated by MAC success on a single delimited buffer and operand is a covered field
            ok = False
            why = ""
            cx = mac_ctx.get(qn)
            if cx is not None:
                for nd in cx.rd.cfg_nodes_of(s.node):
                    m = mac_fact(cx, nd)
                    if m is not None and m.mode == "buffer":
                        ops = list(s.node.args) if isinstance(s.node, ast.Call) else []
                        if ops and all(m.covers(cx.rd.expand(a, nd)) for a in ops):
                            ok, why = True, "operand is a field of the single MAC-verified buffer (authenticated declassification)"
                    elif m is not None:
                        why = "the MAC input is an undelimited argument list: parts are not individually authenticated"
            ck.ob(rule, fi, s.node, ok, "%s from %s on attacker-controlled text must not reach the caller of %s%s" % (s.exc, s.kind, via, ": " + why if why else ""))
    for gfi, gnode, why in es.guarded:
        n += 1
        ck.ob("C23.exc-lookup", gfi, gnode, True, "lookup on attacker-controlled data cannot raise: " + why)
    ck.floor("C23.exc-conversion", n, 12, "fallible sites in the decoder closure")
    for note in es.notes[:10]:
        ck.note(note)


def check_none_input(ck, fi):
    """A parameter whose annotation admits None (the cookie may be absent) is tested before it is used."""
    cx = Ctx(ck, fi)
    a = fi.node.args
    n = 0
    for arg in a.posonlyargs + a.args + a.kwonlyargs:
        if arg.arg in CONFIG_PARAMS or arg.annotation is None or "None" not in q.unparse(arg.annotation):
            continue
        p_ = arg.arg
        for node in fi.cfg.stmt_nodes():
            if node.kind == "test":
                continue
            ds = cx.rd.defs_at(node, p_)
            if not (len(ds) == 1 and ds[0].kind == "param"):
                continue
            from ..cfg import _node_roots

            uses = [x for root in _node_roots(node) for x in q.walk_local(root) if isinstance(x, ast.Call) and any(isinstance(y, ast.Name) and y.id == p_ for y in ast.walk(x))]
            if not uses:
                continue
            n += 1
            f = cx.facts[node.id]
            ok = (p_, True) in f or ("%s is None" % p_, False) in f
            if not ok:
                absent_or_unknown(cx.rd, node, lambda E: any(isinstance(x, ast.Name) and x.id == p_ for x in ast.walk(E)), {x.id for x in fi.cfg.stmt_nodes() if x.kind != "test"}, "the None test of '%s'" % p_)
            ck.ob("C23.exc-none", fi, uses[0], ok, "'%s' may be None (absent cookie): its first use is dominated by a test that returns None for it, so nothing raises" % p_)
    return n


VOCABULARY = set(ANALYSED) | {"_consume_field", "_signed_value_version_re"}
ROOTS = ("create_signed_value", "decode_signed_value", "_decode_signed_value_v1", "_decode_signed_value_v2", "_decode_fields_v2", "_get_version", "get_signature_key_version",
         "_create_signature_v1", "_create_signature_v2", "RequestHandler.get_signed_cookie", "RequestHandler.create_signed_value", "RequestHandler.get_signed_cookie_key_version")


def normalise(ck):
    """Inline private helpers that a refactoring split off the anchored functions (the functions the rules
    name themselves, and one-argument field formatters of the encoder, stay calls)."""
    from ..x_secinline import inlined

    def keep(name, h):
        if name in VOCABULARY:
            return True
        a = h.args
        one_arg = len(a.posonlyargs + a.args) == 1 and not a.kwonlyargs
        body = [s for s in h.body if not (isinstance(s, ast.Expr) and isinstance(s.value, ast.Constant))]
        if one_arg and len(body) == 1 and isinstance(body[0], ast.Return) and any(isinstance(x, ast.Call) and isinstance(x.func, ast.Name) and x.func.id == "len" for x in ast.walk(body[0])):
            return True  # a field formatter
        if one_arg and any(isinstance(x, ast.Call) and q.call_attr(x) == "partition" for x in ast.walk(h)) and any(isinstance(x, ast.Return) and isinstance(x.value, ast.Tuple) and len(x.value.elts) == 2 for x in ast.walk(h)):
            return True  # a field consumer (s -> (field, rest)): analysed in its own right
        return False

    from ..x_secinline import reshaped

    ck.repo = reshaped(ck.repo, W, ROOTS)
    ck.repo = inlined(ck.repo, W, ROOTS, keep)
    for nm in getattr(ck.repo, "inlined_helpers", []):
        ck.note("inlined private helper %s into its caller before analysis" % nm)


# ---------------------------------------------------------------------------


def run(ck):
    ck.rule("C23.mac-gate", "every return of a value from a format decoder is dominated by the success branch of a comparison between the signer's output (keyed by the secret) and the signature parsed from the input")
    ck.rule("C23.mac-covers", "the returned payload and the compared timestamp are inside the MAC input")
    ck.rule("C23.name-bound", "the name is bound: it is a MAC input (v1) or the authenticated name field is compared with it on every value-returning path (v2)")
    ck.rule("C23.expiry", "every return of a value is dominated by timestamp >= clock() - max_age_days*86400 (linear normal form)")
    ck.rule("C23.v1-digit-shift", "a MAC over an undelimited argument list is accompanied by the upper timestamp bound and the leading-zero rejection")
    ck.rule("C23.version-floor", "decode_signed_value returns a decoder result only when version >= min_version")
    ck.rule("C23.dispatch", "each format decoder is called only for the version whose signer it verifies, on the buffer the version was detected on")
    ck.rule("C23.pass-through", "callers of the anchored functions pass every parameter on to the same-named parameter (no swapped, dropped or defaulted argument)")
    ck.rule("C23.fields-agree", "encoder and decoders agree on field order, arity, separators, length prefixes, codecs and MAC input order (roles derived by data flow)")
    ck.rule("C23.sig-keyed", "the signers are HMACs keyed by the secret over every data argument, whole and unconditionally")
    ck.rule("C23.version-detect", "_get_version: regex language, fallback to 1, parsed numbers >= 1000 are format 1")
    ck.rule("C23.exc-conversion", "conversions/unpacking of attacker-controlled text are inside a handler on the way to the public decoders, or act on a field of the single MAC-verified buffer after the MAC success")
    ck.rule("C23.exc-lookup", "indexing/lookup with attacker-controlled keys or lengths is guarded or handled")
    ck.rule("C23.exc-none", "an input that may be None is tested before use in the public decoder")
    ck.rule("C23.exc-raise", "explicit raise/assert reaching the caller of the public decoders is not selected by attacker-controlled text")

    normalise(ck)
    enc = ck.func(W, "create_signed_value")
    dec = ck.func(W, "decode_signed_value")
    v1 = ck.func(W, "_decode_signed_value_v1")
    v2 = ck.func(W, "_decode_signed_value_v2")
    parser = ck.func(W, "_decode_fields_v2")
    getv = ck.func(W, "_get_version")
    gkv = ck.func(W, "get_signature_key_version")
    s1 = ck.func(W, SIGNERS[0])
    s2 = ck.func(W, SIGNERS[1])

    tabs = encoder_tables(ck, enc)
    sv = signer_versions(ck, enc)
    ck.need(len(tabs) >= 2 and len(sv) >= 2, "create_signed_value: fewer than two wire formats recognised")

    decoder_signer = {}
    mac_ctx = {}
    for fi in (v1, v2):
        cx = Ctx(ck, fi)
        mac_ctx[fi.qualname] = cx
        macs = check_mac_gate(ck, cx)
        for r, m in macs:
            decoder_signer[fi.qualname] = m.signer
            ver = sv.get(m.signer)
            tab = tabs.get(ver)
            ck.need(tab is not None, "%s verifies with %s which create_signed_value does not use" % (fi.qualname, m.signer))
            P, codec = check_payload(ck, cx, r, m)
            check_field_lengths(ck, cx, r, m)
            nf = check_name(ck, cx, r, m)
            ts_op = check_expiry(ck, cx, r, m)
            if m.mode == "parts":
                check_v1_delimiter(ck, cx, r, m, ts_op)
                if ck.ob("C23.fields-agree", fi, r.ast, tab["mode"] == "parts", "encoder format %s is a plain join <-> decoder verifies an argument-list MAC (%s)" % (ver, m.signer), construct="mode"):
                    check_tables_parts(ck, cx, r, m, P, ts_op, codec, tab)
            else:
                ck.ob("C23.fields-agree", fi, r.ast, tab["mode"] == "buffer", "encoder format %s signs the joined prefix; decoder verifies the buffer prefix" % ver, construct="mode")
                if tab["mode"] == "buffer":
                    check_tables_buffer(ck, cx, r, m, P, ts_op, nf, codec, tab, parser)
    ck.need(len(decoder_signer) == 2 or ck.violations, "a format decoder has no MAC gate recognised")
    for fi in (v1, v2):
        decoder_signer.setdefault(fi.qualname, "?")

    check_entry(ck, dec, decoder_signer, sv)
    npt = check_pass_through(ck, dec, v1) + check_pass_through(ck, dec, v2)
    for wrapper, callee in (("RequestHandler.get_signed_cookie", dec), ("RequestHandler.create_signed_value", enc), ("RequestHandler.get_signed_cookie_key_version", gkv)):
        if ck.repo.has_func(W, wrapper):
            npt += check_pass_through(ck, ck.func(W, wrapper), callee)
    ck.floor("C23.pass-through", npt, 3, "calls of the anchored functions")

    # field parser + consumer
    tab2 = [t for t in tabs.values() if t["mode"] == "buffer"]
    extra_funcs = []
    if tab2:
        arities = []
        for caller in (v2, gkv):
            crd = CReach(caller)
            seen_nodes = set()
            for d in crd.defs:
                if d.kind == "unpack" and d.node is not None and d.node.id not in seen_nodes and d.value is not None:
                    dv = crd.expand(d.value, d.node)
                    if isinstance(dv, ast.Call) and isinstance(dv.func, ast.Name) and dv.func.id == parser.name:
                        seen_nodes.add(d.node.id)
                        arities.append(d.arity)
        ck.floor("C23.fields-agree", len(arities), 2, "callers unpacking the field parser")
        cons_name = check_field_parser(ck, parser, tab2[0], arities)
        if cons_name:
            cons = ck.func(W, parser.qualname + ".<locals>." + cons_name) if ck.repo.has_func(W, parser.qualname + ".<locals>." + cons_name) else ck.func(W, cons_name)
            extra_funcs.append(cons)
            check_consumer(ck, cons, enc, tabs)
        # get_signature_key_version returns the key-version position
        cxk = Ctx(ck, gkv)
        for r in nonnull_returns(gkv):
            u = is_unpack(cxk.rd.expand(r.ast.value, r))
            ck.need("kv" in tab2[0]["roles"], "create_signed_value: no key-version field recognised in the signed prefix")
            want = [x for x in tab2[0]["roles"] if x != "const"].index("kv")
            ck.ob("C23.fields-agree", gkv, r.ast, u is not None and u[1] == want and isinstance(u[0], ast.Call) and q.call_attr(u[0]) == parser.name, "get_signature_key_version returns field %d (key version) of the parser" % want)

    for s in (s1, s2):
        check_signer(ck, s)
    check_get_version(ck, getv)

    funcs = {f.qualname: f for f in (dec, getv, v1, v2, parser, gkv, s1, s2)}
    for f in list(ck.repo.nested(parser)) + extra_funcs:
        funcs[f.qualname] = ck.use(f)
    check_exceptions(ck, funcs, mac_ctx)
    ck.floor("C23.exc-none", check_none_input(ck, dec), 1, "uses of the possibly-None input")
    ck.assume("A1: str.encode('utf-8') in utf8() does not raise (no lone surrogates)")
    ck.assume("A2: hmac.compare_digest on two bytes objects does not raise; logging calls do not raise; the caller-supplied clock() does not raise")


# ---------------------------------------------------------------------------
# mutants


def _in(qn, edit):
    return lambda repo: mutate(repo, W, qn, edit)


def _is_if_not_call(st, attr):
    return isinstance(st, ast.If) and any(isinstance(x, ast.Call) and q.call_attr(x) == attr for x in ast.walk(st.test))


def _move_return_before_mac(root):
    """v2: hoist the payload return above the MAC comparison."""
    body = root.body
    for i, st in enumerate(body):
        if _is_if_not_call(st, "compare_digest"):
            body.insert(i, parse_stmt("if max_age_days < 0:\n    return base64.b64decode(value_field)"))
            return True
    return False


def _narrow_v2_handler(root):
    for x in ast.walk(root):
        if isinstance(x, ast.ExceptHandler) and x.type is not None and q.dotted(x.type) == "ValueError":
            x.type = ast.Name(id="KeyError", ctx=ast.Load())
            return True
    return False


def _int_out_of_handler(root):
    """_get_version: move int() out of the try."""
    for x in ast.walk(root):
        if isinstance(x, ast.Try):
            for fld in ("body", "orelse"):
                b = getattr(ast.parse("if 1:\n pass").body[0], fld, None)
            parent_body = None
            for p in ast.walk(root):
                for fld in ("body", "orelse"):
                    bb = getattr(p, fld, None)
                    if isinstance(bb, list) and x in bb:
                        parent_body = bb
            if parent_body is not None:
                i = parent_body.index(x)
                parent_body[i:i + 1] = x.body
                return True
    return False


MUTANTS = [
    ("v2: value returned on a path that skips the MAC comparison", _in("_decode_signed_value_v2", _move_return_before_mac), "C23.mac-gate"),
    ("v2: drop the name test", _in("_decode_signed_value_v2", remove_stmts(lambda st: isinstance(st, ast.If) and "name_field" in ast.unparse(st.test))), "C23.name-bound"),
    ("v2: drop the expiry test", _in("_decode_signed_value_v2", remove_stmts(lambda st: isinstance(st, ast.If) and "max_age_days" in ast.unparse(st.test))), "C23.expiry"),
    ("v1: drop the expiry test", _in("_decode_signed_value_v1", remove_stmts(lambda st: isinstance(st, ast.If) and "max_age_days" in ast.unparse(st.test))), "C23.expiry"),
    ("v1: expiry in seconds instead of days", _in("_decode_signed_value_v1", replace_expr(lambda n: isinstance(n, ast.BinOp) and isinstance(n.op, ast.Mult) and "max_age_days" in ast.unparse(n), lambda n: n.left)), "C23.expiry"),
    ("v2: expiry comparison inverted", _in("_decode_signed_value_v2", replace_expr(lambda n: isinstance(n, ast.Compare) and "max_age_days" in ast.unparse(n), lambda n: ast.Compare(left=n.left, ops=[ast.Gt()], comparators=n.comparators))), "C23.expiry"),
    ("v1: name left out of the MAC input", _in("_decode_signed_value_v1", replace_expr(lambda n: is_signer_call(n), lambda n: ast.Call(func=n.func, args=[n.args[0]] + n.args[2:], keywords=[]))), ("C23.name-bound", "C23.fields-agree")),
    ("v1: signature compared with itself", _in("_decode_signed_value_v1", replace_expr(lambda n: isinstance(n, ast.Call) and q.call_attr(n) == "compare_digest", lambda n: ast.Call(func=n.func, args=[n.args[0], n.args[0]], keywords=[]))), "C23.mac-gate"),
    ("v2: MAC over the value field only", _in("_decode_signed_value_v2", replace_expr(lambda n: isinstance(n, ast.Name) and n.id == "signed_string" and isinstance(n.ctx, ast.Load), lambda n: ast.Name(id="value_field", ctx=ast.Load()))), None),
    ("v1: drop the future-timestamp bound", _in("_decode_signed_value_v1", remove_stmts(lambda st: isinstance(st, ast.If) and "31 * 86400" in ast.unparse(st.test))), "C23.v1-digit-shift"),
    ("v1: drop the leading-zero rejection", _in("_decode_signed_value_v1", remove_stmts(lambda st: isinstance(st, ast.If) and "startswith" in ast.unparse(st.test))), "C23.v1-digit-shift"),
    ("decode_signed_value: drop the min_version floor", _in("decode_signed_value", remove_stmts(lambda st: isinstance(st, ast.If) and "version < min_version" in ast.unparse(st.test))), "C23.version-floor"),
    ("decode_signed_value: floor applied to v1 only", _in("decode_signed_value", replace_expr(lambda n: isinstance(n, ast.Compare) and "version < min_version" == ast.unparse(n), lambda n: parse_expr("version < min_version and version == 1"))), "C23.version-floor"),
    ("v2: ValueError handler around field parsing narrowed", _in("_decode_signed_value_v2", _narrow_v2_handler), "C23.exc-conversion"),
    ("_get_version: int() moved out of its handler", _in("_get_version", _int_out_of_handler), "C23.exc-conversion"),
    ("v2: timestamp converted before the MAC check", _in("_decode_signed_value_v2", lambda root: _hoist_int(root)), "C23.exc-conversion"),
    ("v2: KeyError handler for the key version removed", _in("_decode_signed_value_v2", replace_stmt(lambda st: isinstance(st, ast.Try) and "KeyError" in ast.unparse(st), lambda st: st.body)), "C23.exc-lookup"),
    ("v1: length test accepts more than three parts", _in("_decode_signed_value_v1", replace_expr(lambda n: isinstance(n, ast.Compare) and "len(parts)" in ast.unparse(n), lambda n: parse_expr("len(parts) < 2"))), ("C23.exc-lookup", "C23.fields-agree")),
    ("signer v1 skips the first data part (the name)", _in("_create_signature_v1", replace_expr(lambda n: isinstance(n, ast.Name) and n.id == "parts" and isinstance(n.ctx, ast.Load), lambda n: parse_expr("parts[1:]"))), "C23.sig-keyed"),
    ("signer v2 not keyed by the secret", _in("_create_signature_v2", replace_expr(lambda n: isinstance(n, ast.Call) and q.dotted(n.func) == "hmac.new", lambda n: parse_expr("hmac.new(b'', digestmod=hashlib.sha256)"))), "C23.sig-keyed"),
    ("decoder swaps name and value fields", _in("_decode_fields_v2", replace_stmt(lambda st: isinstance(st, ast.Return), lambda st: [parse_stmt("return int(key_version), timestamp, value_field, name_field, passed_sig")])), "C23.fields-agree"),
    ("encoder writes name before timestamp", _in("create_signed_value", lambda root: _swap_enc(root)), "C23.fields-agree"),
    ("_consume_field: separator after the field not verified", _in("_decode_fields_v2", remove_stmts(lambda st: isinstance(st, ast.If) and "b'|'" in ast.unparse(st.test))), "C23.fields-agree"),
    ("_get_version: threshold removed", _in("_get_version", remove_stmts(lambda st: isinstance(st, ast.If) and "999" in ast.unparse(st.test))), "C23.version-detect"),
    ("_get_version: regex admits leading zeros", lambda repo: mutate(repo, W, None, replace_expr(lambda n: isinstance(n, ast.Constant) and n.value == rb"^([1-9][0-9]*)\|(.*)$", lambda n: ast.Constant(value=rb"^([0-9]+)\|(.*)$"))), "C23.version-detect"),
    ("undo the F17a repair: v1 timestamp int() outside any handler", _in("_decode_signed_value_v1", replace_stmt(lambda st: isinstance(st, ast.Try) and any(isinstance(x, ast.Call) and q.call_attr(x) == "int" for b in st.body for x in ast.walk(b)), lambda st: st.body)), "C23.exc-conversion"),
    ("undo the F17b repair: assert on the input-selected v1 branch", _in("decode_signed_value", replace_stmt(lambda st: isinstance(st, ast.If) and "isinstance(secret, dict)" in ast.unparse(st.test), lambda st: [parse_stmt("assert not isinstance(secret, dict)")])), "C23.exc-raise"),
    ("F17b variant: raise on the input-selected v1 branch", _in("decode_signed_value", replace_stmt(lambda st: isinstance(st, ast.If) and "isinstance(secret, dict)" in ast.unparse(st.test), lambda st: [ast.If(test=st.test, body=[parse_stmt("raise ValueError('key-versioned secrets need format 2')")], orelse=[])])), "C23.exc-raise"),
    ("seeded C23-adv1: isdigit() pre-check replaces the leading-zero rejection", _in("_decode_signed_value_v1", lambda root: _seed_adv1(root)), "C23.v1-digit-shift"),
    ("leading-zero test indexes bytes (int never equals b'0')", _in("_decode_signed_value_v1", replace_expr(lambda n: isinstance(n, ast.Call) and q.call_attr(n) == "startswith", lambda n: parse_expr("parts[1][0] == b'0'"))), "C23.v1-digit-shift"),
    ("future bound loosened to 1000 years", _in("_decode_signed_value_v1", replace_expr(lambda n: isinstance(n, ast.Constant) and n.value == 31, lambda n: ast.Constant(value=31 * 12 * 1000))), "C23.v1-digit-shift"),
    ("entry passes a literal 31 days to the v2 decoder", _in("decode_signed_value", replace_expr(lambda n: isinstance(n, ast.Call) and isinstance(n.func, ast.Name) and n.func.id == "_decode_signed_value_v2", lambda n: ast.Call(func=n.func, args=n.args[:3] + [ast.Constant(value=31)] + n.args[4:], keywords=[]))), "C23.pass-through"),
    ("get_signed_cookie drops max_age_days", lambda repo: mutate(repo, W, "RequestHandler.get_signed_cookie", lambda root: _drop_kw(root, "max_age_days")), "C23.pass-through"),
    ("get_signed_cookie drops min_version", lambda repo: mutate(repo, W, "RequestHandler.get_signed_cookie", lambda root: _drop_kw(root, "min_version")), "C23.pass-through"),
    ("encoder switches to urlsafe base64", _in("create_signed_value", replace_expr(lambda n: isinstance(n, ast.Attribute) and n.attr == "b64encode", lambda n: ast.Attribute(value=n.value, attr="urlsafe_b64encode", ctx=ast.Load()))), "C23.fields-agree"),
    ("encoder strips the value before encoding", _in("create_signed_value", replace_expr(lambda n: isinstance(n, ast.Call) and q.dotted(n.func) == "base64.b64encode", lambda n: parse_expr("base64.b64encode(utf8(value).strip())"))), "C23.fields-agree"),
    ("v2: signature compared case-insensitively", _in("_decode_signed_value_v2", replace_expr(lambda n: isinstance(n, ast.Call) and q.call_attr(n) == "compare_digest", lambda n: ast.Call(func=n.func, args=[parse_expr("passed_sig.lower()"), n.args[1]], keywords=[]))), "C23.mac-gate"),
    ("v2: name compared case-insensitively", _in("_decode_signed_value_v2", replace_expr(lambda n: isinstance(n, ast.Compare) and "name_field" in ast.unparse(n), lambda n: parse_expr("name_field.lower() != utf8(name).lower()"))), "C23.name-bound"),
    ("entry: the empty/None input test removed", _in("decode_signed_value", remove_stmts(lambda st: isinstance(st, ast.If) and ast.unparse(st.test) == "not value")), "C23.exc-none"),
    ("seeded C23-adv3: fields unpacked from split(...)[:3] (appended data ignored)", _in("_decode_signed_value_v1", lambda root: _seed_adv3(root)), "C23.fields-agree"),
    ("v1: parts taken from split(...)[:3] with the length test kept on the slice", _in("_decode_signed_value_v1", replace_expr(lambda n: isinstance(n, ast.Call) and q.call_attr(n) == "split", lambda n: ast.Subscript(value=n, slice=ast.Slice(upper=ast.Constant(value=3)), ctx=ast.Load()))), "C23.fields-agree"),
    ("v2 decoder refuses names longer than 64 bytes", _in("_decode_signed_value_v2", replace_expr(lambda n: isinstance(n, ast.Compare) and "name_field" in ast.unparse(n), lambda n: parse_expr("name_field != utf8(name) or len(name_field) > 64"))), "C23.fields-agree"),
    ("seeded C23-adv4: raw digests compared (hex case of the signature ignored)", _in("_decode_signed_value_v2", replace_expr(lambda n: isinstance(n, ast.Call) and q.call_attr(n) == "compare_digest", lambda n: ast.Call(func=n.func, args=[ast.Call(func=parse_expr("binascii.unhexlify"), args=[a], keywords=[]) for a in n.args], keywords=[]))), "C23.mac-gate"),
    ("encoder's length prefix off by one", _in("create_signed_value", replace_expr(lambda n: isinstance(n, ast.Call) and isinstance(n.func, ast.Name) and n.func.id == "len" and ast.unparse(n) == "len(s)", lambda n: parse_expr("len(s) + 1"))), "C23.fields-agree"),
    ("seeded C23-adv6: input stripped of blanks and quotes before verification", _in("decode_signed_value", replace_stmt(lambda st: isinstance(st, ast.Assign) and ast.unparse(st.value) == "utf8(value)", lambda st: [parse_stmt("value = utf8(value).strip(b' \\t\"')")])), "C23.pass-through"),
    ("v1 decoder splits the lower-cased input", _in("_decode_signed_value_v1", replace_expr(lambda n: isinstance(n, ast.Call) and q.call_attr(n) == "split", lambda n: parse_expr("utf8(value).lower().split(b'|')"))), ("C23.fields-agree", "C23.mac-gate")),
    ("dispatch: v1 decoder called for version 2 values too", _in("decode_signed_value", replace_expr(lambda n: isinstance(n, ast.Compare) and ast.unparse(n) == "version == 1", lambda n: parse_expr("version <= 2"))), "C23.dispatch"),
]


def _hoist_int(root):
    body = root.body
    idx = None
    stmt = None
    for i, st in enumerate(body):
        if isinstance(st, ast.Assign) and isinstance(st.value, ast.Call) and q.call_attr(st.value) == "int":
            idx, stmt = i, st
    if stmt is None:
        return False
    for j, st in enumerate(body):
        if _is_if_not_call(st, "compare_digest") and j < idx:
            del body[idx]
            body.insert(j, stmt)
            return True
    return False


def _swap_enc(root):
    for x in ast.walk(root):
        if isinstance(x, ast.List) and len(x.elts) == 6:
            x.elts[2], x.elts[3] = x.elts[3], x.elts[2]
            return True
    return False


def _seed_adv1(root):
    a = replace_expr(lambda n: isinstance(n, ast.Compare) and "len(parts)" in ast.unparse(n), lambda n: parse_expr("len(parts) != 3 or not parts[1].isdigit()"))(root)
    b = remove_stmts(lambda st: isinstance(st, ast.If) and "startswith" in ast.unparse(st.test))(root)
    return a and b


def _drop_kw(root, name):
    for x in ast.walk(root):
        if isinstance(x, ast.Call) and isinstance(x.func, ast.Name) and x.func.id == "decode_signed_value":
            k = [kw for kw in x.keywords if kw.arg != name]
            if len(k) != len(x.keywords):
                x.keywords = k
                return True
    return False


def _seed_adv3(root):
    body = root.body
    for i, st in enumerate(body):
        if isinstance(st, ast.Assign) and "split" in ast.unparse(st.value):
            body[i] = parse_stmt("try:\n    parts = utf8(value).split(b'|')[:3]\n    _p0, _p1, _p2 = parts\nexcept ValueError:\n    return None")
            return remove_stmts(lambda s_: isinstance(s_, ast.If) and "len(parts)" in ast.unparse(s_.test))(root)
    return False
