"""C36 — future combinators always settle and report the right outcome.

Decided statically (DESIGN.md §4 C36, Appendix A.1): *cancel-aware outcome
reads* in the done-callbacks of ``chain_future``, ``multi_future`` and
``with_timeout`` (a ``.result()``/``.exception()`` on a future the callback did
not create must sit under a CancelledError/BaseException handler, under a
``not F.cancelled()`` fact, or after an earlier read that already returned);
SETTLE on the output futures; exit-state typestates ("output settled exactly
once unless already done") of ``chain_future.copy`` and
``multi_future.callback``; every distinct child listened to once; results
collected in input order; ``WaitIterator`` bookkeeping (FIFO of finished inputs,
take-and-clear of the running future, one index entry consumed per delivered
input, one registration per distinct input); ``with_timeout`` shape.  Not
decided: the quantifier over completion orders.
"""
from __future__ import annotations

import ast

from .. import q
from ..cfg import must_facts, holds, canon_fact
from ..rules import settle_sites, check_settles, event_facts, node_calls, node_assigns, is_none
from ..mutate import mutate, remove_stmts, replace_expr, replace_stmt, parse_stmt, parse_expr
from ..model import AnalysisError
from ..x_syncnorm import normalized

NORM_MODULES = ("tornado/locks.py", "tornado/queues.py", "tornado/gen.py", "tornado/concurrent.py", "tornado/ioloop.py", "tornado/platform/asyncio.py")
from ..x_sync import check_none_tests, own_walk, node_counts, method_call_on, container_uses, exit_states, own_find, own_settle_sites, check_outcome_reads, stable_facts, handler_catches_cancel
from .c33 import _drop_done_test, _rename_attr
from .c34 import check_with_timeout

TECHNIQUE = "cancel-aware outcome-read rule (exception-escape on the handler structure + stable cancelled() facts), settle-discipline lint, exit-state typestate, who-may-touch"
EXPLANATION = (
    "Every .result()/.exception() in the done-callbacks chain_future.copy, multi_future.callback, with_timeout.error_callback is checked against "
    "rules r1 (handler for CancelledError/BaseException), r2 (not F.cancelled() fact), r3 (earlier read returned); SETTLE (not done() guard / fresh) at "
    "every settle of an output future; typestates: copy settles b exactly once unless b was done, multi's callback leaves the output done once the last "
    "child finished; children listened to once each (seen-set), results in list order, dict keys zipped in the same order; WaitIterator queue/index "
    "bookkeeping; with_timeout chains input->result and arms one guarded timer."
)
NOT_DECIDED = "the quantifier over completion orders and outcomes of the inputs; asyncio's callback scheduling; logging side effects (quiet_exceptions)"

G = "tornado/gen.py"
C = "tornado/concurrent.py"


# ---------------------------------------------------------------------------


def _is_cancel_call(x, target):
    return method_call_on(x, target, "cancel") and not x.args


def check_chain(ck):
    cf = ck.func(C, "chain_future")
    ps = cf.params()
    if len(ps) != 2:
        raise AnalysisError("%s: unexpected signature" % cf.site())
    a, b = ps
    nested = [nf for nf in ck.repo.nested(cf) if nf.parent is cf]
    if len(nested) != 1:
        raise AnalysisError("%s: expected one nested copy function" % cf.site())
    cp = ck.use(nested[0])
    src = [p for p in cp.params()]
    if len(src) != 1:
        raise AnalysisError("%s: unexpected signature" % cp.site())
    s = src[0]
    # registration: exactly once on every path, on the source, with the copy function
    regs = own_find(cf, lambda x: isinstance(x, ast.Call) and q.call_attr(x) in ("future_add_done_callback", "add_future", "add_done_callback") and any(q.dotted(y) == cp.name for y in x.args))
    ck.floor("C36.chain", len(regs), 1, "registrations of copy")
    rc = node_counts(cf, lambda x: any(x is c for _, c in regs))
    normal, _ = exit_states(cf.cfg, 0, lambda nd, v: min(2, v + rc.get(nd.id, 0)))
    for _f, k in normal:
        ck.ob("C36.chain", cf, cf.node, k == 1, "chain_future registers copy exactly once on every path (count=%d)" % k, construct="exit registrations=%d" % k)
    for nd, c in regs:
        on = q.dotted(c.args[0]) if q.call_attr(c) != "add_done_callback" else q.receiver(c)
        ck.ob("C36.chain", cf, c, on == a, "copy listens on the source future (%s)" % a)
    # copy: reads, settles, exit states
    n = check_outcome_reads(ck, "C36.cancel-aware", cp)
    ck.floor("C36.cancel-aware", n, 1, "outcome reads in chain_future.copy")
    ss = own_settle_sites(cp)
    ck.floor("C36.settle", len(ss), 2, "settle sites in chain_future.copy")
    for st in ss:
        ck.ob("C36.chain", cp, st[1], st[2] == b, "copy settles only the target future (%s)" % b)
    check_settles(ck, "C36.settle", cp, allow_safe_unguarded=False)
    cancels = own_find(cp, lambda x: _is_cancel_call(x, b))
    sc = node_counts(cp, lambda x: any(x is st[1] for st in ss) or _is_cancel_call(x, b))
    donef = "%s.done()" % b
    normal, _ = exit_states(cp.cfg, 0, lambda nd, v: min(2, v + sc.get(nd.id, 0)), track=lambda t: t == donef)
    ck.floor("C36.chain", len(normal), 1, "normal exit states of copy")
    for facts, k in normal:
        was_done = (donef, True) in facts
        ck.ob("C36.chain", cp, cp.node, k == (0 if was_done else 1), "copy leaves a finished target alone and otherwise settles/cancels it exactly once on every normal path (target-done=%s settles=%d)" % (was_done, k),
              construct="exit target-done=%s settles=%d" % (was_done, k))
    # outcome mapping: exception -> set_exception(that exception), otherwise set_result(source.result())
    def _defs_of(name):
        out = [d.value for d in q.stores_to(cp.node, name) if isinstance(d, (ast.Assign, ast.AnnAssign)) and d.value is not None]
        out += [n.value for n in ast.walk(cp.node) if isinstance(n, ast.NamedExpr) and isinstance(n.target, ast.Name) and n.target.id == name]
        return out

    def _from_source(v, meth):
        if method_call_on(v, s, meth):
            return True
        if isinstance(v, ast.NamedExpr):
            return method_call_on(v.value, s, meth)
        if isinstance(v, ast.Name):
            ds = _defs_of(v.id)
            if not ds:
                raise AnalysisError("%s: cannot find the definition of %s" % (cp.site(v), v.id))
            return all(method_call_on(d, s, meth) for d in ds)
        raise AnalysisError("%s: copied value in an unrecognised shape: %s" % (cp.site(v), q.unparse(v)[:60]))

    for st in ss:
        c = st[1]
        if isinstance(c.func, ast.Attribute) and c.func.attr in ("set_result", "set_exception") and c.args:
            meth = "result" if c.func.attr == "set_result" else "exception"
            ck.ob("C36.chain", cp, c, _from_source(c.args[0], meth), "the copied %s is the source's %s()" % (meth, meth))
            continue
        if isinstance(c.func, ast.Attribute) and c.func.attr == "set_result":
            v = c.args[0] if c.args else None
            ok = method_call_on(v, s, "result") or (isinstance(v, ast.Name) and any(isinstance(d, ast.Assign) and method_call_on(d.value, s, "result") for d in q.stores_to(cp.node, v.id)))
            ck.ob("C36.chain", cp, c, bool(ok), "the copied result is the source's result()")
        elif isinstance(c.func, ast.Attribute) and c.func.attr == "set_exception":
            v = c.args[0] if c.args else None
            ok = method_call_on(v, s, "exception") or (isinstance(v, ast.Name) and any(isinstance(d, ast.Assign) and method_call_on(d.value, s, "exception") for d in q.stores_to(cp.node, v.id)))
            ck.ob("C36.chain", cp, c, bool(ok), "the copied exception is the source's exception()")
    # if the code has an explicit cancelled path, it must not leave the target pending
    for h in [x for x in ast.walk(cp.node) if isinstance(x, ast.ExceptHandler) and handler_catches_cancel(x)]:
        acts = [y for st_ in h.body for y in ast.walk(st_) if isinstance(y, ast.Call) and (_is_cancel_call(y, b) or any(y is t[1] for t in ss))]
        ck.ob("C36.chain", cp, h, bool(acts), "the handler for the source's cancellation cancels/settles the target (cancellation is copied, target not left pending)")
    for t in [x for x in ast.walk(cp.node) if isinstance(x, ast.If)]:
        txt, pol = canon_fact(t.test, True)
        if txt == "%s.cancelled()" % s:
            branch = t.body if pol else t.orelse
            acts = [y for st_ in branch for y in ast.walk(st_) if isinstance(y, ast.Call) and (_is_cancel_call(y, b) or any(y is u[1] for u in ss))]
            ck.ob("C36.chain", cp, t.test, bool(acts), "the branch for a cancelled source cancels/settles the target (cancellation is copied)")


def _check_output_value(ck, P, mf, cb, c, v, res, facts, extra):
    """The settled value is the ordered result list, dict(zip(keys, results)) under `keys is not None`, or a conditional
    expression whose arms are those (facts of the arm added).  A value that does not use the result list at all is a
    violation; any other shape is not understood (AnalysisError)."""
    if q.dotted(v) == res:
        ck.ob(P + ".multi-order", cb, c, True, "list input: the output is the result list")
        return
    if q.is_call(v, "dict") and len(v.args) == 1 and q.is_call(v.args[0], "zip") and len(v.args[0].args) == 2 and q.dotted(v.args[0].args[1]) == res:
        keys = q.dotted(v.args[0].args[0])
        kst = [st for st in q.stores_to(mf.node, keys) if isinstance(getattr(st, "value", None), ast.Call)] if keys else []
        ok = any(q.is_call(st.value, "list") and st.value.args and isinstance(st.value.args[0], ast.Call) and q.call_attr(st.value.args[0]) == "keys" for st in kst)
        under = holds(facts, "%s is None" % keys, False) or (("%s is None" % keys, False) in extra) if keys else False
        ck.ob(P + ".multi-order", cb, c, ok and under, "dict input: results are zipped with list(children.keys()) (same order as children.values())")
        return
    if isinstance(v, ast.IfExp):
        t, pol = canon_fact(v.test, True)
        _check_output_value(ck, P, mf, cb, c, v.body, res, facts, extra + [(t, pol)])
        _check_output_value(ck, P, mf, cb, c, v.orelse, res, facts, extra + [(t, not pol)])
        return
    if not any(isinstance(n, ast.Name) and n.id == res for n in ast.walk(v)):
        ck.ob(P + ".multi-order", cb, c, False, "the output value is built from the ordered result list")
        return
    raise AnalysisError("%s: output value of multi in an unrecognised shape: %s" % (cb.site(c), q.unparse(v)[:80]))


def check_multi(ck, P="C36"):
    mf = ck.func(G, "multi_future")
    cfg = mf.cfg
    nested = [nf for nf in ck.repo.nested(mf) if nf.parent is mf and isinstance(nf.node, q.FuncNode)]
    # the completion callback is the nested function registered on the children (other nested helpers may exist; the
    # ones it calls have been inlined by the normaliser)
    registered = {q.dotted(c.args[1]) for c in own_walk(mf.node) if isinstance(c, ast.Call) and q.call_attr(c) in ("future_add_done_callback", "add_future") and len(c.args) == 2}
    nested = [nf for nf in nested if nf.name in registered] if len(nested) != 1 else nested
    if len(nested) != 1:
        raise AnalysisError("%s: expected one nested callback" % mf.site())
    cb = ck.use(nested[0])
    # the output future and the child list
    rets = [r for r in own_walk(mf.node) if isinstance(r, ast.Return)]
    outs = {q.dotted(r.value) if r.value is not None else None for r in rets}
    if len(outs) != 1 or None in outs:
        raise AnalysisError("%s: cannot identify the output future" % mf.site())
    out = next(iter(outs))
    fresh = any(isinstance(getattr(st, "value", None), ast.Call) and q.call_attr(st.value) in ("Future", "_create_future") for st in q.stores_to(mf.node, out))
    ck.ob(P + ".multi", mf, mf.node, fresh, "multi_future returns a fresh future", construct="output fresh")
    def _is_conversion(v):
        if q.is_call(v, "list") and v.args and q.is_call(v.args[0], "map") and v.args[0].args and q.dotted(v.args[0].args[0]) == "convert_yielded":
            return True
        if isinstance(v, ast.ListComp) and len(v.generators) == 1 and not v.generators[0].ifs and isinstance(v.generators[0].target, ast.Name) \
                and q.is_call(v.elt, "convert_yielded") and len(v.elt.args) == 1 and q.dotted(v.elt.args[0]) == v.generators[0].target.id:
            return True
        return False

    lists = [st for st in own_walk(mf.node) if isinstance(st, ast.Assign) and _is_conversion(st.value)]
    if len(lists) != 1:
        raise AnalysisError("%s: child conversion `list(map(convert_yielded, ...))` not recognised" % mf.site())
    kids = sorted(q.assigned_paths(lists[0]))[0]
    # the set of unfinished children: the collection the callback removes its argument from
    cbp = cb.params()
    rem = [c for c in own_walk(cb.node) if isinstance(c, ast.Call) and isinstance(c.func, ast.Attribute) and c.func.attr in ("remove", "discard") and isinstance(c.func.value, ast.Name)
           and len(c.args) == 1 and cbp and q.dotted(c.args[0]) == cbp[0]]
    names = {c.func.value.id for c in rem}
    if len(names) != 1:
        raise AnalysisError("%s: the set of unfinished children not recognised" % mf.site())
    unfinished = next(iter(names))
    ust = q.stores_to(mf.node, unfinished)
    full = [st for st in ust if isinstance(getattr(st, "value", None), ast.Call) and q.call_attr(st.value) in ("set", "frozenset") and st.value.args and q.dotted(st.value.args[0]) == kids]
    empty = [st for st in ust if isinstance(getattr(st, "value", None), ast.Call) and q.call_attr(st.value) == "set" and not st.value.args]
    grows = [c for c in own_walk(mf.node) if isinstance(c, ast.Call) and method_call_on(c, unfinished, "add", "update")]
    if len(ust) == 1 and full and not grows:
        ck.ob(P + ".multi", mf, ust[0], True, "the set of unfinished children is complete (set(all children)) before any callback is registered")
    elif ust and all(st in empty for st in ust) and grows:
        ck.ob(P + ".multi", mf, grows[0], False,
              "the set of unfinished children must be complete before the first callback is registered: it is filled while registering, and a callback registered on an already finished child runs at once and sees a set that is empty too early")
    else:
        raise AnalysisError("%s: the set of unfinished children is built in an unrecognised way" % mf.site())
    sets_ = ust

    # -- listening: each distinct child once
    def _iter_kind(it):
        """'all': the ordered child list; 'distinct': each distinct child once (dict.fromkeys / set of the children, the unfinished set)"""
        if q.dotted(it) == kids:
            return "all"
        if q.dotted(it) == unfinished:
            return "distinct"
        if isinstance(it, ast.Call) and len(it.args) == 1 and q.dotted(it.args[0]) == kids and (q.dotted(it.func) in ("dict.fromkeys", "set", "frozenset")):
            return "distinct"
        return None

    forloops = [nd for nd in cfg.stmt_nodes(lambda nd: nd.kind == "for") if isinstance(nd.ast.target, ast.Name)]
    loops = [nd for nd in forloops if _iter_kind(nd.ast.iter) is not None]
    regs = own_find(mf, lambda x: isinstance(x, ast.Call) and q.call_attr(x) in ("future_add_done_callback", "add_future") and len(x.args) == 2 and q.dotted(x.args[1]) == cb.name)
    ck.floor(P + ".multi-listen", len(regs), 1, "registrations of the callback")
    facts = must_facts(cfg)
    for nd, c in regs:
        x = q.dotted(c.args[0])
        lp = [l for l in loops if l.ast.target.id == x and any(c is y for st in l.ast.body for y in ast.walk(st))]
        if not lp:
            inside_other = [l for l in forloops if any(c is y for st in l.ast.body for y in ast.walk(st))]
            if inside_other:
                raise AnalysisError("%s: the registration loop iterates over something that is not recognised as the children" % mf.site(inside_other[0].ast.iter))
        ck.ob(P + ".multi-listen", mf, c, len(lp) == 1, "the callback is registered inside the loop over all children, on the loop element")
        if lp and _iter_kind(lp[0].ast.iter) == "distinct":
            guards = [a for a in q.ancestors(q.parent_map(mf.node), c) if isinstance(a, ast.If)]
            guards = [g for g in guards if any(g is y for st in lp[0].ast.body for y in ast.walk(st))]
            ck.ob(P + ".multi-listen", mf, c, not guards, "iterating over the distinct children registers every one of them once (no further guard)")
            continue
        # `x in S` is False on every path from the start of the iteration to the registration (whatever the control-flow
        # shape: nested if, `continue` guard, early return); the fact is only forgotten when x or S is re-bound — S.add(x)
        # in between is exactly what is expected
        sf = stable_facts(cfg, lambda t: t.startswith(x + " in "))
        ok = False
        for t, pol in sf[nd.id]:
            if pol:
                continue
            s_ = t[len(x) + 4:]
            init = [st for st in q.stores_to(mf.node, s_) if isinstance(getattr(st, "value", None), ast.Call) and q.call_attr(st.value) == "set" and not st.value.args]
            adds = [(n2, a) for n2, a in own_find(mf, lambda a: method_call_on(a, s_, "add") and len(a.args) == 1 and q.dotted(a.args[0]) == x)
                    if any(a is y for l in lp for st in l.ast.body for y in ast.walk(st)) and (t, False) in sf[n2.id]]
            if adds and init:
                ok = True
        ck.ob(P + ".multi-listen", mf, c, ok, "a child is listened to only if it was not seen before, and is then recorded as seen (duplicates are listened to once, matching the set of unfinished children)")
    # loop cannot skip children
    from .c34 import _leaves_loop
    for l in loops:
        if any(any(c is y for st in l.ast.body for y in ast.walk(st)) for _, c in regs):
            ck.ob(P + ".multi-listen", mf, l.ast.iter, not _leaves_loop(l.ast), "the registration loop visits every child")

    # -- empty input settles immediately
    im = [s for s in own_settle_sites(mf) if s[2] == out]
    ck.ob(P + ".multi", mf, mf.node, len(im) >= 1 and all(holds(facts[s[0].id], kids, False) for s in im), "multi_future settles the output itself only for an empty child list", construct="empty input settle")
    check_settles(ck, P + ".settle", mf, allow_safe_unguarded=False)

    # -- callback
    fp = cb.params()
    if len(fp) != 1:
        raise AnalysisError("%s: unexpected signature" % cb.site())
    rm = own_find(cb, lambda x: method_call_on(x, unfinished, "remove", "discard") and len(x.args) == 1 and q.dotted(x.args[0]) == fp[0])
    ck.ob(P + ".multi", cb, cb.node, len(rm) == 1 and cb.cfg.postdominates(rm[0][0], cb.cfg.entry) if rm else False, "the callback first removes its child from the unfinished set", construct="callback removes child")
    n = check_outcome_reads(ck, P + ".cancel-aware", cb)
    ck.floor(P + ".cancel-aware", n, 1, "outcome reads in multi_future.callback")
    ss = [s for s in own_settle_sites(cb)]
    ck.floor(P + ".settle", len(ss), 2, "settle sites in multi_future.callback")
    for s in ss:
        ck.ob(P + ".multi", cb, s[1], s[2] == out, "the callback settles only the output future")
    check_settles(ck, P + ".settle", cb, allow_safe_unguarded=False)
    cfacts = must_facts(cb.cfg)
    guard_ok = True
    for s in ss:
        guard_ok &= ck.ob(P + ".multi", cb, s[1], holds(cfacts[s[0].id], unfinished, False), "the output is settled only after the last child finished (unfinished set empty)")
    # reads happen in input order and feed the result list
    rl = [nd for nd in cb.cfg.stmt_nodes(lambda nd: nd.kind == "for") if isinstance(nd.ast.target, ast.Name)]
    rl = [nd for nd in rl if any(method_call_on(y, nd.ast.target.id, "result") for st in nd.ast.body for y in ast.walk(st))]
    # the comprehension form of the same read: res = [x.result() for x in <children>]
    comps = [st for st in own_walk(cb.node) if isinstance(st, ast.Assign) and isinstance(st.value, ast.ListComp) and len(st.value.generators) == 1
             and isinstance(st.value.generators[0].target, ast.Name) and method_call_on(st.value.elt, st.value.generators[0].target.id, "result")]
    if len(rl) + len(comps) != 1:
        raise AnalysisError("%s: cannot identify the single ordered read of the children's results (loops=%d comprehensions=%d)" % (cb.site(), len(rl), len(comps)))
    for st in comps:
        g = st.value.generators[0]
        ck.ob(P + ".multi-order", cb, st, q.dotted(g.iter) == kids and not g.ifs, "results are read in input order (comprehension over the ordered child list %s)" % kids)
        res = sorted(q.assigned_paths(st))[0]
        for s_ in ss:
            c = s_[1]
            if q.call_attr(c) == "future_set_result_unless_cancelled" or (isinstance(c.func, ast.Attribute) and c.func.attr == "set_result"):
                v = c.args[-1]
                _check_output_value(ck, P, mf, cb, c, v, res, cfacts[s_[0].id], [])
    for nd in rl:
        x = nd.ast.target.id
        ck.ob(P + ".multi-order", cb, nd.ast.iter, q.dotted(nd.ast.iter) == kids, "results are read in input order (iteration over the ordered child list %s, not a set)" % kids)
        apps = [y for st in nd.ast.body for y in ast.walk(st) if isinstance(y, ast.Call) and isinstance(y.func, ast.Attribute) and y.func.attr == "append" and len(y.args) == 1 and method_call_on(y.args[0], x, "result")]
        ck.ob(P + ".multi-order", cb, nd.ast.iter, len(apps) == 1, "each child's result is appended to the result list")
        from .c34 import _leaves_loop as _ll
        ck.ob(P + ".multi-order", cb, nd.ast.iter, not _ll(nd.ast), "the result loop visits every child (first failure in order wins because later ones find the output done)")
        if apps:
            res = q.dotted(apps[0].func.value)
            for s in ss:
                c = s[1]
                if q.call_attr(c) == "future_set_result_unless_cancelled" or (isinstance(c.func, ast.Attribute) and c.func.attr == "set_result"):
                    _check_output_value(ck, P, mf, cb, c, c.args[-1], res, cfacts[s[0].id], [])
    # typestate: once the last child finished, the callback leaves the output done
    sc = node_counts(cb, lambda x: any(x is s[1] for s in ss))
    donef = "%s.done()" % out

    def edge(nd, kind, v):
        settled, last, isdone = v
        if nd.kind == "test" and kind in ("true", "false"):
            t, pol = canon_fact(nd.ast, kind == "true")
            if t == unfinished:
                last = not pol
            if t == donef:
                isdone = pol
        return (settled, last, isdone)

    def tr(nd, v):
        settled, last, isdone = v
        if sc.get(nd.id):
            return (min(2, settled + sc[nd.id]), last, True)
        return v

    normal, _ = exit_states(cb.cfg, (0, None, None), tr, edge_transfer=edge)
    ck.floor(P + ".multi", len(normal), 2, "normal exit states of the callback")
    for _f, (settled, last, isdone) in normal:
        if last is None:
            if not guard_ok:
                continue  # already reported: a settle is not under the `no children remain` guard
            raise AnalysisError("%s: exit state does not decide whether children remain" % cb.site())
        if last:
            ck.ob(P + ".multi", cb, cb.node, bool(isdone), "when the last child finished, every normal path leaves the output future done (settled here=%d)" % settled, construct="exit last-child done=%s" % bool(isdone))
        else:
            ck.ob(P + ".multi", cb, cb.node, settled == 0, "while children remain the output is not settled", construct="exit children-remain settles=%d" % settled)


def check_wait_iterator(ck):
    W = "WaitIterator"
    init = ck.func(G, W + ".__init__")
    nxt = ck.func(G, W + ".next")
    dcb = ck.func(G, W + "._done_callback")
    rr = ck.func(G, W + "._return_result")
    RUN, FIN, UNF = "self._running_future", "self._finished", "self._unfinished"
    # FIFO of finished inputs
    n = 0
    for u in container_uses(ck.repo, G, (W,), "_finished"):
        if u.kind == "method":
            n += 1
            ck.ob("C36.waititer", u.fi, u.call, u.name in ("append", "popleft"), "finished inputs are queued and delivered in completion order (append/popleft); found .%s()" % u.name)
        elif u.kind == "store":
            ck.ob("C36.waititer", u.fi, u.node, u.fi is init, "the finished queue is bound only by the constructor")
    ck.floor("C36.waititer", n, 2, "operations on the finished queue")
    # _done_callback: exactly one of deliver / queue, with its argument
    p = [x for x in dcb.params() if x != "self"]
    if len(p) != 1:
        raise AnalysisError("%s: unexpected signature" % dcb.site())
    dl = node_counts(dcb, lambda x: method_call_on(x, "self", "_return_result") and len(x.args) == 1 and q.dotted(x.args[0]) == p[0])
    qu = node_counts(dcb, lambda x: method_call_on(x, FIN, "append") and len(x.args) == 1 and q.dotted(x.args[0]) == p[0])
    normal, _ = exit_states(dcb.cfg, (0, 0), lambda nd, v: (min(2, v[0] + dl.get(nd.id, 0)), min(2, v[1] + qu.get(nd.id, 0))))
    for _f, (d, k) in normal:
        ck.ob("C36.waititer", dcb, dcb.node, d + k == 1, "a finished input is either delivered to the running future or queued, exactly once (delivered=%d queued=%d)" % (d, k), construct="exit delivered=%d queued=%d" % (d, k))
    facts = must_facts(dcb.cfg)
    for nd, c in own_find(dcb, lambda x: method_call_on(x, "self", "_return_result")):
        exists = holds(facts[nd.id], RUN, True) or holds(facts[nd.id], RUN + " is None", False)
        ck.ob("C36.waititer", dcb, c, exists and holds(facts[nd.id], RUN + ".done()", False), "direct delivery only into an existing, pending running future (a finished/cancelled next() future must not swallow the input)")
    # _return_result: chain into the running future, take-and-clear it, consume one index entry
    p = [x for x in rr.params() if x != "self"]
    chains = own_find(rr, lambda x: q.is_call(x, "chain_future"))
    # the outcome may also be copied by hand: then the reads of the finished input are governed by the cancel-aware rule
    # (a cancelled input must not raise out of the done-callback and leave next()'s future pending) and the settles by SETTLE
    n_reads = sum(check_outcome_reads(ck, "C36.cancel-aware", f_) for f_ in (rr, dcb, nxt))
    manual = [s_ for s_ in own_settle_sites(rr) if s_[2] == RUN] + own_find(rr, lambda x: method_call_on(x, RUN, "cancel"))
    if not chains and not manual:
        raise AnalysisError("%s: cannot see how _return_result transfers the input's outcome to the running future" % rr.site())
    if not chains:
        ck.note("_return_result copies the outcome by hand (%d settle/cancel sites, %d outcome reads)" % (len(manual), n_reads))
    cleared = event_facts(rr, {"cleared": node_assigns(RUN, is_none)}, cond_facts=False)
    for nd, c in chains:
        ck.ob("C36.waititer", rr, c, q.dotted(q.arg(c, 0)) == p[0] and q.dotted(q.arg(c, 1)) == RUN, "the delivered input is chained into the running future")
        ck.ob("C36.waititer", rr, c, ("@cleared", True) not in cleared[nd.id], "chaining happens before the running future is cleared")
    pops = node_counts(rr, lambda x: method_call_on(x, UNF, "pop") and len(x.args) == 1 and q.dotted(x.args[0]) == p[0])
    deliver = [c for _, c in chains] + [(m[1] if len(m) == 4 else m[1]) for m in manual]
    cc = node_counts(rr, lambda x: any(x is c for c in deliver))
    cl = {nd.id: 1 for nd in rr.cfg.stmt_nodes(node_assigns(RUN, is_none))}
    normal, _ = exit_states(rr.cfg, (0, 0, 0), lambda nd, v: (min(2, v[0] + cc.get(nd.id, 0)), min(2, v[1] + pops.get(nd.id, 0)), min(2, v[2] + cl.get(nd.id, 0))))
    for _f, v in normal:
        ck.ob("C36.waititer", rr, rr.node, v == (1, 1, 1), "every normal path of _return_result transfers the outcome once, consumes one index entry and clears the running future (transfers=%d index-pops=%d clears=%d)" % v, construct="exit chains=%d pops=%d clears=%d" % v)
    idx = [st for st in q.stores_to(rr.node, "self.current_index")]
    ck.ob("C36.waititer", rr, rr.node, len(idx) == 1 and method_call_on(getattr(idx[0], "value", None), UNF, "pop"), "current_index is the index entry of the delivered input", construct="current_index source")
    cur = [st for st in q.stores_to(rr.node, "self.current_future")]
    ck.ob("C36.waititer", rr, rr.node, len(cur) == 1 and q.dotted(getattr(cur[0], "value", None)) == p[0], "current_future is the delivered input", construct="current_future source")
    rets = [r for r in own_walk(rr.node) if isinstance(r, ast.Return)]
    alias = {q.dotted(r.value) for r in rets}
    ok = len(alias) == 1 and None not in alias and any(isinstance(st, ast.Assign) and q.dotted(st.value) == RUN for st in q.stores_to(rr.node, next(iter(alias))))
    ck.ob("C36.waititer", rr, rr.node, ok, "_return_result returns the running future it took before clearing", construct="returns taken running future")
    # next(): fresh running future; queued input first (FIFO), else the pending future
    st = [s for s in q.stores_to(nxt.node, RUN) if isinstance(getattr(s, "value", None), ast.Call) and q.call_attr(s.value) in ("Future", "_create_future")]
    ck.ob("C36.waititer", nxt, nxt.node, len(st) == 1 and nxt.cfg.postdominates(nxt.cfg.nodes_for(st[0])[0], nxt.cfg.entry) if st else False, "next() installs a fresh running future on every path", construct="next fresh running future")
    facts = must_facts(nxt.cfg)
    for nd in nxt.cfg.stmt_nodes(lambda nd: nd.kind == "stmt" and isinstance(nd.ast, ast.Return)):
        v = nd.ast.value
        if method_call_on(v, "self", "_return_result"):
            a0 = v.args[0] if v.args else None
            ck.ob("C36.waititer", nxt, nd.ast, method_call_on(a0, FIN, "popleft") and holds(facts[nd.id], FIN, True), "a queued finished input is delivered first, oldest first")
        else:
            ck.ob("C36.waititer", nxt, nd.ast, q.dotted(v) == RUN and holds(facts[nd.id], FIN, False), "otherwise next() returns the pending running future")
    # done(): True only when nothing is queued and nothing is outstanding
    dn = ck.func(G, W + ".done")
    dfacts = must_facts(dn.cfg)
    k = 0
    for nd in dn.cfg.stmt_nodes(lambda nd: nd.kind == "stmt" and isinstance(nd.ast, ast.Return)):
        v = nd.ast.value
        if q.is_const(v, True):
            k += 1
            ck.ob("C36.waititer", dn, nd.ast, holds(dfacts[nd.id], FIN, False) and holds(dfacts[nd.id], UNF, False), "done() is True only when no finished input is queued and no input is outstanding (every input is yielded)")
        elif not q.is_const(v, False):
            raise AnalysisError("%s: done() returns a non-literal" % dn.site(nd.ast))
    ck.floor("C36.waititer", k, 1, "`return True` in done()")
    # index table: each input future maps to its own position / keyword
    tables = [st for st in q.stores_to(init.node, UNF) if isinstance(getattr(st, "value", None), ast.DictComp)]
    ck.floor("C36.waititer", len(tables), 2, "index tables in WaitIterator.__init__")
    a_ = init.node.args
    for st in tables:
        dc = st.value
        g = dc.generators[0] if len(dc.generators) == 1 else None
        ok = False
        if g is not None and isinstance(g.target, ast.Tuple) and len(g.target.elts) == 2 and all(isinstance(e, ast.Name) for e in g.target.elts) and not g.ifs:
            first, second = g.target.elts[0].id, g.target.elts[1].id
            if q.is_call(g.iter, "enumerate") and len(g.iter.args) == 1 and a_.vararg and q.dotted(g.iter.args[0]) == a_.vararg.arg:
                ok = q.dotted(dc.key) == second and q.dotted(dc.value) == first  # {f: i for i, f in enumerate(args)}
            elif isinstance(g.iter, ast.Call) and isinstance(g.iter.func, ast.Attribute) and g.iter.func.attr == "items" and a_.kwarg and q.dotted(g.iter.func.value) == a_.kwarg.arg:
                ok = q.dotted(dc.key) == second and q.dotted(dc.value) == first  # {f: k for k, f in kwargs.items()}
        ck.ob("C36.waititer", init, st, ok, "the index table maps each input future to its own position (enumerate(args), from 0) or keyword (kwargs.items())")
    # registration: one callback per *distinct* input (the index table is keyed by future)
    loops = [nd for nd in init.cfg.stmt_nodes(lambda nd: nd.kind == "for") if isinstance(nd.ast.target, ast.Name)]
    regs = []
    for nd in loops:
        for y in [y for s_ in nd.ast.body for y in ast.walk(s_)]:
            if isinstance(y, ast.Call) and q.call_attr(y) in ("future_add_done_callback", "add_done_callback") and any(q.dotted(a) == "self._done_callback" for a in y.args):
                regs.append((nd, y))
    ck.floor("C36.waititer", len(regs), 1, "callback registrations in WaitIterator.__init__")
    keyed = [s for s in q.stores_to(init.node, UNF) if isinstance(getattr(s, "value", None), ast.DictComp)]
    from .c34 import _leaves_loop
    for nd, y in regs:
        it = nd.ast.iter
        x = nd.ast.target.id
        on = q.dotted(y.args[0]) if q.call_attr(y) == "future_add_done_callback" else q.receiver(y)
        ck.ob("C36.waititer", init, y, on == x, "the callback is registered on the loop element")
        ck.ob("C36.waititer", init, nd.ast.iter, not _leaves_loop(nd.ast), "the registration loop visits every input")
        body_guard = [t for t in ast.walk(nd.ast) if isinstance(t, ast.Compare) and len(t.ops) == 1 and isinstance(t.ops[0], ast.NotIn) and q.dotted(t.left) == x]
        distinct = (q.dotted(it) == UNF or method_call_on(it, UNF, "keys") or q.is_call(it, "set", "frozenset") or (isinstance(it, ast.Call) and q.dotted(it.func) == "dict.fromkeys") or bool(body_guard))
        if distinct:
            ck.ob("C36.waititer-distinct", init, it, True, "each distinct input is listened to once")
            continue
        src = q.dotted(it)
        srcs = [s for s in q.stores_to(init.node, src)] if src else []
        plain = src is not None and srcs and all(isinstance(s, (ast.Assign, ast.AnnAssign)) and (q.dotted(s.value) in init.params() or (q.is_call(s.value, "list") and s.value.args and isinstance(s.value.args[0], ast.Call) and q.call_attr(s.value.args[0]) == "values")) for s in srcs)
        if not (plain and len(keyed) >= 1 and len(keyed) == len(q.stores_to(init.node, UNF))):
            raise AnalysisError("%s: registration loop / index table in an unrecognised shape" % init.site(it))
        ck.ob("C36.waititer-distinct", init, it, False,
              "each distinct input must be listened to once: the index table %s is keyed by future (one entry per distinct input, consumed per delivery) but the callback is registered once per occurrence in %s" % (UNF, src),
              construct="for v0 in %s: register(v0) vs index keyed by future" % src)


def _last_def(ck, rel, name):
    m = ck.repo.module(rel)
    keys = [k for k in m.funcs if k == name or k.startswith(name + "#")]
    if not keys:
        raise AnalysisError("function %s not found in %s" % (name, rel))
    return ck.use(m.funcs[sorted(keys, key=lambda k: int(k.split("#")[1]) if "#" in k else 1)[-1]])


def _in_last(rel, name, edit):
    def find(tree):
        defs = [n for n in tree.body if isinstance(n, q.FuncNode) and n.name == name]
        return edit(defs[-1]) if defs else False
    return lambda repo: mutate(repo, rel, None, find)


def check_helpers(ck):
    """concurrent.py helpers every combinator relies on."""
    for name, meth in (("future_set_result_unless_cancelled", "set_result"), ("future_set_exception_unless_cancelled", "set_exception")):
        fi = ck.func(C, name)
        fp, vp = fi.params()[0], fi.params()[1]
        sets_ = own_find(fi, lambda x: method_call_on(x, fp, meth))
        sc = node_counts(fi, lambda x: any(x is c for _, c in sets_))
        canf = "%s.cancelled()" % fp

        def edge(nd, kind, v, canf=canf):
            k, can = v
            if nd.kind == "test" and kind in ("true", "false"):
                t, pol = canon_fact(nd.ast, kind == "true")
                if t == canf:
                    can = pol
            return (k, can)

        normal, _ = exit_states(fi.cfg, (0, None), lambda nd, v, sc=sc: (min(2, v[0] + sc.get(nd.id, 0)), v[1]), edge_transfer=edge, follow_exc=False)
        for _f, (k, can) in normal:
            if can is None:
                ck.ob("C36.helpers", fi, fi.node, False, "%s decides by future.cancelled() whether to settle" % name, construct="exit without cancelled() test settles=%d" % k)
                continue
            ck.ob("C36.helpers", fi, fi.node, k == (0 if can else 1), "%s settles the future exactly when it is not cancelled (cancelled=%s settles=%d)" % (name, can, k), construct="exit cancelled=%s settles=%d" % (can, k))
        for _n, c in sets_:
            ck.ob("C36.helpers", fi, c, len(c.args) == 1 and q.dotted(c.args[0]) == vp, "%s passes its value on unchanged" % name)
    ei = ck.func(C, "future_set_exc_info")
    fp, ip = ei.params()[0], ei.params()[1]
    cs = [c for c in own_walk(ei.node) if q.is_call(c, "future_set_exception_unless_cancelled")]
    ok = len(cs) == 1 and q.dotted(cs[0].args[0]) == fp and isinstance(cs[0].args[1], ast.Subscript) and q.dotted(cs[0].args[1].value) == ip and q.is_const(cs[0].args[1].slice, 1)
    ck.ob("C36.helpers", ei, ei.node, ok, "future_set_exc_info stores exc_info[1] (the exception instance) through the cancellation-aware setter", construct="exc_info forwarding")
    ad = _last_def(ck, C, "future_add_done_callback")  # defined three times: two @overload stubs, then the implementation
    fp, cp = ad.params()[0], ad.params()[1]
    direct = own_find(ad, lambda x: isinstance(x, ast.Call) and q.dotted(x.func) == cp)
    reg = own_find(ad, lambda x: method_call_on(x, fp, "add_done_callback"))
    dc, rc = node_counts(ad, lambda x: any(x is c for _, c in direct)), node_counts(ad, lambda x: any(x is c for _, c in reg))
    normal, _ = exit_states(ad.cfg, (0, 0), lambda nd, v: (min(2, v[0] + dc.get(nd.id, 0)), min(2, v[1] + rc.get(nd.id, 0))), follow_exc=False)
    for _f, (d, r) in normal:
        ck.ob("C36.helpers", ad, ad.node, d + r == 1, "future_add_done_callback either calls back at once or registers, exactly once (called=%d registered=%d)" % (d, r), construct="exit called=%d registered=%d" % (d, r))
    fa = must_facts(ad.cfg)
    for nd, c in direct:
        ck.ob("C36.helpers", ad, c, holds(fa[nd.id], "%s.done()" % fp, True) and len(c.args) == 1 and q.dotted(c.args[0]) == fp, "the immediate call happens only for a finished future, with that future")
    for nd, c in reg:
        ck.ob("C36.helpers", ad, c, len(c.args) == 1 and q.dotted(c.args[0]) == cp, "the caller's callback is what gets registered")


def check_error_callback(ck, wt):
    nested = {nf.name: nf for nf in ck.repo.nested(wt) if nf.parent is wt}
    n = 0
    for nf in nested.values():
        n += check_outcome_reads(ck, "C36.cancel-aware", ck.use(nf))
    ck.floor("C36.cancel-aware", n, 1, "outcome reads in with_timeout's callbacks")


def run(ck):
    ck._orig_repo = getattr(ck, "_orig_repo", None) or ck.repo
    ck.repo = normalized(ck.repo, NORM_MODULES, only=('tornado/gen.py', 'tornado/concurrent.py'))  # alias / named-boolean / temporary / setter-helper normalisation (vt/x_syncnorm.py)
    ck.rule("C36.cancel-aware", "a .result()/.exception() on a future the callback did not create is under a handler for CancelledError/BaseException, under `not F.cancelled()`, or after an earlier read that returned (else a cancelled input raises out of the callback and the output is never settled)")
    ck.rule("C36.settle", "every settle of an output future is under `not F.done()` or on a future created in the same function")
    ck.rule("C36.chain", "chain_future registers copy once on the source; copy settles/cancels the target exactly once unless it was done, with the source's own result/exception; an explicit cancelled path acts on the target")
    ck.rule("C36.multi", "multi_future: fresh output; settled by itself only for empty input; callback removes its child, settles the output only after the last child, and then always leaves it done")
    ck.rule("C36.multi-listen", "each distinct child is listened to exactly once (seen-set guard inside the loop over all children, which visits every element)")
    ck.rule("C36.multi-order", "results are read from the ordered child list, appended in order; dict outputs zip list(children.keys()) with the result list")
    ck.rule("C36.waititer", "WaitIterator: finished inputs queued/delivered FIFO; one of deliver/queue per finished input; _return_result chains, consumes one index entry, takes-and-clears the running future; next() installs a fresh running future")
    ck.rule("C36.none-test", "optional values with legal falsy values (an exception object returned by exception(), the key list of a dict input) are compared with None by identity, never by truthiness")
    ck.rule("C36.waititer-distinct", "WaitIterator registers its callback once per distinct input (the index table has one entry per distinct input)")
    ck.rule("C36.helpers", "the concurrent.py primitives the combinators rely on: *_unless_cancelled settle exactly when not cancelled; future_set_exc_info forwards exc_info[1]; future_add_done_callback calls at once only for a finished future, otherwise registers, exactly once")
    ck.rule("C36.with-timeout", "with_timeout chains input->result once, arms one timer with the timeout; the timer callback fails only a pending result, with TimeoutError")

    check_chain(ck)
    check_helpers(ck)
    check_multi(ck)
    check_wait_iterator(ck)
    wt, _src, _res = check_with_timeout(ck, R="C36.with-timeout", RS="C36.settle")
    check_error_callback(ck, wt)
    cf = ck.func(C, "chain_future")
    n = sum(check_none_tests(ck, "C36.none-test", ck.use(nf)) for nf in ck.repo.nested(cf) if nf.parent is cf)
    ck.floor("C36.none-test", n, 1, "None tests on the source's exception() in chain_future.copy")
    mf = ck.func(G, "multi_future")
    n = check_none_tests(ck, "C36.none-test", mf) + sum(check_none_tests(ck, "C36.none-test", ck.use(nf)) for nf in ck.repo.nested(mf) if nf.parent is mf and isinstance(nf.node, q.FuncNode))
    ck.floor("C36.none-test", n, 2, "None tests on the key list in multi_future")


# ---------------------------------------------------------------------------


def _in(rel, qn, edit):
    return lambda repo: mutate(repo, rel, qn, edit)


def _drop_early_return(root):
    """remove `if b.done(): return`"""
    for node in ast.walk(root):
        body = getattr(node, "body", None)
        if isinstance(body, list):
            for i, st in enumerate(body):
                if isinstance(st, ast.If) and "done()" in ast.unparse(st.test) and len(st.body) == 1 and isinstance(st.body[0], ast.Return) and len(body) > 1:
                    del body[i]
                    return True
    return False


def _narrow_cancel_handler(root):
    for h in ast.walk(root):
        if isinstance(h, ast.ExceptHandler) and handler_catches_cancel(h):
            h.type = ast.Name(id="Exception", ctx=ast.Load())
            return True
    return False


MUTANTS = [
    ("WaitIterator._return_result copies the outcome by hand with done.exception() (seeded C36-adv5)", _in(G, "WaitIterator._return_result", replace_stmt(lambda st: isinstance(st, ast.Expr) and "chain_future" in ast.unparse(st), lambda st: [parse_stmt("exc = done.exception()"), parse_stmt("if exc is not None:\n    self._running_future.set_exception(exc)\nelse:\n    self._running_future.set_result(done.result())")])), "C36.cancel-aware"),
    ("WaitIterator delivers into a cancelled next() future (`is not None` only; seeded C36-adv4)", _in(G, "WaitIterator._done_callback", replace_expr(lambda n: isinstance(n, ast.BoolOp), lambda n: parse_expr("self._running_future is not None"))), "C36.waititer"),
    ("multi fills the unfinished set while registering (seeded C36-adv2)", _in(G, "multi_future", lambda root: _merge_sets(root)), "C36.multi"),
    ("WaitIterator.done() ignores inputs that finished but were not yet delivered", _in(G, "WaitIterator.done", replace_expr(lambda n: isinstance(n, ast.BoolOp) and isinstance(n.op, ast.Or), lambda n: n.values[1])), "C36.waititer"),
    ("WaitIterator numbers positional inputs from 1", _in(G, "WaitIterator.__init__", replace_expr(lambda n: q.is_call(n, "enumerate"), lambda n: ast.Call(func=n.func, args=n.args + [ast.Constant(value=1)], keywords=[]))), "C36.waititer"),
    ("future_set_result_unless_cancelled skips finished-but-not-cancelled... tests done() instead of cancelled()", _in(C, "future_set_result_unless_cancelled", _rename_attr("cancelled", "done")), "C36.helpers"),
    ("future_add_done_callback registers even when it already called back", _in_last(C, "future_add_done_callback", lambda root: _drop_else(root)), "C36.helpers"),
    ("future_set_exc_info stores the exception class instead of the instance", _in(C, "future_set_exc_info", replace_expr(lambda n: isinstance(n, ast.Subscript) and isinstance(n.slice, ast.Constant) and n.slice.value == 1 and isinstance(n.ctx, ast.Load), lambda n: ast.Subscript(value=n.value, slice=ast.Constant(value=0), ctx=ast.Load()), limit=2)), "C36.helpers"),
    ("copy tests the source's exception by truthiness (`if a_exc:`, seeded C36-adv1)", _in(C, "chain_future.<locals>.copy", replace_expr(lambda n: isinstance(n, ast.Compare) and isinstance(n.ops[0], ast.IsNot) and isinstance(n.left, ast.Name), lambda n: n.left)), "C36.none-test"),
    ("multi of an empty dict resolves to a list (`if keys:` in the callback/empty path)", _in(G, "multi_future", replace_expr(lambda n: isinstance(n, ast.Compare) and isinstance(n.ops[0], ast.IsNot) and ast.unparse(n.left) == "keys", lambda n: n.left, limit=3)), "C36.none-test"),
    ("copy overwrites a finished target (done() guard removed)", _in(C, "chain_future.<locals>.copy", _drop_early_return), ("C36.settle", "C36.chain")),
    ("copy forgets to copy a plain result", _in(C, "chain_future.<locals>.copy", replace_stmt(lambda st: isinstance(st, ast.Expr) and "set_result" in ast.unparse(st), lambda st: [ast.Pass()])), "C36.chain"),
    ("copy settles the source instead of the target", _in(C, "chain_future.<locals>.copy", replace_expr(lambda n: isinstance(n, ast.Call) and isinstance(n.func, ast.Attribute) and n.func.attr == "set_exception", lambda n: ast.Call(func=ast.Attribute(value=ast.Name(id="a", ctx=ast.Load()), attr="set_exception", ctx=ast.Load()), args=n.args, keywords=[]))), ("C36.chain", "C36.settle")),
    ("chain_future listens on the target", _in(C, "chain_future", replace_expr(lambda n: q.is_call(n, "future_add_done_callback"), lambda n: ast.Call(func=n.func, args=[ast.Name(id="b", ctx=ast.Load()), n.args[1]], keywords=[]))), "C36.chain"),
    ("multi listens to duplicates twice (seen-set guard removed)", _in(G, "multi_future", replace_expr(lambda n: isinstance(n, ast.Compare) and isinstance(n.ops[0], ast.NotIn), lambda n: ast.Constant(value=True))), "C36.multi-listen"),
    ("(after the F29 fix) WaitIterator registers per occurrence again", _in(G, "WaitIterator.__init__", lambda root: _iterate_plain(root)), "C36.waititer-distinct"),
    ("multi never listens (seen-set guard inverted)", _in(G, "multi_future", replace_expr(lambda n: isinstance(n, ast.Compare) and isinstance(n.ops[0], ast.NotIn), lambda n: ast.Compare(left=n.left, ops=[ast.In()], comparators=n.comparators))), "C36.multi-listen"),
    ("multi listens only to the first child (break after registering)", _in(G, "multi_future", replace_stmt(lambda st: isinstance(st, ast.Expr) and "future_add_done_callback" in ast.unparse(st), lambda st: [st, ast.Break()])), "C36.multi-listen"),
    ("multi reads results from the set (arbitrary order)", _in(G, "multi_future.<locals>.callback", replace_expr(lambda n: isinstance(n, ast.Name) and n.id == "children_futs" and isinstance(n.ctx, ast.Load), lambda n: ast.Name(id="listening", ctx=ast.Load()))), "C36.multi-order"),
    ("multi settles on the first finished child", _in(G, "multi_future.<locals>.callback", replace_expr(lambda n: isinstance(n, ast.UnaryOp) and isinstance(n.op, ast.Not) and q.dotted(n.operand) == "unfinished_children", lambda n: ast.Constant(value=True))), "C36.multi"),
    ("multi overwrites an already failed output (final done() guard removed)", _in(G, "multi_future.<locals>.callback", replace_expr(lambda n: isinstance(n, ast.UnaryOp) and isinstance(n.op, ast.Not) and "future.done()" in ast.unparse(n), lambda n: ast.Constant(value=True))), ("C36.settle", "C36.multi")),
    ("multi stops at the first failing child (break in handler)", _in(G, "multi_future.<locals>.callback", replace_stmt(lambda st: isinstance(st, ast.Expr) and "future_set_exc_info" in ast.unparse(st), lambda st: [st, ast.Break()])), "C36.multi-order"),
    ("(after the F22b fix) multi's handler narrowed back to Exception", _in(G, "multi_future.<locals>.callback", _narrow_cancel_handler), "C36.cancel-aware"),
    ("(after the F22a fix) copy's CancelledError handler narrowed back to Exception", _in(C, "chain_future.<locals>.copy", _narrow_cancel_handler), "C36.cancel-aware"),
    ("(after the F22a fix) copy loses its cancelled() branch again", _in(C, "chain_future.<locals>.copy", replace_stmt(lambda st: isinstance(st, ast.If) and ast.unparse(st.test).endswith(".cancelled()") and st.orelse, lambda st: st.orelse)), "C36.cancel-aware"),
    ("(after the F22a fix) copy drops the cancelled() branch's action", _in(C, "chain_future.<locals>.copy", replace_stmt(lambda st: isinstance(st, ast.Expr) and "b.cancel()" in ast.unparse(st), lambda st: [ast.Pass()])), "C36.chain"),
    ("with_timeout's error callback lets CancelledError escape", _in(G, "with_timeout.<locals>.error_callback", _narrow_cancel_handler), "C36.cancel-aware"),
    ("with_timeout fails an already finished result (guard removed)", _in(G, "with_timeout.<locals>.timeout_callback", _drop_done_test), ("C36.settle", "C36.with-timeout")),
    ("with_timeout does not chain the input", _in(G, "with_timeout", remove_stmts(lambda st: isinstance(st, ast.Expr) and "chain_future" in ast.unparse(st))), "C36.with-timeout"),
    ("WaitIterator delivers the newest finished input first (pop)", _in(G, "WaitIterator.next", _rename_attr("popleft", "pop")), "C36.waititer"),
    ("WaitIterator clears the running future before chaining", _in(G, "WaitIterator._return_result", lambda root: _move_clear_first(root)), "C36.waititer"),
    ("WaitIterator delivers into a finished running future", _in(G, "WaitIterator._done_callback", replace_expr(lambda n: isinstance(n, ast.BoolOp), lambda n: n.values[0])), "C36.waititer"),
    ("WaitIterator keeps the index entry (get instead of pop)", _in(G, "WaitIterator._return_result", _rename_attr("pop", "get")), "C36.waititer"),
]


def _move_clear_first(root):
    body = root.body
    for i, st in enumerate(body):
        if isinstance(st, ast.Assign) and "_running_future" in ast.unparse(st.targets[0]) and isinstance(st.value, ast.Constant) and st.value.value is None:
            for j, s2 in enumerate(body):
                if isinstance(s2, ast.Expr) and "chain_future" in ast.unparse(s2):
                    if j < i:
                        body.insert(j, body.pop(i))
                        # keep the alias assignment valid: res must still be taken; move it too
                        return True
    return False



def _drop_else(root):
    for st in root.body:
        if isinstance(st, ast.If) and st.orelse:
            i = root.body.index(st)
            root.body[i + 1:i + 1] = st.orelse
            st.orelse = []
            return True
    return False


def _iterate_plain(root):
    for n in ast.walk(root):
        if isinstance(n, ast.For) and "_done_callback" in ast.unparse(n) and ast.unparse(n.iter) != "futures":
            n.iter = ast.Name(id="futures", ctx=ast.Load())
            return True
    return False


def _merge_sets(root):
    ok = False
    for st in root.body:
        if isinstance(st, ast.Assign) and "unfinished_children" in ast.unparse(st.targets[0]) and "set(" in ast.unparse(st.value):
            st.value = parse_expr("set()")
            ok = True
    if not ok:
        return False
    for n in ast.walk(root):
        if isinstance(n, ast.Name) and n.id == "listening":
            n.id = "unfinished_children"
    root.body = [st for st in root.body if not (isinstance(st, (ast.Assign, ast.AnnAssign)) and ast.unparse(st).startswith("unfinished_children: set"))]
    return True
