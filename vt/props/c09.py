"""C09 - HTTP client completes each fetch once, honours max_clients, redirects safely.

Decided statically (DESIGN.md section 4, C09):

* admission: who may write ``active``; every admission store is guarded by a
  capacity test that *implies* ``len(active) < max_clients`` (evaluated by
  folding over a finite domain); the queue is FIFO (append/popleft only);
  enqueue happens before the queue is processed; a release frees the slot and
  re-processes the queue; a queue timeout can never be admitted later;
* exactly-once: ``final_callback`` / ``release_callback`` are only used through
  take-and-clear, the slot is released on every completion, ``fetch``'s future
  is settled once per response and only through ``*_unless_cancelled``;
* redirect tables: followed statuses, ``max_redirects > 0`` and ``- 1``, method
  rewrite condition and the content headers removed with it;
* credential stripping: the cross-origin test is true whenever scheme, host or
  port differ (folded over a URL domain), and on that branch auth fields are
  cleared, userinfo is removed from the URL and each of Authorization/Cookie is
  deleted by an operation that cannot fail silently (links to the header
  multimap's ``__delitem__``).

Not decided: the schedules themselves (N concurrent fetches, timer/response
interleavings), fairness as observed on the wire.
"""
from __future__ import annotations

import ast
from typing import Dict, List, Optional, Set, Tuple

from .. import q
from ..cfg import explore, FactDB
from ..rules import call_sites, node_calls, node_assigns, event_facts, settle_sites, is_none
from ..mutate import mutate, remove_stmts, replace_expr, replace_stmt, parse_stmt, parse_expr
from ..model import AnalysisError
from ..x_guardflow import ClassEffects, guard_facts, has, fold_conj_partial, expand_expr, edge_facts

TECHNIQUE = "guard-dominance dataflow with write summaries, take-and-clear lint, finite-domain folding of redirect/cross-origin predicates"
EXPLANATION = (
    "SimpleAsyncHTTPClient admission state (active/queue/waiting): who-may-write, capacity guard implied at every admission "
    "(folded over len(active) x max_clients), FIFO operations, enqueue-before-process, release re-processes; _HTTPConnection "
    "completion callbacks through take-and-clear on the CFG; AsyncHTTPClient.fetch settles once per response; redirect status/"
    "method tables and the cross-origin predicate evaluated exhaustively over finite domains; credential stripping on the "
    "cross-origin branch incl. the KeyError discipline of HTTPHeaders.__delitem__."
)
NOT_DECIDED = "behaviour under concrete schedules of N concurrent fetches (interleavings of connects, timeouts, responses); submission-order fairness as observed; that the server-visible request bytes equal the rewritten request"
LEVEL_NOTE = "structural necessary conditions on the anchored mechanisms; callbacks handed to the IOLoop are assumed to run once per scheduling"

SH = "tornado/simple_httpclient.py"
HC = "tornado/httpclient.py"
HU = "tornado/httputil.py"
CLIENT = "SimpleAsyncHTTPClient"
CONN = "_HTTPConnection"

# private functions of today's client modules the rules anchor on; helpers introduced by a refactoring are inlined
KEEP_CLIENT = {
    "_connection_class", "_create_connection", "_get_ssl_options", "_handle_exception", "_handle_request", "_on_end_request", "_on_timeout",
    "_process_queue", "_release", "_release_fetch", "_remove_timeout", "_run_callback", "_should_follow_redirect", "_write_body", "_async_clients",
}
REDIRECT_CODES = {301, 302, 303, 307, 308}
METHODS = ["GET", "HEAD", "POST", "PUT", "DELETE", "PATCH", "OPTIONS"]
CONTENT_HEADERS = {"content-length", "content-type", "content-encoding", "transfer-encoding"}
CREDENTIAL_HEADERS = {"authorization", "cookie"}


# ---------------------------------------------------------------------------
# admission


def _capacity_implied(facts, repo=None, fi=None) -> bool:
    """The facts known at the site imply len(self.active) < self.max_clients
    (checked for every (len, max) in a small grid by constant folding; calls of
    small same-class helpers in a fact are inlined first)."""
    rel = []
    for (t, p) in facts:
        if t.startswith("@"):
            continue
        e = ast.parse(t, mode="eval").body
        if repo is not None and fi is not None and any(isinstance(x, ast.Call) for x in ast.walk(e)):
            e = expand_expr(repo, fi, e, locals_too=False)
        t2 = q.unparse(e)
        if {"self.active", "self.max_clients"} <= q.paths_in(e):
            rel.append((t2, p))
    if not rel:
        return False
    for a in range(0, 6):
        for m in range(0, 6):
            env = {"self.active": tuple(range(a)), "self.max_clients": m}
            allhold = True
            used = 0
            for t, p in rel:
                try:
                    v = bool(q.fold(ast.parse(t, mode="eval").body, env))
                except q.NotFoldable:
                    continue
                used += 1
                if v != p:
                    allhold = False
                    break
            if used == 0:
                return False
            if allhold and not a < m:
                return False
    return True


def _soft_floor(ck, rule, count, minimum, what):
    """Instance floor that does not mask a violation already recorded for the
    rule (a site in a forbidden shape is a finding, not anchor drift)."""
    if count < minimum and not any(v.rule == rule for v in ck.violations):
        ck.floor(rule, count, minimum, what)


def _first_param(fi) -> str:
    ps = [p for p in fi.params() if p != "self"]
    if not ps:
        raise AnalysisError("%s has no key parameter" % fi.qualname)
    return ps[0]


def admission(ck):
    repo = ck.repo
    eff = ClassEffects(repo, [(SH, CLIENT)])
    methods = repo.methods(SH, CLIENT)
    pq = ck.func(SH, CLIENT + "._process_queue")
    rel = ck.func(SH, CLIENT + "._release_fetch")
    fimpl = ck.func(SH, CLIENT + ".fetch_impl")
    ont = ck.func(SH, CLIENT + "._on_timeout")
    init = ck.func(SH, CLIENT + ".initialize")

    # -- who may write `active`; every admission is capacity-guarded
    n_store = n_del = 0
    for fi in methods:
        gf = None
        for st in q.stores_to(fi.node, "self.active[]"):
            if isinstance(st, ast.Delete):
                n_del += 1
                ck.ob("C09.active-writers", fi, st, fi is rel, "a slot is freed only by the release callback (_release_fetch)")
                continue
            n_store += 1
            if gf is None:
                gf = guard_facts(fi, eff)
            nodes = fi.cfg.nodes_for(st)
            ck.need(nodes, "admission store in %s is unreachable" % fi.qualname)
            ok = all(_capacity_implied(gf[n.id], repo, fi) for n in nodes)
            if not ok and fi is not pq:
                # helper extraction: accept when every call site of the helper is guarded
                sites = [(cf, c) for cf in methods for c in q.calls(cf.node) if q.is_call(c, "self." + fi.name)]
                if sites:
                    ok = True
                    for cf, c in sites:
                        cgf = guard_facts(cf, eff)
                        if not all(_capacity_implied(cgf[n.id], repo, cf) for n in cf.cfg.nodes_for(c)):
                            ok = False
            ck.ob("C09.admit-guard", fi, st, ok, "self.active[k] = ... only where the guards imply len(self.active) < self.max_clients")
        for st in q.stores_to(fi.node, "self.active"):
            ck.ob("C09.active-writers", fi, st, fi is init, "the active table is (re)bound only in initialize")
        for c in q.calls(fi.node):
            if q.receiver(c) == "self.active" and q.call_attr(c) == "pop":
                n_del += 1
                ck.ob("C09.active-writers", fi, c, fi is rel, "a slot is freed only by the release callback (_release_fetch)")
            elif q.receiver(c) == "self.active" and q.call_attr(c) in ("popitem", "clear", "update", "setdefault", "__setitem__", "__delitem__"):
                ck.ob("C09.active-writers", fi, c, False, "self.active is modified only by the admission store and the release delete")
    ck.floor("C09.admit-guard", n_store, 1, "admission stores (self.active[k] = ...)")
    ck.floor("C09.active-writers", n_del, 1, "release deletes (del self.active[k])")

    # connections are started only from the admission loop, after being counted
    starts = [(fi, c) for fi in methods for c in q.calls(fi.node) if q.is_call(c, "self._handle_request")]
    ck.floor("C09.active-writers", len(starts), 1, "_handle_request call sites")
    for fi, c in starts:
        ef = event_facts(fi, {"counted": lambda n: n.kind == "stmt" and isinstance(n.ast, ast.Assign) and "self.active[]" in q.assigned_paths(n.ast)}, cond_facts=False)
        ok = all(("@counted", True) in ef[n.id] for n in fi.cfg.nodes_for(c))
        ck.ob("C09.active-writers", fi, c, ok, "a connection is started only after the request was entered into self.active on every path (admission store, itself capacity-guarded)")

    # -- FIFO
    n_app = n_pop = 0
    for fi in methods:
        for c in q.calls(fi.node):
            if q.receiver(c) != "self.queue":
                continue
            a = q.call_attr(c)
            if a == "append":
                n_app += 1
                ck.ob("C09.fifo", fi, c, True, "requests are enqueued at the tail")
            elif a == "popleft":
                n_pop += 1
                admits = bool(q.stores_to(fi.node, "self.active[]")) or any(q.receiver(c2) == "self" and "self.active" in (eff.writes(q.call_attr(c2)) or ()) for c2 in q.calls(fi.node))
                ck.ob("C09.fifo", fi, c, admits, "the head of the queue is taken only by the admission loop (elsewhere it would drop a request that is not the caller's)")
            elif a == "remove":
                ck.ob("C09.fifo", fi, c, fi is ont, "an entry is removed out of order only by its queue timeout")
            elif a in ("pop", "appendleft", "insert", "rotate", "reverse", "extendleft", "sort"):
                ck.ob("C09.fifo", fi, c, False, "queue operation %s() breaks submission order" % a)
            elif a in ("clear", "extend", "copy", "count", "index"):
                raise AnalysisError("unmodelled queue operation self.queue.%s() in %s" % (a, fi.qualname))
    _soft_floor(ck, "C09.fifo", n_app, 1, "queue.append sites")
    _soft_floor(ck, "C09.fifo", n_pop, 1, "queue.popleft sites")
    for fi in methods:
        for n in q.walk_body(fi.node):
            if isinstance(n, ast.Subscript) and q.dotted(n.value) == "self.queue":
                raise AnalysisError("unmodelled indexed access to self.queue in %s" % fi.qualname)
    qinit = [st for st in q.stores_to(init.node, "self.queue")]
    ck.need(qinit, "self.queue is not initialised in initialize")
    for st in qinit:
        v = getattr(st, "value", None)
        ck.ob("C09.fifo", init, st, isinstance(v, ast.Call) and (q.dotted(v.func) or "").endswith("deque") and not v.args, "the request queue is an (initially empty) deque")

    # -- enqueue (queue + waiting) strictly before the queue is processed
    procs = fimpl.cfg.stmt_nodes(node_calls("self._process_queue"))
    efp = event_facts(fimpl, {"proc": node_calls("self._process_queue")}, cond_facts=False)
    ck.ob("C09.enqueue-before-process", fimpl, fimpl.node, ("@proc", True) in efp[fimpl.cfg.exit.id], "fetch_impl processes the queue on every path (a submitted request is started as soon as a slot is free)", construct="fetch_impl calls _process_queue on every path")
    ef = event_facts(
        fimpl,
        {"queued": node_calls("self.queue.append"), "waiting": lambda n: n.kind == "stmt" and isinstance(n.ast, ast.Assign) and "self.waiting[]" in q.assigned_paths(n.ast)},
        cond_facts=False,
    )
    for n in procs:
        ck.ob("C09.enqueue-before-process", fimpl, n.ast, ("@queued", True) in ef[n.id], "the request is appended to the queue before _process_queue runs")
        ck.ob("C09.enqueue-before-process", fimpl, n.ast, ("@waiting", True) in ef[n.id], "the request is entered into self.waiting before _process_queue runs (entries not in waiting are skipped)")
    # fetch_impl admits nothing itself
    ck.ob("C09.enqueue-before-process", fimpl, fimpl.node, not q.find_calls(fimpl.node, "self._handle_request"), "fetch_impl starts no connection itself", construct="fetch_impl calls _handle_request")

    # -- release: delete the slot of *this* key, then re-process
    key = _first_param(rel)
    def frees(n):
        if n.kind != "stmt":
            return False
        if isinstance(n.ast, ast.Delete) and "self.active[]" in q.assigned_paths(n.ast):
            return True
        return any(q.is_call(c, "self.active.pop") for c in q.calls(n.ast))

    dels = [n for n in rel.cfg.stmt_nodes(frees)]
    ck.floor("C09.release", len(dels), 1, "del self.active[key] in _release_fetch")
    for n in dels:
        if isinstance(n.ast, ast.Delete):
            t = n.ast.targets[0]
            kk = q.dotted(t.slice) if isinstance(t, ast.Subscript) else None
        else:
            cs = [c for c in q.calls(n.ast) if q.is_call(c, "self.active.pop")]
            kk = q.dotted(cs[0].args[0]) if cs and cs[0].args else None
        ck.ob("C09.release", rel, n.ast, kk == key, "the freed slot is the one of the released key (%s)" % key)
    bad = _not_followed(rel, lambda n: n in dels, node_calls("self._process_queue"))
    for n in dels:
        ck.ob("C09.release", rel, n.ast, n.id not in bad, "after freeing a slot the queue is processed again on every path")
    ef = event_facts(rel, {"freed": lambda n: n in dels}, cond_facts=False)
    for n in rel.cfg.stmt_nodes(node_calls("self._process_queue")):
        ck.ob("C09.release", rel, n.ast, ("@freed", True) in ef[n.id], "the slot is freed before the queue is processed")

    # the release callback handed to the connection frees the admitted key
    for afi in methods:
        for n in afi.cfg.stmt_nodes(lambda n: n.kind == "stmt" and isinstance(n.ast, ast.Assign) and "self.active[]" in q.assigned_paths(n.ast)):
            sub = n.ast.targets[0]
            k = q.dotted(sub.slice) if isinstance(sub, ast.Subscript) else None
            parts = [c for c in q.calls(afi.node) if q.call_attr(c) == "partial" and c.args and q.dotted(c.args[0]) == "self." + rel.name]
            ok = bool(k) and bool(parts) and all(len(c.args) == 2 and q.dotted(c.args[1]) == k for c in parts)
            # the same closure written as a lambda / local function
            lams = [x for x in ast.walk(afi.node) if isinstance(x, ast.Lambda) and q.is_call(x.body, "self." + rel.name)]
            if not parts and lams:
                ok = bool(k) and all(len(x.body.args) == 1 and q.dotted(x.body.args[0]) == k for x in lams)
                parts = lams
            if not parts:
                raise AnalysisError("cannot see how %s is bound to the admitted key in %s" % (rel.name, afi.qualname))
            ck.ob("C09.release", afi, n.ast, ok, "the release callback is bound to the admitted key")
            # and it is what _handle_request receives
            names = set()
            for st in q.walk_body(afi.node):
                if isinstance(st, ast.Assign) and st.value in parts:
                    names |= {p for p in q.assigned_paths(st)}
            hr = q.find_calls(afi.node, "self._handle_request")
            ck.ob("C09.release", afi, n.ast, bool(hr) and all(any(q.dotted(a) in names or a in parts for a in list(c.args) + [k_.value for k_ in c.keywords]) for c in hr), "the bound release callback is passed to _handle_request")

    # -- queue timeout: a timed-out request can never be admitted later
    tkey = _first_param(ont)
    ef = event_facts(
        ont,
        {
            "unq": node_calls("self.queue.remove"),
            "unw": lambda n: (n.kind == "stmt" and isinstance(n.ast, ast.Delete) and "self.waiting[]" in q.assigned_paths(n.ast)) or node_calls("self.waiting.pop")(n),
        },
        cond_facts=False,
    )
    ex = ef[ont.cfg.exit.id]
    d3 = ("@unq", True) in ex
    # ... and what is removed is the entry of *this* key
    for c in q.find_calls(ont.node, "self.queue.remove"):
        a0 = c.args[0] if c.args else None
        a0 = a0 if not isinstance(a0, ast.Name) else next((st_.value for st_ in q.stores_to(ont.node, a0.id) if isinstance(st_, ast.Assign)), a0)
        ok_key = isinstance(a0, ast.Tuple) and a0.elts and q.dotted(a0.elts[0]) == tkey
        ck.ob("C09.timeout-dequeues", ont, c, ok_key, "the queue timeout removes the entry of the request that timed out (key %s), not another request's" % tkey)
    d1 = ("@unw", True) in ex
    # D2: admission is conditional on membership in waiting
    gfq = guard_facts(pq, eff)
    d2 = True
    found = False
    for n in pq.cfg.stmt_nodes(lambda n: n.kind == "stmt" and isinstance(n.ast, ast.Assign) and "self.active[]" in q.assigned_paths(n.ast)):
        found = True
        # the membership fact is established before anything removes the entry again
        first = [m for m in pq.cfg.stmt_nodes(node_calls("self._remove_timeout"))] or [n]
        for m in first:
            facts = gfq[m.id]
            if not any(p and t.endswith(" in self.waiting") for (t, p) in facts):
                d2 = False
    d2 = d2 and found
    ck.ob("C09.timeout-dequeues", ont, ont.node, d3 or (d1 and d2), "a request that timed out in the queue is removed from the queue, or removed from waiting with admission skipping entries not in waiting",
          construct="queue.remove=%s waiting.del=%s admission-checks-waiting=%s" % (d3, d1, d2))
    cbs = [c for c in q.calls(ont.node) if q.call_attr(c) in ("add_callback", "call_soon", "spawn_callback")]
    ck.floor("C09.timeout-dequeues", len(cbs), 1, "callback scheduling in _on_timeout")
    ck.note("queue timeout key parameter: %s" % tkey)


def _not_followed(fi, start, end) -> Set[int]:
    """ids of start nodes from which some normal-exit path avoids every end node."""
    cfg = fi.cfg

    def transfer(n, val):
        if n.kind in ("exit", "rexit"):
            return val
        if val and end(n):
            val = frozenset()
        if start(n):
            val = val | {n.id}
        return val

    seen = explore(cfg, frozenset(), transfer, lambda t: False)
    bad: Set[int] = set()
    for _f, val in seen.get(cfg.exit.id, ()):
        bad |= set(val)
    return bad


# ---------------------------------------------------------------------------
# exactly-once completion


def take_and_clear(ck, rule: str, rel: str, cls: str, attr: str) -> Dict[str, list]:
    from ..x_iostream import take_and_clear as _tac

    return _tac(ck, rule, ck.repo.direct_methods(rel, cls), attr)


def completion(ck):
    takes = take_and_clear(ck, "C09.final-callback-tac", SH, CONN, "final_callback")
    _soft_floor(ck, "C09.final-callback-tac", sum(len(v) for v in takes.values()), 2, "takes of self.final_callback")
    rtakes = take_and_clear(ck, "C09.release-callback-tac", SH, CONN, "release_callback")
    _soft_floor(ck, "C09.release-callback-tac", sum(len(v) for v in rtakes.values()), 1, "takes of self.release_callback")

    # the slot is released on every path that takes the final callback
    for qn, sts in sorted(takes.items()):
        fi = ck.func(SH, qn)
        is_rel = lambda n: node_calls("self._release")(n) or (n.kind == "stmt" and isinstance(n.ast, ast.Assign) and q.dotted(n.ast.value) == "self.release_callback")
        ef = event_facts(fi, {"rel": is_rel}, cond_facts=False)
        for st in sts:
            nodes = fi.cfg.nodes_for(st)
            before = all(("@rel", True) in ef[n.id] for n in nodes)
            ids = {n.id for n in nodes}
            bad = _not_followed(fi, lambda n: n.id in ids, is_rel)
            ck.ob("C09.release-on-complete", fi, st, before or not bad, "the client slot is released (self._release()) on every path on which the final callback is taken")

    # the slot is given back only at completion points (functions that take the final callback)
    n_rel = 0
    for f in ck.repo.direct_methods(SH, CONN):
        for c in q.find_calls(f.node, "self._release"):
            n_rel += 1
            ck.ob("C09.release-on-complete", f, c, f.qualname in takes, "self._release() is called only where the fetch completes (or is handed to the redirected fetch); releasing earlier lets more than max_clients requests be in progress")
    if n_rel == 0 and not any(qn_ in rtakes for qn_ in takes):
        ck.floor("C09.release-on-complete", n_rel, 1, "_release call sites")
    # every way a request can end reaches the completion callback
    run_ = ck.func(SH, CONN + ".run")
    body = [st for st in run_.node.body if not (isinstance(st, ast.Expr) and isinstance(st.value, ast.Constant))]
    ok = len(body) == 1 and isinstance(body[0], ast.Try)
    hs = [h for h in body[0].handlers if q.exc_is_caught("Exception", q.handler_names(h))] if ok else []
    ck.ob("C09.error-completes", run_, run_.node, bool(hs), "the whole of run() is inside try/except Exception (any failure while connecting/sending completes the fetch)", construct="run() body wrapped in try/except Exception")
    for h in hs[:1]:
        calls = q.find_calls(h, "self._handle_exception")
        first = h.body[0] if h.body else None
        ck.ob("C09.error-completes", run_, h, bool(calls) and first is not None and any(c is x for c in calls for x in ast.walk(first)), "the handler hands the exception to _handle_exception before anything else")
    hexc = ck.func(SH, CONN + "._handle_exception")
    rcs = hexc.cfg.stmt_nodes(node_calls("self._run_callback"))
    ck.floor("C09.error-completes", len(rcs), 1, "_run_callback calls in _handle_exception")
    from ..cfg import canon_fact
    n_b = 0
    hgf = guard_facts(hexc, ClassEffects(ck.repo, [(SH, CONN)]))
    for t in hexc.cfg.stmt_nodes(lambda n: n.kind == "test"):
        for kind in ("true", "false"):
            if ("self.final_callback is None", False) in edge_facts(t, kind, hgf):
                for sid, k in hexc.cfg.succ[t.id]:
                    if k == kind:
                        n_b += 1
                        b = hexc.cfg.nodes[sid]
                        ck.ob("C09.error-completes", hexc, t.ast, any(hexc.cfg.postdominates(r, b) or r.id == b.id for r in rcs), "while the final callback is pending, _handle_exception always reaches _run_callback")
    ck.floor("C09.error-completes", n_b, 1, "pending-callback branches in _handle_exception")
    for qn in (CONN + "._on_timeout", CONN + ".on_connection_close"):
        f = ck.func(SH, qn)
        gf = guard_facts(f, ClassEffects(ck.repo, [(SH, CONN)]))
        hs_ = f.cfg.stmt_nodes(node_calls("self._handle_exception"))
        if not hs_:
            # through another method of the connection?
            others = [c_ for c_ in q.calls(f.node) if q.receiver(c_) == "self" and ck.repo.has_func(SH, CONN + "." + (q.call_attr(c_) or ""))]
            if any(q.find_calls(ck.repo.func(SH, CONN + "." + q.call_attr(c_)).node, "self._handle_exception") for c_ in others):
                hs_ = [True]
            elif others:
                raise AnalysisError("%s does not call _handle_exception itself; the methods it calls are not followed further" % qn)
        ck.ob("C09.error-completes", f, f.node, len(hs_) >= 1, "%s reports through _handle_exception" % qn, construct="%s calls _handle_exception" % qn)
    fin = ck.func(SH, CONN + ".finish")

    def done_tr(n, val):
        if node_calls("self._run_callback")(n) or any(q.call_attr(c) == "fetch" and (q.receiver(c) or "").endswith("client") for c in (q.calls(n.ast) if n.kind == "stmt" and n.ast is not None else ())):
            return True
        return val

    seen = explore(fin.cfg, False, done_tr, lambda t: False, follow_exc=False)
    states = seen.get(fin.cfg.exit.id, set())
    ck.need(states, "finish() has no normal exit")
    for _f, v in sorted(states, key=repr):
        ck.ob("C09.error-completes", fin, fin.node, v is True, "every normal path through finish() completes the fetch (_run_callback) or hands it to the redirected fetch", construct="finish() exit completed=%s" % v)

    # the client passes its own callbacks to the connection in the expected roles
    hr = ck.func(SH, CLIENT + "._handle_request")
    init = ck.func(SH, CONN + ".__init__")
    ps = init.params()
    ctor = [c for c in q.calls(hr.node) if isinstance(c.func, ast.Call) and q.dotted(c.func.func) == "self._connection_class"]
    ck.floor("C09.release-callback-tac", len(ctor), 1, "connection constructor calls in _handle_request")
    hps = hr.params()
    for c in ctor:
        ok = True
        for role in ("release_callback", "final_callback"):
            if role not in ps or role not in hps:
                raise AnalysisError("parameter %s missing from _HTTPConnection.__init__/_handle_request" % role)
            idx = ps.index(role) - 1
            a = q.arg(c, idx, role)
            ok = ok and a is not None and q.dotted(a) == role
        ck.ob("C09.release-callback-tac", hr, c, ok, "_handle_request hands release_callback / final_callback to the connection in their own positions")
    for role in ("release_callback", "final_callback"):
        st = q.stores_to(init.node, "self." + role)
        ck.ob("C09.release-callback-tac", init, st[0] if st else init.node, len(st) == 1 and q.dotted(getattr(st[0], "value", None)) == role, "__init__ stores %s once" % role)

    # fetch(): one settle per response, only through *_unless_cancelled
    fetch = ck.func(HC, "AsyncHTTPClient.fetch")
    hresp = None
    rets = [n for n in q.walk_body(fetch.node) if isinstance(n, ast.Return) and n.value is not None]
    fut = q.dotted(rets[-1].value) if rets else None
    ck.need(fut, "fetch does not return a future variable")
    for c in q.find_calls(fetch.node, "self.fetch_impl"):
        if len(c.args) < 2:
            continue
        h = c.args[1]
        if isinstance(h, ast.Name):
            nm = h.id
            if ck.repo.has_func(HC, "AsyncHTTPClient.fetch.<locals>." + nm):
                hresp = ck.func(HC, "AsyncHTTPClient.fetch.<locals>." + nm)
        elif isinstance(h, ast.Call) and q.call_attr(h) == "partial" and h.args:
            # the closure became functools.partial(<function>, future, ...): the handler is that function and its
            # parameter bound to the returned future plays the closure variable's role
            f0 = h.args[0]
            cand = None
            if isinstance(f0, ast.Name) and ck.repo.has_func(HC, f0.id):
                cand, skip = ck.func(HC, f0.id), 0
            elif isinstance(f0, ast.Attribute) and q.dotted(f0.value) in ("self", "cls") and ck.repo.has_func(HC, "AsyncHTTPClient." + f0.attr):
                cand, skip = ck.func(HC, "AsyncHTTPClient." + f0.attr), 1
            if cand is not None:
                ps_ = cand.params()[skip:]
                bound = dict(zip(ps_, h.args[1:]))
                bound.update({k_.arg: k_.value for k_ in h.keywords if k_.arg})
                inner = [p_ for p_, v_ in bound.items() if q.dotted(v_) == fut]
                if len(inner) == 1:
                    hresp, fut = cand, inner[0]
    ck.need(hresp is not None, "fetch does not pass a recognisable response handler to fetch_impl")
    ss = settle_sites(hresp)
    ck.floor("C09.fetch-settle", len(ss), 2, "settle sites in the response handler")
    for node, c, p, kind in ss:
        ck.ob("C09.fetch-settle", hresp, c, kind == "safe" and p == fut, "fetch's future (%s) is settled only through *_unless_cancelled" % fut)
    ids: Dict[int, int] = {}
    for node, c, p, kind in ss:
        ids[node.id] = ids.get(node.id, 0) + 1

    def tr(n, val):
        return min(val + ids.get(n.id, 0), 2)

    seen = explore(hresp.cfg, 0, tr, lambda t: False, follow_exc=False)
    for _f, cnt in sorted(seen.get(hresp.cfg.exit.id, ()), key=repr):
        ck.ob("C09.fetch-settle", hresp, hresp.node, cnt == 1, "every path through the response handler settles the future exactly once (count=%d)" % cnt, construct="settles on a normal path = %d" % cnt)


# ---------------------------------------------------------------------------
# redirects


def _new_request_name(fin) -> Tuple[str, ast.Call]:
    cs = [c for c in q.calls(fin.node) if q.call_attr(c) == "fetch" and (q.receiver(c) or "").endswith("client")]
    a0 = None
    if len(cs) == 1:
        a0 = cs[0].args[0] if cs[0].args else q.kwarg(cs[0], "request")
    if len(cs) != 1 or not isinstance(a0, ast.Name):
        raise AnalysisError("cannot identify the redirected fetch in %s" % fin.qualname)
    return a0.id, cs[0]


def _enclosing_if(pm, node, fn) -> Optional[ast.If]:
    child = node
    for a in q.ancestors(pm, node):
        if a is fn:
            return None
        if isinstance(a, ast.If) and any(child is s for s in a.body):
            return a
        child = a
    return None


def _branch_of(pm, node, fn):
    """(innermost If, statements of the branch holding ``node``, condition of reaching it): the condition is the
    conjunction of the tests of all enclosing ifs with the polarity of the branch taken (else branch = negation)."""
    chain: List[ast.AST] = []
    inner = None
    child = node
    for a in q.ancestors(pm, node):
        if a is fn:
            break
        if isinstance(a, ast.If):
            if any(child is s_ for s_ in a.body):
                chain.append(a.test)
                inner = inner or (a, a.body)
            elif any(child is s_ for s_ in a.orelse):
                chain.append(ast.UnaryOp(op=ast.Not(), operand=a.test))
                inner = inner or (a, a.orelse)
        child = a
    if inner is None:
        return None, None, None
    chain.reverse()
    cond = chain[0] if len(chain) == 1 else ast.BoolOp(op=ast.And(), values=chain)
    return inner[0], inner[1], ast.fix_missing_locations(cond)


def fold3(e: ast.AST, env, relevant=(), flags=None) -> Optional[bool]:
    """three-valued folding: True / False / None (some operand cannot be evaluated).  An atom that cannot be
    evaluated although it mentions one of the ``relevant`` paths means the condition is not understood."""
    if isinstance(e, ast.BoolOp):
        vals = [fold3(v, env, relevant, flags) for v in e.values]
        if isinstance(e.op, ast.And):
            return False if any(v is False for v in vals) else (True if all(v is True for v in vals) else None)
        return True if any(v is True for v in vals) else (False if all(v is False for v in vals) else None)
    if isinstance(e, ast.UnaryOp) and isinstance(e.op, ast.Not):
        v = fold3(e.operand, env, relevant, flags)
        return None if v is None else (not v)
    if isinstance(e, ast.Name) and e.id.startswith("__flag") and flags is not None and e.id in flags.flags:
        v = flags.value(e.id, env, relevant)
        if v is None:
            raise AnalysisError("cannot determine the value of flag %s for %s" % (flags.flags[e.id][0], sorted(env.items(), key=repr)[:3]))
        return v
    try:
        return bool(q.fold(e, env))
    except q.NotFoldable as ex:
        if any(r in q.paths_in(e) for r in relevant):
            raise AnalysisError("cannot evaluate %s (%s)" % (q.unparse(e)[:100], ex))
        return None


class FlagEval:
    """Boolean *flag locals* (``flag = False`` ... ``if a: flag = True`` ... ``if flag:``): the value a flag has at
    the test that reads it is computed per concrete environment by exploring the function's CFG with every branch
    whose condition folds under that environment decided (no code is run)."""

    def __init__(self, repo, fi):
        self.repo = repo
        self.fi = fi
        self.flags: Dict[str, Tuple[str, object]] = {}
        self._tests: Dict[int, ast.AST] = {}

    def flag_locals(self) -> Set[str]:
        out = set()
        for name in q.local_names(self.fi.node):
            sts = q.stores_to(self.fi.node, name)
            if len(sts) >= 2 and all(isinstance(s_, (ast.Assign, ast.AnnAssign)) and isinstance(getattr(s_, "value", None), ast.Constant) and isinstance(s_.value.value, bool) for s_ in sts):
                out.add(name)
        return out

    def mark(self, cond: ast.AST) -> ast.AST:
        """copy of ``cond`` in which reads of flag locals are replaced by marker names"""
        import copy

        fl = self.flag_locals()
        me = self

        class T(ast.NodeTransformer):
            def visit_Name(self, node):
                if node.id in fl and isinstance(node.ctx, ast.Load):
                    tn = [n for n in me.fi.cfg.stmt_nodes(lambda n: n.kind == "test" and n.ast is node)]
                    if tn:
                        key = "__flag%d" % len(me.flags)
                        me.flags[key] = (node.id, tn[0])
                        return ast.copy_location(ast.Name(id=key, ctx=ast.Load()), node)
                return node

        # transform without deep-copying first (identity of the Name nodes matters), on a shallow rebuilt tree
        def rebuild(e):
            if isinstance(e, ast.BoolOp):
                return ast.BoolOp(op=e.op, values=[rebuild(v) for v in e.values])
            if isinstance(e, ast.UnaryOp) and isinstance(e.op, ast.Not):
                return ast.UnaryOp(op=e.op, operand=rebuild(e.operand))
            if isinstance(e, ast.Name):
                return T().visit_Name(e)
            return e

        return ast.fix_missing_locations(rebuild(cond))

    def value(self, key: str, env, relevant) -> Optional[bool]:
        name, tnode = self.flags[key]
        cfg = self.fi.cfg
        stores = {n.id: n.ast.value.value for n in cfg.stmt_nodes(lambda n: n.kind == "stmt" and isinstance(n.ast, (ast.Assign, ast.AnnAssign)) and q.assigned_paths(n.ast) == {name})}

        def tr(n, val):
            return stores[n.id] if n.id in stores else val

        def edge(n, kind, val):
            if n.kind == "test" and kind in ("true", "false"):
                if n.id not in self._tests:
                    self._tests[n.id] = expand_expr(self.repo, self.fi, n.ast, locals_too=False)
                try:
                    g = bool(q.fold(self._tests[n.id], env))
                except q.NotFoldable:
                    return val
                if g != (kind == "true"):
                    return "dead"
            return val

        def tr2(n, val):
            return None if val == "dead" else tr(n, val)

        seen = explore(cfg, "unset", tr2, lambda t: False, edge_transfer=edge, follow_exc=False)
        vals = {v for _f, v in seen.get(tnode.id, ()) if v != "dead"}
        if vals == {True}:
            return True
        if vals == {False}:
            return False
        return None


def _resolve_test(fn, e: ast.AST) -> ast.AST:
    if isinstance(e, ast.Name):
        st = [s for s in q.stores_to(fn, e.id)]
        if len(st) == 1 and isinstance(st[0], ast.Assign):
            return st[0].value
    return e


def _const_list(e: ast.AST) -> Optional[List[str]]:
    if isinstance(e, (ast.List, ast.Tuple, ast.Set)) and all(isinstance(x, ast.Constant) and isinstance(x.value, str) for x in e.elts):
        return [x.value for x in e.elts]
    return None


def _handler_benign(h: ast.ExceptHandler) -> bool:
    return all(isinstance(s, (ast.Pass, ast.Continue)) or (isinstance(s, ast.Expr) and isinstance(s.value, ast.Constant)) for s in h.body)


def _callee(mod, clsname: Optional[str], call: ast.Call):
    """same-module function / same-class method a call refers to (or None)"""
    f = call.func
    if isinstance(f, ast.Name) and f.id in mod.funcs:
        return mod.funcs[f.id], False
    if isinstance(f, ast.Attribute) and isinstance(f.value, ast.Name) and f.value.id in ("self", "cls") and clsname and ("%s.%s" % (clsname, f.attr)) in mod.funcs:
        return mod.funcs["%s.%s" % (clsname, f.attr)], True
    return None, False


def header_deletions(stmts, hdrs_path: str, bound: Optional[Dict[str, List[str]]] = None, mod=None, clsname: Optional[str] = None, depth: int = 2) -> List[Tuple[str, ast.AST, bool]]:
    """(lower-cased header name, node, swallowed) for deletions that happen on
    every normal pass through ``stmts``: ``del H[c]``, ``H.pop(c, d)``, the same
    as first statement of ``try/except KeyError: pass``, or in a ``for`` over a
    literal list.  ``swallowed``: a KeyError of the deletion is caught."""
    bound = bound or {}
    out: List[Tuple[str, ast.AST, bool]] = []

    def names_of(e) -> Optional[List[str]]:
        if isinstance(e, ast.Constant) and isinstance(e.value, str):
            return [e.value]
        if isinstance(e, ast.Name) and e.id in bound:
            return bound[e.id]
        return None

    for st in stmts:
        if isinstance(st, ast.Delete):
            for t in st.targets:
                if isinstance(t, ast.Subscript) and q.dotted(t.value) == hdrs_path:
                    for nm in names_of(t.slice) or []:
                        out.append((nm.lower(), st, False))
        elif isinstance(st, ast.Expr) and isinstance(st.value, ast.Call) and q.call_attr(st.value) == "pop" and q.receiver(st.value) == hdrs_path and st.value.args:
            for nm in names_of(st.value.args[0]) or []:
                out.append((nm.lower(), st, len(st.value.args) >= 2))
        elif isinstance(st, ast.Try) and not st.finalbody:
            catches = any(q.exc_is_caught("KeyError", q.handler_names(h)) for h in st.handlers)
            benign = all(_handler_benign(h) for h in st.handlers)
            if catches and benign:
                # only the first deletion is certain to be attempted
                inner = header_deletions(st.body[:1], hdrs_path, bound, mod, clsname, depth)
                out.extend((nm, n, True) for nm, n, _ in inner)
        elif isinstance(st, ast.If) and not st.orelse and isinstance(st.test, ast.Compare) and len(st.test.ops) == 1 and isinstance(st.test.ops[0], ast.In) and q.dotted(st.test.comparators[0]) == hdrs_path:
            # `if name in H: del H[name]`  -  deletes exactly when present, cannot fail
            tested = names_of(st.test.left)
            inner = header_deletions(st.body, hdrs_path, bound, mod, clsname, depth)
            for nm, n, _sw in inner:
                if tested is not None and nm in {t_.lower() for t_ in tested}:
                    out.append((nm, n, False))
        elif isinstance(st, (ast.With, ast.AsyncWith)) and len(st.items) == 1 and q.is_call(st.items[0].context_expr, "contextlib.suppress", "suppress") and any((q.dotted(a) or "") in ("KeyError", "LookupError", "Exception") for a in st.items[0].context_expr.args):
            inner = header_deletions(st.body[:1], hdrs_path, bound, mod, clsname, depth)
            out.extend((nm, n, True) for nm, n, _ in inner)
        elif isinstance(st, ast.For) and isinstance(st.target, ast.Name) and not st.orelse:
            vals = _const_list(st.iter)
            if vals is None and isinstance(st.iter, ast.Name) and st.iter.id in bound:
                vals = bound[st.iter.id]
            if vals is None and mod is not None:
                # a module / class level constant or a local bound once to a literal
                it_ = st.iter
                cand = None
                if isinstance(it_, ast.Name) and it_.id in mod.assigns:
                    cand = mod.assigns[it_.id]
                elif isinstance(it_, ast.Attribute) and isinstance(it_.value, ast.Name) and it_.value.id in ("self", "cls") and clsname in mod.classes:
                    for cs_ in mod.classes[clsname].body:
                        if isinstance(cs_, ast.Assign) and any(isinstance(t_, ast.Name) and t_.id == it_.attr for t_ in cs_.targets):
                            cand = cs_.value
                if isinstance(cand, ast.Call) and q.dotted(cand.func) in ("frozenset", "set", "tuple", "list") and len(cand.args) == 1:
                    cand = cand.args[0]
                vals = _const_list(cand) if cand is not None else None
            if vals is None and any(q.dotted(x) == hdrs_path for s_ in st.body for x in ast.walk(s_)):
                raise AnalysisError("header names iterated in %s cannot be resolved to literals" % q.unparse(st.iter)[:60])
            if vals is not None and not any(isinstance(x, (ast.Break, ast.Return)) for s in st.body for x in ast.walk(s)):
                b2 = dict(bound)
                b2[st.target.id] = vals
                out.extend(header_deletions(st.body, hdrs_path, b2, mod, clsname, depth))
        elif isinstance(st, ast.Expr) and isinstance(st.value, ast.Call) and any(q.dotted(a) == hdrs_path for a in list(st.value.args) + [k.value for k in st.value.keywords]):
            # the header object is handed to a helper: follow a same-module function / same-class method
            call = st.value
            h, is_method = _callee(mod, clsname, call) if mod is not None else (None, False)
            if h is None or depth <= 0 or any(isinstance(a, ast.Starred) for a in call.args):
                raise AnalysisError("headers are handed to %s(), which cannot be followed" % q.unparse(call.func))
            a = h.node.args
            params = [x.arg for x in a.posonlyargs + a.args]
            if is_method and params and params[0] in ("self", "cls"):
                params = params[1:]
            binding = dict(zip(params, call.args))
            for k in call.keywords:
                if k.arg:
                    binding[k.arg] = k.value
            inner_hdrs = [p for p, v in binding.items() if q.dotted(v) == hdrs_path]
            if len(inner_hdrs) != 1:
                raise AnalysisError("cannot bind the headers argument of %s()" % q.unparse(call.func))
            b2: Dict[str, List[str]] = {}
            for p, v in binding.items():
                vals = _const_list(v)
                if vals is None and isinstance(v, ast.Constant) and isinstance(v.value, str):
                    vals = [v.value]
                if vals is None and isinstance(v, ast.Name) and v.id in bound:
                    vals = bound[v.id]
                if vals is not None:
                    b2[p] = vals
            body = [x for x in h.node.body if not (isinstance(x, ast.Expr) and isinstance(x.value, ast.Constant))]
            inner = header_deletions(body, inner_hdrs[0], b2, mod, clsname, depth - 1)
            out.extend((nm, st, sw) for nm, _n, sw in inner)
        elif any(q.dotted(x) == hdrs_path for x in ast.walk(st)) and not isinstance(st, (ast.Assert,)):
            before = len(out)
            # a statement that touches the headers in a shape that is not understood: the rule cannot claim absence
            if isinstance(st, (ast.If, ast.For, ast.While, ast.Try, ast.With, ast.AsyncWith, ast.Expr, ast.Delete, ast.Assign, ast.AugAssign)):
                raise AnalysisError("unrecognised operation on %s: %s" % (hdrs_path, q.unparse(st).split("\n")[0][:80]))
    return out


def _url_domain():
    for s in ("http", "https"):
        for h in ("a.example", "b.example"):
            for p in (None, 8080):
                yield (s, h, p)


def redirects(ck):
    fin = ck.func(SH, CONN + ".finish")
    sfr = ck.func(SH, CONN + "._should_follow_redirect")
    fn = fin.node
    pm = q.parent_map(fn)
    for c_ in q.calls(fin.node):
        if q.call_attr(c_) == "fetch" and (q.receiver(c_) or "").endswith("client") and c_.args and (q.dotted(c_.args[0]) or "").startswith("self."):
            # the request handed to the redirected fetch is (an attribute of) the current request object itself
            ck.rule("C09.strip-order", "headers and url of the redirected request are not re-assigned after the cross-origin decision, which precedes the new fetch")
            ck.ob("C09.strip-order", fin, c_, False, "the redirected request is a copy of the current one (its url/headers are edited while the original URL is still needed for the cross-origin decision); here %s itself is re-used" % q.dotted(c_.args[0]))
    nr, fetch_call = _new_request_name(fin)
    hdrs = nr + ".headers"

    # -- which responses are followed
    rets = [n for n in q.walk_body(sfr.node) if isinstance(n, ast.Return) and n.value is not None and not isinstance(n.value, ast.Constant)]
    ck.floor("C09.redirect-follow-table", len(rets), 1, "non-constant returns in _should_follow_redirect")
    # `return E` yields E; `return v` of a result variable that is only bound by plain `v = E` assignments yields every
    # non-constant E, where it is assigned (single exit with a result variable instead of early returns)
    yields = []
    for r in rets:
        if isinstance(r.value, ast.Name):
            sts = q.stores_to(sfr.node, r.value.id)
            if len(sts) > 1 and all(isinstance(s_, ast.Assign) and len(s_.targets) == 1 and isinstance(s_.targets[0], ast.Name) and not any(isinstance(x, ast.Name) and x.id == r.value.id for x in ast.walk(s_.value)) for s_ in sts):
                yields.extend((s_, s_.value) for s_ in sts if not isinstance(s_.value, ast.Constant))
                continue
        yields.append((r, r.value))
    ck.floor("C09.redirect-follow-table", len(yields), 1, "non-constant results of _should_follow_redirect")
    for r, rval in yields:
        rv = expand_expr(ck.repo, sfr, rval)
        codes = set()
        folded = 0
        for c in range(100, 600):
            v, k = fold_conj_partial(rv, {"self.code": c})
            folded = max(folded, k)
            if v:
                codes.add(c)
        ck.need(folded >= 1, "no conjunct of the follow predicate tests self.code")
        ck.ob("C09.redirect-follow-table", sfr, r, codes == REDIRECT_CODES, "followed statuses are exactly 301, 302, 303, 307, 308 (found %s)" % sorted(codes))
        mr_paths = sorted({d for x in ast.walk(rv) for d in [q.dotted(x)] if d and d.endswith(".max_redirects")})
        ck.need(mr_paths, "the follow predicate does not test max_redirects")
        allowed = set()
        for k in range(-2, 6):
            env = {p: k for p in mr_paths}
            env["self.code"] = 302
            v, _ = fold_conj_partial(rv, env)
            if v:
                allowed.add(k)
        ck.ob("C09.redirect-follow-table", sfr, r, allowed == {1, 2, 3, 4, 5}, "a redirect is followed only while max_redirects > 0 (true for %s of -2..5)" % sorted(allowed))
        # the predicate is only reached when follow_redirects is set
        gf = guard_facts(sfr)
        for n in sfr.cfg.nodes_for(r):
            ck.ob("C09.redirect-follow-table", sfr, r, has(gf[n.id], "self.request.follow_redirects", True), "redirects are followed only when request.follow_redirects is set")
    # finish() takes the redirect path only under that predicate
    reads = {"self." + x.attr for x in q.walk_body(sfr.node) if isinstance(x, ast.Attribute) and q.dotted(x.value) == "self"}
    pred_text = "self.%s()" % sfr.name

    ceff = ClassEffects(ck.repo, [(SH, CONN)])

    def pred_kill(n, f):
        # the predicate's value changes when one of the attributes it reads is re-assigned
        if f[0] != pred_text or n.kind != "stmt" or not isinstance(n.ast, ast.stmt):
            return False
        if q.assigned_paths(n.ast) & reads:
            return True
        for c in q.calls(n.ast):
            if q.receiver(c) == "self":
                w = ceff.writes(q.call_attr(c))
                if w is None or w & reads:
                    return True
        return False

    gfin = guard_facts(fin, ceff, extra_kill=pred_kill, pure_calls=("self.%s" % sfr.name,))
    for n in fin.cfg.nodes_for(fetch_call):
        ck.ob("C09.redirect-follow-table", fin, fetch_call, has(gfin[n.id], "self._should_follow_redirect()", True), "the redirected fetch is issued only when _should_follow_redirect() holds")

    # -- the outcome of the redirected fetch always reaches the original caller
    fetch_nodes = fin.cfg.nodes_for(fetch_call)
    fut_names = set()
    for fnode in fetch_nodes:
        if isinstance(fnode.ast, ast.Assign) and fnode.ast.value is fetch_call:
            fut_names |= {p_ for p_ in q.assigned_paths(fnode.ast) if "." not in p_}
    regs = []
    for c in q.calls(fn):
        if q.call_attr(c) == "add_done_callback" and c.args and (q.receiver(c) in fut_names or (isinstance(c.func, ast.Attribute) and c.func.value is fetch_call)):
            regs.append((c, c.args[0]))  # on the named future, or chained directly on the fetch call
        elif q.call_attr(c) in ("future_add_done_callback", "add_future") and len(c.args) >= 2 and (q.dotted(c.args[0]) in fut_names or c.args[0] is fetch_call):
            regs.append((c, c.args[1]))
    if not regs:
        raise AnalysisError("cannot see how the redirected fetch's outcome is handed to the original callback")
    # can the redirected fetch's future hold an exception?  (AsyncHTTPClient.fetch's response handler)
    fetch_fi = ck.func(HC, "AsyncHTTPClient.fetch")
    scope = [fetch_fi.node]
    hmod = ck.repo.module(HC)
    for x in ast.walk(fetch_fi.node):
        nm_ = x.id if isinstance(x, ast.Name) else (x.attr if isinstance(x, ast.Attribute) and q.dotted(x.value) in ("self", "cls") else None)
        if nm_:
            for qn_ in (nm_, "AsyncHTTPClient." + nm_):
                if qn_ in hmod.funcs and hmod.funcs[qn_].node is not fetch_fi.node:
                    scope.append(hmod.funcs[qn_].node)
    may_fail = any(k in ("future_set_exception_unless_cancelled", "set_exception", "future_set_exc_info") for sc in scope for x in ast.walk(sc) if isinstance(x, ast.Call) for k in [q.call_attr(x)])
    for c, cb in regs:
        if isinstance(cb, ast.Lambda):
            prm = cb.args.args[0].arg if cb.args.args else None
            reads = [x for x in ast.walk(cb.body) if isinstance(x, ast.Call) and q.call_attr(x) == "result" and q.receiver(x) == prm]
            ck.ob("C09.redirect-completes", fin, c, not (reads and may_fail),
                  "the callback on the redirected fetch's future hands the outcome to the original final callback in every case; reading f.result() unprotected raises when the redirected hop failed with a non-HTTP error (connection refused, timeout) and the original fetch then never completes",
                  construct="redirected fetch: done-callback reads result() unprotected")
        elif isinstance(cb, ast.Name) and ck.repo.has_func(SH, fin.qualname + ".<locals>." + cb.id):
            cfi = ck.func(SH, fin.qualname + ".<locals>." + cb.id)
            prm = [p_ for p_ in cfi.params()][0] if cfi.params() else None
            cpm = q.parent_map(cfi.node)
            reads = [x for x in q.walk_body(cfi.node) if isinstance(x, ast.Call) and q.call_attr(x) == "result" and q.receiver(x) == prm]
            ok = all(q.protected_by(cpm, x, "Exception") is not None for x in reads) or not may_fail
            ck.ob("C09.redirect-completes", fin, c, ok, "the callback on the redirected fetch's future reads its outcome under a handler for Exception (a failed hop still completes the original fetch); reading f.result() unprotected raises when the hop failed with a non-HTTP error and the original fetch then never completes",
                  construct="redirected fetch: done-callback reads result() unprotected")
        else:
            raise AnalysisError("callback registered on the redirected fetch is neither a lambda nor a local function")

    # -- decrement
    decs = [st for st in q.stores_to(fn, nr + ".max_redirects")]
    ck.floor("C09.redirect-decrement", len(decs), 1, "assignments to %s.max_redirects" % nr)
    for st in decs:
        v = getattr(st, "value", None)
        paths = sorted({d for x in ast.walk(v) for d in [q.dotted(x)] if d and d.endswith(".max_redirects")}) if v is not None else []
        ok = bool(paths)
        for k in range(1, 6):
            try:
                ok = ok and q.fold(v, {p: k for p in paths}) == k - 1
            except q.NotFoldable:
                ok = False
        ck.ob("C09.redirect-decrement", fin, st, ok, "the redirected request carries max_redirects - 1")
    ef = event_facts(fin, {"dec": lambda n: n.kind == "stmt" and n.ast in decs}, cond_facts=False)
    for n in fetch_nodes:
        ck.ob("C09.redirect-decrement", fin, fetch_call, ("@dec", True) in ef[n.id], "max_redirects is decremented on every path before the redirected fetch")

    # -- method rewrite
    rew = [st for st in q.stores_to(fn, nr + ".method") if isinstance(st, ast.Assign) and isinstance(st.value, ast.Constant) and st.value.value == "GET"]
    ck.floor("C09.redirect-method-rewrite", len(rew), 1, "assignments %s.method = 'GET'" % nr)
    sites = []
    flagev = FlagEval(ck.repo, fin)
    for st in rew:
        iff, rew_body, cond = _branch_of(pm, st, fn)
        ck.need(iff is not None, "method rewrite is not under a condition")
        test = expand_expr(ck.repo, fin, flagev.mark(cond))
        if not any(x_ in q.paths_in(test) for x_ in ("self.code", "self.request.method")) and not any(isinstance(x_, ast.Name) and x_.id in flagev.flags for x_ in ast.walk(test)):
            raise AnalysisError("the condition of the method rewrite does not mention the status code / method: %s" % q.unparse(test)[:120])
        sites.append((st, iff, rew_body, test))
    # the rewrite sites together: GET exactly for (303 and not HEAD) or (301/302 and POST)
    detail = []
    for c in sorted(REDIRECT_CODES):
        for m in METHODS:
            # enclosing guards that do not talk about the status/method (the follow decision) are assumed to hold
            got = any(fold3(test, {"self.code": c, "self.request.method": m}, relevant=("self.code", "self.request.method"), flags=flagev) is not False for _st, _iff, _b, test in sites)
            want = (c == 303 and m != "HEAD") or (c in (301, 302) and m == "POST")
            if got != want:
                detail.append("%d/%s" % (c, m))
    ck.ob("C09.redirect-method-rewrite", fin, sites[0][1].test, not detail, "method becomes GET exactly for (303 and not HEAD) or (301/302 and POST)%s" % ((" - differs for " + ",".join(detail[:6])) if detail else ""))
    for st, iff, rew_body, test in sites:
        body_none = [s_ for s_ in rew_body if isinstance(s_, ast.Assign) and nr + ".body" in q.assigned_paths(s_) and is_none(s_.value)]
        ck.ob("C09.redirect-method-rewrite", fin, st, len(body_none) >= 1, "the rewritten request has body None")
        dl = {nm for nm, _n, _s in header_deletions(rew_body, hdrs, None, fin.module, CONN)}
        ck.ob("C09.redirect-method-rewrite", fin, st, CONTENT_HEADERS <= dl, "Content-Length/-Type/-Encoding and Transfer-Encoding are removed with the body (removed: %s)" % sorted(dl))
        # the rewrite happens before the fetch
        ids = {n.id for n in fin.cfg.nodes_for(st)}
        ck.ob("C09.redirect-method-rewrite", fin, st, all(_reaches(fin.cfg, i, {f.id for f in fetch_nodes}) for i in ids) and not any(_reaches(fin.cfg, f.id, ids) for f in fetch_nodes), "the rewrite is applied before the redirected fetch is issued")

    # -- cross-origin predicate
    strip_marks = [st for st in q.stores_to(fn, nr + ".auth_username") if is_none(getattr(st, "value", None))]
    ck.floor("C09.cross-origin-test", len(strip_marks), 1, "%s.auth_username = None" % nr)
    strip_if, strip_body, strip_cond = _branch_of(pm, strip_marks[0], fn)
    ck.need(strip_if is not None, "credential stripping is not under a cross-origin condition")
    test = expand_expr(ck.repo, fin, strip_cond)
    bases: Dict[str, str] = {}
    for x in ast.walk(test):
        if isinstance(x, ast.Attribute) and isinstance(x.value, ast.Name) and x.attr in ("scheme", "netloc", "hostname", "port", "username", "password"):
            bases.setdefault(x.value.id, "")
    if len(bases) == 1:
        ck.ob("C09.cross-origin-test", fin, strip_if.test, False, "the cross-origin test compares the redirect target with the request's URL (it only looks at %s)" % sorted(bases))
        return
    ck.need(len(bases) == 2, "cross-origin test does not compare two parsed URLs (found %s)" % sorted(bases))
    test_nodes = [n for n in fin.cfg.stmt_nodes(lambda n: n.kind == "test" and any(n.ast is x for x in ast.walk(strip_if.test)))]
    ck.need(test_nodes, "cross-origin test not on the CFG")
    doms = fin.cfg.dominators()
    role: Dict[str, str] = {}
    for b in bases:
        src = None
        for st in q.stores_to(fn, b):
            nodes = fin.cfg.nodes_for(st)
            if nodes and all(nodes[0].id in doms[t.id] for t in test_nodes):
                v = getattr(st, "value", None)
                if isinstance(v, ast.Call) and q.call_attr(v) == "urlsplit" and v.args:
                    src = q.dotted(v.args[0])
        ck.need(src, "cannot resolve what %s parses" % b)
        role[b] = src
    new_b = [b for b, s in role.items() if s == nr + ".url"]
    old_b = [b for b, s in role.items() if s != nr + ".url" and s.endswith(".url")]
    ck.ob("C09.cross-origin-test", fin, strip_if.test, len(new_b) == 1 and len(old_b) == 1, "the cross-origin test compares the redirect target URL with the request's URL (parsed: %s)" % role)
    if len(new_b) == 1 and len(old_b) == 1:
        # a parse of the raw Location header inside the condition (`urlsplit(location).scheme and ...`) is modelled:
        # the target is written in every form that reaches it - absolute, scheme-relative (//host/..), path-only
        import copy as _copy

        class _Loc(ast.NodeTransformer):
            hit = False

            def visit_Call(self, node):
                self.generic_visit(node)
                if q.call_attr(node) in ("urlsplit", "urlparse") and node.args and any(isinstance(x, ast.Constant) and x.value == "Location" for x in ast.walk(node.args[0])):
                    _Loc.hit = True
                    return ast.copy_location(ast.Name(id="__loc", ctx=ast.Load()), node)
                return node

        test = ast.fix_missing_locations(_Loc().visit(_copy.deepcopy(test)))
        uses_location = _Loc.hit
        missed = []
        n_eval = 0
        for o in _url_domain():
            for n_ in _url_domain():
              forms = [("absolute", n_[0], True)]
              if uses_location:
                  if n_[0] == o[0]:
                      forms.append(("scheme-relative", "", True))
                  if n_ == o:
                      forms.append(("path-only", "", False))
              for form, loc_scheme, loc_has_netloc in forms:
                env = {}
                if uses_location:
                    env["__loc.scheme"] = loc_scheme
                    env["__loc.netloc"] = (n_[1] if n_[2] is None else "%s:%s" % (n_[1], n_[2])) if loc_has_netloc else ""
                    env["__loc.hostname"] = n_[1] if loc_has_netloc else None
                    env["__loc.port"] = n_[2] if loc_has_netloc else None
                for b, (s, h, p) in ((old_b[0], o), (new_b[0], n_)):
                    env[b + ".scheme"] = s
                    env[b + ".hostname"] = h
                    env[b + ".port"] = p
                    env[b + ".netloc"] = h if p is None else "%s:%s" % (h, p)
                g3 = fold3(test, env, relevant=tuple(env))
                n_eval += g3 is not None
                got = g3 is not False
                if o != n_ and not got:
                    missed.append("%s://%s -> %s://%s%s" % (o[0], env[old_b[0] + ".netloc"], n_[0], env[new_b[0] + ".netloc"], (" (Location written %s)" % form) if uses_location else ""))
        ck.ob("C09.cross-origin-test", fin, strip_if.test, not missed, "the test is true whenever scheme, host or port of the joined redirect target differ from the request's, however the Location header was written (URL pairs folded)%s" % ((" - not for " + "; ".join(missed[:3])) if missed else ""))
        orig_src = role[old_b[0]].rsplit(".", 1)[0]
        ok_orig = False
        for st in q.stores_to(fn, orig_src):
            v = getattr(st, "value", None)
            if isinstance(v, ast.Call) and q.dotted(v.func) == "getattr" and len(v.args) == 3 and isinstance(v.args[1], ast.Constant) and v.args[1].value == "original_request":
                ok_orig = True
        if orig_src in ("self.request",):
            ok_orig = True
        ck.ob("C09.cross-origin-test", fin, strip_if.test, ok_orig, "the reference URL is that of the original request (or of the current hop)")

    # -- what happens on the cross-origin branch
    body = strip_body
    for s_ in body:
        for c in q.calls(s_):
            if any(q.dotted(a) == nr for a in list(c.args) + [k.value for k in c.keywords]) and q.dotted(c.func) not in ("copy.copy",):
                raise AnalysisError("the redirected request is handed to %s() on the cross-origin branch; the stripping cannot be followed there" % q.unparse(c.func))
    for fld in ("auth_username", "auth_password"):
        ok = any(isinstance(s, ast.Assign) and nr + "." + fld in q.assigned_paths(s) and is_none(s.value) for s in body)
        ck.ob("C09.strip-credentials", fin, strip_if.test, ok, "%s.%s is cleared on the cross-origin branch" % (nr, fld), construct="cross-origin branch clears %s" % fld)
    # clearing with None is only effective if the request wrapper does not treat None as "use the client default"
    proxy_get = ck.func(HC, "_RequestProxy.__getattr__")
    pgf = guard_facts(proxy_get)
    fallback = []
    for m in proxy_get.cfg.stmt_nodes(lambda m: m.kind == "stmt" and isinstance(m.ast, ast.Return) and m.ast.value is not None):
        v = m.ast.value
        uses_defaults = any(q.dotted(x) == "self.defaults" for x in ast.walk(v))
        if not uses_defaults:
            continue
        # is this return reached when the request's own attribute is None?
        own = [st.targets[0].id for st in q.walk_body(proxy_get.node) if isinstance(st, ast.Assign) and isinstance(st.targets[0], ast.Name) and q.is_call(st.value, "getattr") and st.value.args and q.dotted(st.value.args[0]) == "self.request"]
        if any(has(pgf[m.id], "%s is None" % o, True) for o in own) or not own:
            fallback.append(m)
    for s_ in body:
        if isinstance(s_, ast.Assign) and is_none(s_.value):
            for fld in ("auth_username", "auth_password"):
                if nr + "." + fld in q.assigned_paths(s_):
                    ck.ob("C09.strip-defaults", fin, s_, not fallback,
                          "clearing %s.%s with None really removes the credential: the request wrapper (_RequestProxy.__getattr__) must not fall back to the client's defaults for an attribute that is None (else default credentials are re-added to the cross-origin request)" % (nr, fld))
    dl = header_deletions(body, hdrs, None, fin.module, CONN)
    names = {nm for nm, _n, _s in dl}
    for h in sorted(CREDENTIAL_HEADERS):
        ck.ob("C09.strip-credentials", fin, strip_if.test, h in names, "the %s header is deleted on every pass through the cross-origin branch" % h.title(), construct="cross-origin branch deletes %s" % h)
    swallowed = any(s for _nm, _n, s in dl)

    # userinfo
    url_sets = [(i, s) for i, s in enumerate(body) if isinstance(s, ast.Assign) and nr + ".url" in q.assigned_paths(s)]
    ok_url = False
    why = "the redirect URL is rebuilt without userinfo on the cross-origin branch"
    for i, s in url_sets:
        v = s.value
        if isinstance(v, ast.Call) and q.call_attr(v) == "urlunsplit" and v.args and isinstance(v.args[0], ast.Name):
            P = v.args[0].id
            for j in range(i):
                t = body[j]
                if isinstance(t, ast.If) and not t.orelse and isinstance(t.test, ast.Compare) and len(t.test.ops) == 1 and isinstance(t.test.ops[0], ast.In) \
                        and q.is_const(t.test.left, "@") and q.dotted(t.test.comparators[0]) == P + ".netloc":
                    last = t.body[-1]
                    if isinstance(last, ast.Assign) and q.assigned_paths(last) == {P} and isinstance(last.value, ast.Call) and q.call_attr(last.value) == "_replace" and q.receiver(last.value) == P:
                        nv = q.kwarg(last.value, "netloc")
                        exprs = [nv] if nv is not None else []
                        if isinstance(nv, ast.Name):
                            exprs = [getattr(a, "value", None) for a in ast.walk(t) if isinstance(a, ast.Assign) and nv.id in q.assigned_paths(a)]
                        used = {x.attr for e in exprs if e is not None for x in ast.walk(e) if isinstance(x, ast.Attribute) and q.dotted(x.value) == P}
                        if exprs and all(e is not None for e in exprs) and used and used <= {"hostname", "port"}:
                            ok_url = True
                        else:
                            why = "the rebuilt netloc must be made of hostname/port only (uses %s)" % sorted(used)
    if not ok_url and why.startswith("the redirect URL") and any(isinstance(x, ast.Call) and q.call_attr(x) == "_replace" for s_ in body for x in ast.walk(s_)):
        raise AnalysisError("cross-origin branch rebuilds the URL in an unrecognised shape (cannot decide userinfo removal)")
    ck.ob("C09.strip-url-userinfo", fin, strip_if.test, ok_url, why, construct="cross-origin branch rebuilds url without userinfo")

    # nothing re-introduces headers / url after the strip
    test_ids = {t.id for t in test_nodes}
    for path_, what in ((hdrs, "headers"), (nr + ".url", "url")):
        for st in q.stores_to(fn, path_):
            if any(st is x for s in body for x in ast.walk(s)):
                continue
            nodes = fin.cfg.nodes_for(st)
            ok = bool(nodes) and all(all(n.id in doms[t] for t in test_ids) for n in nodes)
            ck.ob("C09.strip-order", fin, st, ok, "%s.%s is (re)assigned only before the cross-origin decision" % (nr, what))
    after_decision = _reach(fin.cfg, test_ids, stop=set())
    for n in fin.cfg.stmt_nodes(lambda n: n.kind == "stmt" and n.id in after_decision):
        if any(n.ast is x for s_ in body for x in ast.walk(s_)):
            continue
        adds = [c for c in q.calls(n.ast) if q.receiver(c) == hdrs and q.call_attr(c) in ("update", "add", "setdefault", "parse_line", "__setitem__")]
        sub = isinstance(n.ast, (ast.Assign, ast.AugAssign)) and (hdrs + "[]") in q.assigned_paths(n.ast)
        if adds or sub:
            names = set()
            if sub:
                for t in (n.ast.targets if isinstance(n.ast, ast.Assign) else [n.ast.target]):
                    if isinstance(t, ast.Subscript) and isinstance(t.slice, ast.Constant):
                        names.add(str(t.slice.value).lower())
                    else:
                        names.add("?")
            ok = bool(names) and not adds and "?" not in names and not (names & CREDENTIAL_HEADERS)
            ck.ob("C09.strip-order", fin, n.ast, ok, "after the cross-origin decision no header that may carry credentials is (re)added to the redirected request")
    for fnode in fetch_nodes:
        ck.ob("C09.strip-order", fin, fetch_call, all(_reaches(fin.cfg, t, {fnode.id}) for t in test_ids) and not any(_reaches(fin.cfg, fnode.id, {t}) for t in test_ids), "the cross-origin decision precedes the redirected fetch")
    # the request object handed on is a copy (modifying it must not change the URL the decision is compared with)
    nr_defs = [st for st in q.stores_to(fn, nr)]
    ok_copy = bool(nr_defs) and all(isinstance(getattr(st, "value", None), ast.Call) and (q.dotted(st.value.func) in ("copy.copy", "copy.deepcopy", "copy", "deepcopy", "HTTPRequest", "httpclient.HTTPRequest")) for st in nr_defs)
    ck.ob("C09.strip-order", fin, nr_defs[0] if nr_defs else fn, ok_copy, "the redirected request is a copy of the current one (its url/headers are edited while the original URL is still needed for the cross-origin decision)")
    # the request object handed on is a copy carrying copied headers
    cp = [st for st in q.stores_to(fn, hdrs) if isinstance(getattr(st, "value", None), ast.Call) and q.call_attr(st.value) in ("copy", "HTTPHeaders")]
    ck.ob("C09.strip-order", fin, fn, len(cp) >= 1, "the redirected request gets its own copy of the headers", construct="headers copied for the redirected request")

    # -- a swallowed KeyError must mean 'absent'
    delitem = ck.func(HU, "HTTPHeaders.__delitem__")
    contains = ck.func(HU, "HTTPHeaders.__contains__")
    stores = set()
    for n in q.walk_body(contains.node):
        if isinstance(n, ast.Compare) and len(n.ops) == 1 and isinstance(n.ops[0], ast.In):
            d = q.dotted(n.comparators[0])
            if d and d.startswith("self."):
                stores.add(d)
    ck.need(len(stores) == 1, "cannot derive the authoritative header store from HTTPHeaders.__contains__")
    store = stores.pop()

    def removes(n):
        if n.kind != "stmt":
            return False
        if isinstance(n.ast, ast.Delete) and store + "[]" in q.assigned_paths(n.ast):
            return True
        return any(q.is_call(c, store + ".pop") for c in q.calls(n.ast))

    rem = delitem.cfg.stmt_nodes(removes)
    ck.floor("C09.strip-delete-effective", len(rem), 1, "removals from %s in __delitem__" % store)
    ef = event_facts(delitem, {"removed": removes}, cond_facts=False)
    gf = guard_facts(delitem)
    dpm = q.parent_map(delitem.node)
    n_f = 0
    for n in delitem.cfg.stmt_nodes():
        if removes(n):
            continue
        fallible = []
        if isinstance(n.ast, ast.Delete):
            fallible += [t for t in n.ast.targets if isinstance(t, ast.Subscript) and (q.dotted(t.value) or "").startswith("self.")]
        for x in (q.walk_local(n.ast) if n.ast is not None else ()):
            if isinstance(x, ast.Subscript) and isinstance(x.ctx, ast.Load) and (q.dotted(x.value) or "").startswith("self."):
                fallible.append(x)
        for x in fallible:
            n_f += 1
            d = q.dotted(x.value)
            guarded = q.protected_by(dpm, x, "KeyError") is not None or any(p and t.endswith(" in " + d) for t, p in gf[n.id])
            ok = guarded or ("@removed", True) in ef[n.id]
            ck.ob("C09.strip-delete-effective", delitem, n.ast, ok,
                  "HTTPHeaders.__delitem__ may raise KeyError only for an absent name: nothing that can raise KeyError runs before the name is removed from %s (callers swallow KeyError%s)" % (store, " - finish() does" if swallowed else ""))
    ck.note("KeyError-fallible operations examined in __delitem__: %d" % n_f)


def _reach(cfg, starts: Set[int], stop: Set[int]) -> Set[int]:
    seen = set()
    work = list(starts)
    while work:
        x = work.pop()
        for y, _k in cfg.succ[x]:
            if y not in seen and y not in stop:
                seen.add(y)
                work.append(y)
    return seen


def _reaches(cfg, a: int, targets: Set[int]) -> bool:
    return bool(_reach(cfg, {a}, set()) & targets)


# ---------------------------------------------------------------------------


def run(ck):
    ck.rule("C09.active-writers", "self.active is written only by the admission loop (store) and the release callback (delete); connections are started only by the admission loop after being counted")
    ck.rule("C09.admit-guard", "every admission store self.active[k] = ... is dominated by guards that imply len(self.active) < self.max_clients (no write to active / max_clients in between)")
    ck.rule("C09.fifo", "the request queue is used first-in first-out: append at the tail, popleft at the head, out-of-order removal only by the entry's own queue timeout")
    ck.rule("C09.enqueue-before-process", "fetch_impl enters the request into queue and waiting before processing the queue and starts nothing itself")
    ck.rule("C09.release", "_release_fetch frees the slot of its key and then processes the queue again on every path; the connection receives that release callback")
    ck.rule("C09.timeout-dequeues", "a request whose queue timeout fired cannot be admitted afterwards")
    ck.rule("C09.final-callback-tac", "_HTTPConnection.final_callback is only invoked through take-and-clear (take, set None, then use)")
    ck.rule("C09.release-callback-tac", "_HTTPConnection.release_callback is only invoked through take-and-clear; the client's callbacks arrive in their own roles")
    ck.rule("C09.release-on-complete", "the client slot is released on every path on which the final callback is taken (completion and redirect)")
    ck.rule("C09.error-completes", "every way a request can end reaches the completion callback: run() is wrapped in try/except Exception -> _handle_exception -> _run_callback while pending; timeouts and connection close report through _handle_exception; finish() completes or redirects on every path")
    ck.rule("C09.fetch-settle", "AsyncHTTPClient.fetch's future is settled exactly once per response and only through *_unless_cancelled")
    ck.rule("C09.redirect-follow-table", "a response is followed iff follow_redirects, status in {301,302,303,307,308}, max_redirects > 0 (and a Location is present)")
    ck.rule("C09.redirect-decrement", "the redirected request carries max_redirects - 1, assigned on every path before the new fetch")
    ck.rule("C09.redirect-method-rewrite", "(303 and not HEAD) or (301/302 and POST) becomes a GET with body None and without the four content headers, before the new fetch")
    ck.rule("C09.cross-origin-test", "the credential-stripping branch is taken whenever scheme, host or port of the redirect target differ from the request's")
    ck.rule("C09.strip-credentials", "on the cross-origin branch auth_username/auth_password are cleared and each of Authorization and Cookie is deleted")
    ck.rule("C09.strip-defaults", "credentials cleared with None on the cross-origin branch are not re-supplied from the client's defaults by the request wrapper")
    ck.rule("C09.redirect-completes", "the outcome of a redirected fetch (result or exception) always reaches the original final callback")
    ck.rule("C09.strip-url-userinfo", "on the cross-origin branch the URL is rebuilt from hostname/port only when it carries userinfo")
    ck.rule("C09.strip-order", "headers and url of the redirected request are not re-assigned after the cross-origin decision, which precedes the new fetch")
    ck.rule("C09.strip-delete-effective", "HTTPHeaders.__delitem__ raises KeyError only for absent names (no KeyError-fallible operation before the removal from the authoritative store), so a swallowed KeyError cannot leave a credential header behind")
    from ..x_inline import inline_repo

    ck.repo = inline_repo(ck.repo, [SH, HC], KEEP_CLIENT, join_index=True)
    admission(ck)
    completion(ck)
    redirects(ck)


# ---------------------------------------------------------------------------
# mutants


def _in(rel, qn, edit):
    return lambda repo: mutate(repo, rel, qn, edit)


def _src(n) -> str:
    return ast.unparse(n)


def _drop_capacity_test(root):
    for n in ast.walk(root):
        if isinstance(n, ast.While) and isinstance(n.test, ast.BoolOp):
            n.test = n.test.values[0]
            return True
    return False


def _lt_to_le(root):
    for n in ast.walk(root):
        if isinstance(n, ast.Compare) and "max_clients" in _src(n) and isinstance(n.ops[0], ast.Lt):
            n.ops = [ast.LtE()]
            return True
    return False


def _move_waiting_after_process(root):
    body = root.body
    wi = [i for i, s in enumerate(body) if isinstance(s, ast.Assign) and "self.waiting[" in _src(s.targets[0])]
    pi = [i for i, s in enumerate(body) if isinstance(s, ast.Expr) and "_process_queue" in _src(s)]
    if wi and pi and wi[0] < pi[0]:
        st = body.pop(wi[0])
        body.insert(pi[0], st)
        return True
    return False


def _both_dels_one_try(root):
    for n in ast.walk(root):
        if isinstance(n, ast.For) and _const_list(n.iter) and {x.lower() for x in _const_list(n.iter)} == CREDENTIAL_HEADERS:
            new = ast.parse("try:\n    del new_request.headers['Authorization']\n    del new_request.headers['Cookie']\nexcept KeyError:\n    pass").body[0]
            for p in ast.walk(root):
                for fld in ("body", "orelse"):
                    b = getattr(p, fld, None)
                    if isinstance(b, list) and n in b:
                        b[b.index(n)] = new
                        return True
    return False


def _drop_from_list(name):
    def edit(root):
        for n in ast.walk(root):
            if isinstance(n, ast.For) and _const_list(n.iter) and name in _const_list(n.iter):
                n.iter.elts = [e for e in n.iter.elts if e.value != name]
                return True
        return False

    return edit


def _only_scheme(root):
    for n in ast.walk(root):
        if isinstance(n, ast.If) and isinstance(n.test, ast.BoolOp) and "netloc" in _src(n.test) and "scheme" in _src(n.test):
            n.test = [v for v in n.test.values if "scheme" in _src(v)][0]
            return True
    return False


def _hostname_only(root):
    for n in ast.walk(root):
        if isinstance(n, ast.If) and isinstance(n.test, ast.BoolOp) and "netloc" in _src(n.test) and "scheme" in _src(n.test):
            for x in ast.walk(n.test):
                if isinstance(x, ast.Attribute) and x.attr == "netloc":
                    x.attr = "hostname"
            return True
    return False


def _headers_copy_after_strip(root):
    for n in ast.walk(root):
        b = getattr(n, "body", None)
        if isinstance(b, list):
            ci = [i for i, s in enumerate(b) if isinstance(s, ast.Assign) and "new_request.headers" == _src(s.targets[0])]
            si = [i for i, s in enumerate(b) if isinstance(s, ast.If) and "netloc" in _src(s.test) and "scheme" in _src(s.test)]
            if ci and si and ci[0] < si[0]:
                st = b.pop(ci[0])
                b.insert(si[0], st)
                return True
    return False


def _keep_userinfo(root):
    return remove_stmts(lambda st: isinstance(st, ast.If) and "'@' in" in _src(st.test))(root)


def _timeout_forgets(root):
    a = remove_stmts(lambda st: "self.queue.remove" in _src(st))(root)
    b = remove_stmts(lambda st: isinstance(st, ast.Delete) and "self.waiting" in _src(st))(root)
    return a and b


def _drop_return_after_set_exception(root):
    return remove_stmts(lambda st: isinstance(st, ast.Return) and st.value is None)(root)


def _drop_head_exemption(root):
    for n in ast.walk(root):
        if isinstance(n, ast.BoolOp) and isinstance(n.op, ast.And) and "303" in _src(n) and "HEAD" in _src(n):
            n.values = [v for v in n.values if "HEAD" not in _src(v)] + [ast.Constant(value=True)]
            return True
    return False


def _undo_f1_repair(root):
    # back to: del self._combined_cache[k]; del self._as_list[k]
    root.body = [s for s in root.body if not (isinstance(s, (ast.Delete, ast.Expr)) and ("_combined_cache" in _src(s) or "_as_list" in _src(s)))]
    root.body.append(parse_stmt("del self._combined_cache[norm_name]"))
    root.body.append(parse_stmt("del self._as_list[norm_name]"))
    return True


def _origin_helper_without_scheme(root):
    # seeded C09-adv1: cross-origin decision through a helper (hostname, port-or-default), scheme no longer compared
    cls = root
    helper = ast.parse(
        "@staticmethod\ndef _origin(parts):\n    return parts.hostname, parts.port or (443 if parts.scheme == 'https' else 80)\n"
    ).body[0]
    cls.body.append(helper)
    for n in ast.walk(cls):
        if isinstance(n, ast.If) and isinstance(n.test, ast.BoolOp) and "netloc" in _src(n.test) and "scheme" in _src(n.test):
            n.test = parse_expr("self._origin(parsed_orig_url) != self._origin(parsed_new_url)")
            return True
    return False


def _rewrite_through_helper_dropping_head(root):
    cls = root
    helper = ast.parse("def _becomes_get(self):\n    return self.code == 303 or (self.code in (301, 302) and self.request.method == 'POST')\n").body[0]
    cls.body.append(helper)
    for n in ast.walk(cls):
        if isinstance(n, ast.If) and isinstance(n.test, ast.BoolOp) and "303" in _src(n.test) and "HEAD" in _src(n.test):
            n.test = parse_expr("self._becomes_get()")
            return True
    return False


def _capacity_helper_off_by_one(root):
    cls = root
    helper = ast.parse("def _has_capacity(self):\n    return len(self.active) <= self.max_clients\n").body[0]
    cls.body.append(helper)
    for n in ast.walk(cls):
        if isinstance(n, ast.While) and isinstance(n.test, ast.BoolOp) and "max_clients" in _src(n.test):
            n.test.values = [v if "max_clients" not in _src(v) else parse_expr("self._has_capacity()") for v in n.test.values]
            return True
    return False


def _undo_r3a_repair(root):
    # back to: fut.add_done_callback(lambda f: final_callback(f.result()))
    for n in ast.walk(root):
        b = getattr(n, "body", None)
        if isinstance(b, list):
            for i, st in enumerate(b):
                if isinstance(st, ast.Expr) and isinstance(st.value, ast.Call) and q.call_attr(st.value) == "add_done_callback":
                    st.value.args = [parse_expr("lambda f: final_callback(f.result())")]
                    return True
    return False


def _only_absolute_locations(root):
    # seeded C09-adv6: the cross-origin decision is skipped unless the raw Location carries a scheme
    for n in ast.walk(root):
        if isinstance(n, ast.If) and isinstance(n.test, ast.BoolOp) and "netloc" in _src(n.test) and "scheme" in _src(n.test):
            n.test = ast.BoolOp(op=ast.And(), values=[parse_expr("urllib.parse.urlsplit(self.headers['Location']).scheme"), n.test])
            return True
    return False


MUTANTS = [
    ("seeded C09-adv6: cross-origin test only for Locations that carry a scheme (//host/.. treated as same origin)", _in(SH, CONN + ".finish", _only_absolute_locations), "C09.cross-origin-test"),
    ("undo the R3-a repair: redirected outcome read with an unprotected f.result()", _in(SH, CONN + ".finish", _undo_r3a_repair), "C09.redirect-completes"),
    ("seeded C09-adv1: cross-origin decision via _origin() helper without the scheme", _in(SH, CONN, _origin_helper_without_scheme), "C09.cross-origin-test"),
    ("method rewrite via helper that forgets the HEAD exemption", _in(SH, CONN, _rewrite_through_helper_dropping_head), "C09.redirect-method-rewrite"),
    ("capacity test via helper with <=", _in(SH, CLIENT, _capacity_helper_off_by_one), "C09.admit-guard"),
    ("undo the F1 repair: __delitem__ deletes from the partial cache first", _in(HU, "HTTPHeaders.__delitem__", _undo_f1_repair), "C09.strip-delete-effective"),
    ("admission loop ignores max_clients", _in(SH, CLIENT + "._process_queue", _drop_capacity_test), "C09.admit-guard"),
    ("admission off by one (<= max_clients)", _in(SH, CLIENT + "._process_queue", _lt_to_le), "C09.admit-guard"),
    ("queue popped from the tail (LIFO)", _in(SH, CLIENT + "._process_queue", replace_expr(lambda n: isinstance(n, ast.Attribute) and n.attr == "popleft", lambda n: ast.Attribute(value=n.value, attr="pop", ctx=ast.Load()))), "C09.fifo"),
    ("waiting entry made after the queue was processed", _in(SH, CLIENT + ".fetch_impl", _move_waiting_after_process), "C09.enqueue-before-process"),
    ("release does not re-process the queue", _in(SH, CLIENT + "._release_fetch", remove_stmts(lambda st: "_process_queue" in _src(st))), "C09.release"),
    ("seeded C09-adv4: queue timeout pops the head of the queue instead of removing its own entry", _in(SH, CLIENT + "._on_timeout", replace_expr(lambda n: isinstance(n, ast.Call) and _src(n.func) == "self.queue.remove", lambda n: parse_expr("self.queue.popleft()"))), "C09.fifo"),
    ("queue timeout leaves the request admissible", _in(SH, CLIENT + "._on_timeout", _timeout_forgets), "C09.timeout-dequeues"),
    ("final_callback invoked without clearing", _in(SH, CONN + "._run_callback", remove_stmts(lambda st: isinstance(st, ast.Assign) and _src(st.targets[0]) == "self.final_callback")), "C09.final-callback-tac"),
    ("final_callback scheduled directly", _in(SH, CONN + "._run_callback", replace_stmt(lambda st: isinstance(st, ast.If), lambda st: [parse_stmt("self.io_loop.add_callback(self.final_callback, response)")])), "C09.final-callback-tac"),
    ("release_callback called without clearing", _in(SH, CONN + "._release", remove_stmts(lambda st: isinstance(st, ast.Assign) and _src(st.targets[0]) == "self.release_callback")), "C09.release-callback-tac"),
    ("slot released as soon as the headers arrive", _in(SH, CONN + ".headers_received", replace_stmt(lambda st: isinstance(st, ast.Assign) and _src(st.targets[0]) == "self.code", lambda st: [st, parse_stmt("self._release()")])), "C09.release-on-complete"),
    ("redirect path keeps the client slot", _in(SH, CONN + ".finish", remove_stmts(lambda st: _src(st) == "self._release()")), "C09.release-on-complete"),
    ("run() only completes the fetch for IOError", _in(SH, CONN + ".run", replace_expr(lambda n: isinstance(n, ast.ExceptHandler), lambda n: ast.ExceptHandler(type=ast.Name(id="IOError", ctx=ast.Load()), name=n.name, body=n.body))), "C09.error-completes"),
    ("_handle_exception completes only for stream errors", _in(SH, CONN + "._handle_exception", replace_stmt(lambda st: isinstance(st, ast.Expr) and "_run_callback" in _src(st), lambda st: [ast.If(test=parse_expr("isinstance(value, IOError)"), body=[st], orelse=[])])), "C09.error-completes"),
    ("finish() forgets the callback when streaming", _in(SH, CONN + ".finish", replace_stmt(lambda st: isinstance(st, ast.Expr) and "_run_callback" in _src(st), lambda st: [ast.If(test=parse_expr("not self.request.streaming_callback"), body=[st], orelse=[])])), "C09.error-completes"),
    ("response handler falls through after set_exception", _in(HC, "AsyncHTTPClient.fetch", _drop_return_after_set_exception), "C09.fetch-settle"),
    ("302 removed from followed statuses", _in(SH, CONN + "._should_follow_redirect", replace_expr(lambda n: isinstance(n, ast.Tuple) and 302 in [getattr(e, "value", None) for e in n.elts], lambda n: ast.Tuple(elts=[e for e in n.elts if e.value != 302], ctx=ast.Load()))), "C09.redirect-follow-table"),
    ("max_redirects >= 0 still follows", _in(SH, CONN + "._should_follow_redirect", replace_expr(lambda n: isinstance(n, ast.Compare) and "max_redirects" in _src(n) and isinstance(n.ops[0], ast.Gt), lambda n: ast.Compare(left=n.left, ops=[ast.GtE()], comparators=n.comparators))), "C09.redirect-follow-table"),
    ("max_redirects not decremented", _in(SH, CONN + ".finish", replace_expr(lambda n: isinstance(n, ast.BinOp) and isinstance(n.op, ast.Sub) and "max_redirects" in _src(n.left), lambda n: n.left)), "C09.redirect-decrement"),
    ("303 to HEAD rewritten to GET", _in(SH, CONN + ".finish", _drop_head_exemption), "C09.redirect-method-rewrite"),
    ("Content-Length kept on the rewritten GET", _in(SH, CONN + ".finish", _drop_from_list("Content-Length")), "C09.redirect-method-rewrite"),
    ("redirected request aliases the current request (no copy)", _in(SH, CONN + ".finish", replace_expr(lambda n: isinstance(n, ast.Call) and _src(n.func) == "copy.copy" and "request" in _src(n.args[0]), lambda n: n.args[0])), "C09.strip-order"),
    ("cross-origin test compares the original URL with itself", _in(SH, CONN + ".finish", replace_expr(lambda n: isinstance(n, ast.Name) and n.id == "parsed_new_url" and isinstance(n.ctx, ast.Load), lambda n: ast.Name(id="parsed_orig_url", ctx=ast.Load()), limit=2)), "C09.cross-origin-test"),
    ("fetch_impl only processes the queue when nothing is active", _in(SH, CLIENT + ".fetch_impl", replace_stmt(lambda st: isinstance(st, ast.Expr) and "_process_queue" in _src(st), lambda st: [ast.If(test=parse_expr("not self.active"), body=[st], orelse=[])])), "C09.enqueue-before-process"),
    ("original headers merged back after the strip", _in(SH, CONN + ".finish", replace_stmt(lambda st: isinstance(st, ast.Delete) and _src(st) == "del new_request.headers['Host']", lambda st: [parse_stmt("new_request.headers.update(self.request.headers)"), st])), "C09.strip-order"),
    ("cross-origin test compares the scheme only", _in(SH, CONN + ".finish", _only_scheme), "C09.cross-origin-test"),
    ("cross-origin test ignores the port (hostname)", _in(SH, CONN + ".finish", _hostname_only), "C09.cross-origin-test"),
    ("Cookie not stripped", _in(SH, CONN + ".finish", _drop_from_list("Cookie")), "C09.strip-credentials"),
    ("both deletions share one try", _in(SH, CONN + ".finish", _both_dels_one_try), "C09.strip-credentials"),
    ("auth_password survives", _in(SH, CONN + ".finish", remove_stmts(lambda st: _src(st) == "new_request.auth_password = None")), "C09.strip-credentials"),
    ("userinfo kept in the redirect URL", _in(SH, CONN + ".finish", _keep_userinfo), "C09.strip-url-userinfo"),
    ("headers copied after the strip", _in(SH, CONN + ".finish", _headers_copy_after_strip), "C09.strip-order"),
]
