"""C38 — IOLoop callbacks and timeouts run once, in order, and survive errors.

Thin clause set (DESIGN.md §4 C38, §5).  Decided statically: every scheduling
entry of ``BaseAsyncIOLoop`` hands asyncio ``self._run_callback`` +
``functools.partial(callback, ...)``; ``_run_callback`` runs the callback under
handlers for CancelledError and Exception that never re-raise, logs, and routes
a returned awaitable's outcome through ``add_future`` (so it is logged too);
``add_callback`` uses plain ``call_soon`` only under the fact "the running loop
is this loop" and the thread-safe variant on every other path; ``add_future``
never reaches the callback synchronously; ``call_at`` clamps the delay at zero
(folded exhaustively) and returns the asyncio handle that ``remove_timeout``
cancels; the deadline forms of ``add_timeout``/``call_later``; ``run_sync``'s
three outcomes.  Not decided: ordering, exactly-once and deadline behaviour of
asyncio itself.
"""
from __future__ import annotations

import ast
import copy

from .. import q
from ..cfg import must_facts, holds, canon_fact
from ..rules import event_facts, node_calls
from ..mutate import mutate, remove_stmts, replace_expr, replace_stmt, parse_stmt, parse_expr
from ..model import AnalysisError
from ..x_syncnorm import normalized

NORM_MODULES = ("tornado/locks.py", "tornado/queues.py", "tornado/gen.py", "tornado/concurrent.py", "tornado/ioloop.py", "tornado/platform/asyncio.py")
from fractions import Fraction
from .. import x_tdeval as tdeval
from ..x_sync import resolve_callable_name, lambda_or_func_body_calls, check_none_tests, resolve_local, own_walk, own_find, node_counts, method_call_on, exit_states, reaches, handler_catches_cancel

TECHNIQUE = "who-may-call / wrapper lint on the scheduling entries, handler-structure (exception-escape) rule, guard dominance, exhaustive folding of the delay expression, exit-state typestate of run_sync"
EXPLANATION = (
    "Scheduling calls (call_soon, call_soon_threadsafe, call_later) in BaseAsyncIOLoop must pass self._run_callback and functools.partial(callback, *args, **kwargs); "
    "_run_callback: the callback call sits under non-re-raising handlers for CancelledError and Exception (logged with exc_info), returned awaitables go through "
    "add_future(ret, _discard_future_result); add_callback: call_soon only under `get_running_loop() is self.asyncio_loop`; add_future: callback reachable only from "
    "deferred lambdas (asyncio done-callback -> _run_callback, or foreign future -> add_callback); call_at delay == max(0, when - now) for all small values; "
    "remove_timeout cancels the handle; add_timeout/call_later deadline arithmetic; run_sync outcome table and timeout callback."
)
NOT_DECIDED = "ordering / exactly-once / not-before-deadline behaviour (delegated to asyncio's call_soon/call_later/Handle.cancel); cross-thread interleavings; wall-clock vs loop-clock drift"
LEVEL_NOTE = "thin clause set; trusted: asyncio's scheduling primitives"

IO = "tornado/ioloop.py"
PA = "tornado/platform/asyncio.py"
SCHED = ("call_soon", "call_soon_threadsafe", "call_later", "call_at")


def _is_partial_of(e, cbparam, extra=()):
    """functools.partial(<cbparam>, ...) forwarding *args/**kwargs or the names in ``extra``."""
    if not (isinstance(e, ast.Call) and q.dotted(e.func) in ("functools.partial", "partial") and e.args and q.dotted(e.args[0]) == cbparam):
        return False
    return True


def _forwards_varargs(call, fi):
    a = fi.node.args
    ok = True
    if a.vararg:
        ok &= any(isinstance(x, ast.Starred) and q.dotted(x.value) == a.vararg.arg for x in call.args)
    if a.kwarg:
        ok &= any(k.arg is None and q.dotted(k.value) == a.kwarg.arg for k in call.keywords)
    return ok


def check_wrapped(ck):
    n = 0
    for name in ("add_callback", "call_at", "add_callback_from_signal"):
        fi = ck.func(PA, "BaseAsyncIOLoop." + name)
        cbparam = "callback"
        if cbparam not in fi.params():
            raise AnalysisError("%s: no callback parameter" % fi.site())
        sites = []
        sched_locals = set()
        for st in own_walk(fi.node):
            if isinstance(st, ast.Assign) and len(st.targets) == 1 and isinstance(st.targets[0], ast.Name) and isinstance(st.value, ast.Attribute) and st.value.attr in SCHED:
                sched_locals.add(st.targets[0].id)
        for c in [x for x in own_walk(fi.node) if isinstance(x, ast.Call)]:
            nm = q.call_attr(c)
            if (nm in SCHED and isinstance(c.func, ast.Attribute)) or (isinstance(c.func, ast.Name) and c.func.id in sched_locals):
                sites.append(c)
        if not sites:
            raise AnalysisError("%s: no asyncio scheduling call found" % fi.site())
        for c in sites:
            n += 1
            rest = c.args[1:] if q.call_attr(c) in ("call_later", "call_at") else c.args
            bound = resolve_local(fi, rest[1]) if len(rest) == 2 else None
            ok = len(rest) == 2 and q.dotted(rest[0]) == "self._run_callback" and _is_partial_of(bound, cbparam)
            ck.ob("C38.wrapped", fi, c, ok, "%s schedules self._run_callback(functools.partial(callback, ...)) — never the bare callback" % name)
            if ok:
                ck.ob("C38.wrapped", fi, bound, _forwards_varargs(bound, fi), "the caller's *args/**kwargs are bound to the callback")
        # the callback is not called or scheduled in any other way
        for x in own_walk(fi.node):
            if isinstance(x, ast.Call) and q.dotted(x.func) == cbparam:
                ck.ob("C38.wrapped", fi, x, False, "%s never calls the callback itself" % name)
    ck.floor("C38.wrapped", n, 3, "scheduling calls")
    # the other entries funnel into the same three
    sp = ck.func(IO, "IOLoop.spawn_callback")
    cs = [c for c in own_walk(sp.node) if isinstance(c, ast.Call) and method_call_on(c, "self", "add_callback")]
    ck.ob("C38.wrapped", sp, sp.node, len(cs) == 1 and q.dotted(q.arg(cs[0], 0)) == "callback" and _forwards_varargs(cs[0], sp) and not any(isinstance(x, ast.Call) and q.dotted(x.func) == "callback" for x in own_walk(sp.node)),
          "spawn_callback is add_callback(callback, *args, **kwargs)", construct="spawn delegation")


def check_run_callback(ck):
    fi = ck.func(IO, "IOLoop._run_callback")
    p = [x for x in fi.params() if x != "self"]
    if len(p) != 1:
        raise AnalysisError("%s: unexpected signature" % fi.site())
    cb = p[0]
    calls = own_find(fi, lambda x: isinstance(x, ast.Call) and q.dotted(x.func) == cb and not x.args)
    ck.floor("C38.run-callback", len(calls), 1, "callback invocations in _run_callback")
    pm = q.parent_map(fi.node)
    cfg = fi.cfg
    for nd, c in calls:
        for exc, label in (("Exception", "an ordinary exception"), ("asyncio.CancelledError", "CancelledError")):
            h = q.protected_by(pm, c, exc)
            ck.ob("C38.run-callback", fi, c, h is not None, "%s raised by the callback is caught in _run_callback (the loop keeps running)" % label)
            if h is None:
                continue
            hn = [x for x in cfg.nodes if x.kind == "handler" and x.ast is h]
            raises = any(isinstance(x, ast.Raise) for st in h.body for x in ast.walk(st))
            ck.ob("C38.run-callback", fi, h, not raises, "the handler for %s does not re-raise" % exc, construct="handler %s re-raises=%s" % (exc, raises))
            if exc == "Exception":
                logs = [x for st in h.body for x in ast.walk(st) if isinstance(x, ast.Call) and (q.dotted(x.func) or "").endswith("_log.error") or (isinstance(x, ast.Call) and q.call_attr(x) in ("exception",) and (q.dotted(x.func) or "").endswith("_log.exception"))]
                ok = any(q.call_attr(x) == "exception" or (q.kwarg(x, "exc_info") is not None and not q.is_const(q.kwarg(x, "exc_info"), False)) for x in logs)
                ck.ob("C38.run-callback", fi, h, ok, "an exception from a callback is logged with its traceback", construct="Exception handler logs")
    # every call in the try body is covered too (convert_yielded / add_future failures must not kill the loop)
    for nd, c in own_find(fi, lambda x: isinstance(x, ast.Call)):
        inside_handler = any(isinstance(a, ast.ExceptHandler) for a in q.ancestors(pm, c))
        if inside_handler:
            continue
        ck.ob("C38.run-callback", fi, c, q.protected_by(pm, c, "Exception") is not None, "every call made by _run_callback is under the Exception handler")
    # returned awaitables: outcome observed through add_future -> _discard_future_result
    conv = own_find(fi, lambda x: isinstance(x, ast.Call) and (q.dotted(x.func) or "").endswith("convert_yielded"))
    afs = own_find(fi, lambda x: method_call_on(x, "self", "add_future") and len(x.args) == 2)
    ck.ob("C38.run-callback", fi, fi.node, len(conv) >= 1 and len(afs) >= 1, "a non-None return value is converted and watched (so a failing returned future is logged)", construct="watches returned awaitable")
    facts = must_facts(cfg)
    for nd, c in afs:
        ret = q.dotted(c.args[0])
        ok = q.dotted(c.args[1]) == "self._discard_future_result" and ret is not None and any(isinstance(st, ast.Assign) and isinstance(st.value, ast.Call) and (q.dotted(st.value.func) or "").endswith("convert_yielded") for st in q.stores_to(fi.node, ret))
        ck.ob("C38.run-callback", fi, c, ok, "the converted return value is handed to add_future(ret, self._discard_future_result)")
    dfr = ck.func(IO, "IOLoop._discard_future_result")
    fp = [x for x in dfr.params() if x != "self"]
    reads = [c for c in own_walk(dfr.node) if isinstance(c, ast.Call) and fp and method_call_on(c, fp[0], "result")]
    ck.ob("C38.run-callback", dfr, dfr.node, len(reads) == 1 and dfr.cfg.postdominates(dfr.cfg.nodes_for(reads[0])[0], dfr.cfg.entry) if reads else False,
          "_discard_future_result reads future.result() (re-raising a failure inside _run_callback, where it is logged)", construct="discard reads result")


def _is_same_loop_test(e, negated_too=False):
    """``asyncio.get_running_loop() is self.asyncio_loop`` (either operand order, is/==;
    with ``negated_too`` also the is not / != forms)."""
    ops = (ast.Is, ast.Eq, ast.IsNot, ast.NotEq) if negated_too else (ast.Is, ast.Eq)
    if isinstance(e, ast.Compare) and len(e.ops) == 1 and isinstance(e.ops[0], ops):
        sides = {q.unparse(e.left), q.unparse(e.comparators[0])}
        return sides == {"asyncio.get_running_loop()", "self.asyncio_loop"}
    return False


def check_thread_safe(ck):
    """Small abstract interpretation of add_callback: which scheduler is used on
    which path.  Abstract value: (same, alias, chosen, plain_bad, scheduled) where
    same  = what is known about 'the running loop is this loop' (True/False/None),
    alias = value of a boolean local bound to that test ('same?' or False),
    chosen = the scheduler bound to the local used for the call ('plain'/'ts')."""
    fi = ck.func(PA, "BaseAsyncIOLoop.add_callback")
    cfg = fi.cfg
    from ..cfg import _node_roots

    def has(nd, pred):
        if nd.ast is None or nd.kind not in ("stmt", "test") or isinstance(nd.ast, q.ScopeNode):
            return False
        return any(pred(x) for r in _node_roots(nd) for x in q.walk_local(r))

    # helpers of the same class that *are* the identity test (`return asyncio.get_running_loop() is self.asyncio_loop`,
    # optionally `except RuntimeError: return False`) are inlined
    helper_same = set()
    for c in [x for x in own_walk(fi.node) if isinstance(x, ast.Call) and isinstance(x.func, ast.Attribute) and q.dotted(x.func.value) == "self" and not x.args and not x.keywords]:
        if ck.repo.has_func(PA, "BaseAsyncIOLoop." + c.func.attr):
            hf = ck.repo.func(PA, "BaseAsyncIOLoop." + c.func.attr)
            rets = [r for r in own_walk(hf.node) if isinstance(r, ast.Return)]
            hpm = q.parent_map(hf.node)
            if rets and all(r.value is not None and (_is_same_loop_test(r.value) or q.is_const(r.value, False)) for r in rets) and any(_is_same_loop_test(r.value) for r in rets) \
                    and all(q.protected_by(hpm, g, "RuntimeError") is not None for g in own_walk(hf.node) if q.is_call(g, "asyncio.get_running_loop")):
                helper_same.add(c.func.attr)
                ck.use(hf)

    # locals holding the calling thread's running loop (`running_loop = asyncio.get_running_loop()`, possibly None on the
    # no-loop path): `running_loop is self.asyncio_loop` is the same identity test
    loop_aliases = {st.targets[0].id for st in own_walk(fi.node) if isinstance(st, ast.Assign) and len(st.targets) == 1 and isinstance(st.targets[0], ast.Name) and q.is_call(st.value, "asyncio.get_running_loop")}
    for nm_ in loop_aliases:
        for st in q.stores_to(fi.node, nm_):
            if not (isinstance(st, ast.Assign) and (q.is_call(st.value, "asyncio.get_running_loop") or q.is_const(st.value, None))):
                raise AnalysisError("%s: running-loop local %s bound to something else" % (fi.site(st), nm_))

    def alias_same(e, negated_too=False):
        ops = (ast.Is, ast.Eq, ast.IsNot, ast.NotEq) if negated_too else (ast.Is, ast.Eq)
        if isinstance(e, ast.Compare) and len(e.ops) == 1 and isinstance(e.ops[0], ops):
            a_, b_ = e.left, e.comparators[0]
            for x_, y_ in ((a_, b_), (b_, a_)):
                if isinstance(x_, ast.Name) and x_.id in loop_aliases and q.dotted(y_) == "self.asyncio_loop":
                    return x_.id
        return None

    def is_same(e, negated_too=False):
        return alias_same(e, negated_too) is not None or _is_same_loop_test(e, negated_too) or (isinstance(e, ast.Call) and isinstance(e.func, ast.Attribute) and q.dotted(e.func.value) == "self" and e.func.attr in helper_same and not e.args)

    tests = [nd for nd in cfg.stmt_nodes() if has(nd, lambda x: is_same(x, True))]
    if not tests:
        # is the guard absent, or present in a shape that is not understood?  Anything that could be a
        # thread/loop identity test in disguise makes the analysis fail closed; otherwise plain call_soon is simply unguarded.
        def opaque(x):
            if isinstance(x, ast.Compare) and any(w in q.unparse(x) for w in ("asyncio_loop", "get_running_loop", "get_ident", "_thread_ident", "current_thread", "_get_running_loop", "get_event_loop")):
                return True
            if isinstance(x, ast.Call) and isinstance(x.func, ast.Attribute) and q.dotted(x.func.value) == "self" and x.func.attr not in ("_run_callback",) and any(w in x.func.attr for w in ("thread", "loop", "running", "current")):
                return True
            return False
        if any(opaque(x) for x in own_walk(fi.node)):
            raise AnalysisError("%s: no test `asyncio.get_running_loop() is self.asyncio_loop`, but another loop/thread identity test that is not modelled" % fi.site())
        ck.note("add_callback contains no loop-identity test at all: every use of plain call_soon is unguarded")
    aliases = {}
    for st in own_walk(fi.node):
        if isinstance(st, ast.Assign) and len(st.targets) == 1 and isinstance(st.targets[0], ast.Name):
            nm = st.targets[0].id
            if _is_same_loop_test(st.value):
                aliases.setdefault(nm, []).append("same?")
            elif _is_same_loop_test(st.value, True):
                aliases.setdefault(nm, []).append("?")  # negated form bound to a local: not modelled
            elif q.is_const(st.value, False):
                aliases.setdefault(nm, []).append(False)
            elif isinstance(st.value, ast.Attribute) and st.value.attr in ("call_soon", "call_soon_threadsafe") and q.dotted(st.value.value) == "self.asyncio_loop":
                pass
            elif nm in aliases:
                aliases[nm].append("?")
    bool_alias = {nm for nm, vs in aliases.items() if "same?" in vs and "?" not in vs}

    def sched_kind(c, chosen):
        if isinstance(c.func, ast.Attribute) and c.func.attr in ("call_soon", "call_soon_threadsafe") and q.dotted(c.func.value) == "self.asyncio_loop":
            return "plain" if c.func.attr == "call_soon" else "ts"
        if isinstance(c.func, ast.Name) and c.func.id in chosen_locals:
            return chosen
        return None

    chosen_locals = {st.targets[0].id for st in own_walk(fi.node) if isinstance(st, ast.Assign) and len(st.targets) == 1 and isinstance(st.targets[0], ast.Name) and isinstance(st.value, ast.Attribute) and st.value.attr in ("call_soon", "call_soon_threadsafe")}
    for nm in chosen_locals:
        for st in q.stores_to(fi.node, nm):
            if not (isinstance(st, ast.Assign) and isinstance(st.value, ast.Attribute) and st.value.attr in ("call_soon", "call_soon_threadsafe") and q.dotted(st.value.value) == "self.asyncio_loop"):
                raise AnalysisError("%s: scheduler local %s bound to something else" % (fi.site(st), nm))

    def tr(nd, v):
        same, alias, chosen, bad, cnt, lv = v
        if nd.kind == "stmt" and isinstance(nd.ast, ast.Assign) and len(nd.ast.targets) == 1 and isinstance(nd.ast.targets[0], ast.Name):
            nm = nd.ast.targets[0].id
            if nm in bool_alias:
                alias = "same?" if _is_same_loop_test(nd.ast.value) else False
            if nm in chosen_locals:
                chosen = "plain" if nd.ast.value.attr == "call_soon" else "ts"
            if nm in loop_aliases:
                lv = "none" if q.is_const(nd.ast.value, None) else "run"
        if nd.kind in ("stmt", "test") and nd.ast is not None and not isinstance(nd.ast, q.ScopeNode):
            for x in q.walk_local(nd.ast):
                if isinstance(x, ast.Call):
                    k = sched_kind(x, chosen)
                    if k is not None:
                        cnt = min(2, cnt + 1)
                        if k == "plain" and same is not True:
                            bad = True
        return (same, alias, chosen, bad, cnt, lv)

    def edge(nd, kind, v):
        same, alias, chosen, bad, cnt, lv = v
        if kind == "exc":
            if has(nd, lambda x: q.is_call(x, "asyncio.get_running_loop")):
                same = False  # no running loop in this thread
            return (same, alias, chosen, bad, cnt, lv)
        if nd.kind == "test" and kind in ("true", "false"):
            e, pol = nd.ast, kind == "true"
            t, cpol = canon_fact(e, pol)
            core = ast.parse(t, mode="eval").body
            if alias_same(core) is not None:
                if lv == "none":
                    if cpol:
                        return None  # None is never this loop
                    same = False
                elif lv == "run":
                    same = cpol
                else:
                    same = None
            elif is_same(core):
                same = cpol
            elif isinstance(core, ast.Name) and core.id in bool_alias:
                if alias is False and cpol:
                    return None
                if alias == "same?":
                    same = cpol
                elif alias is False:
                    same = False
        return (same, alias, chosen, bad, cnt, lv)

    normal, _ = exit_states(cfg, (None, None, None, False, 0, None), tr, edge_transfer=edge, follow_exc=True, exc_effect=False)
    ck.floor("C38.thread-safe", len(normal), 1, "normal exit states of add_callback")
    seen_ts = False
    for _f, (same, alias, chosen, bad, cnt, lv) in normal:
        ck.ob("C38.thread-safe", fi, fi.node, not bad, "plain call_soon is used only on paths where the running loop is known to be this loop; other loop / no loop / unknown -> call_soon_threadsafe (wakes the selector)",
              construct="exit plain-call_soon-off-thread=%s same=%s" % (bad, same))
        if cnt == 0 and same is False and chosen is None:
            continue
        ck.ob("C38.thread-safe", fi, fi.node, cnt <= 1, "at most one scheduling call per add_callback (count=%d)" % cnt, construct="exit scheduled=%d" % cnt)
    ts = own_find(fi, lambda x: isinstance(x, ast.Attribute) and x.attr == "call_soon_threadsafe")
    ck.ob("C38.thread-safe", fi, fi.node, len(ts) >= 1, "add_callback has a call_soon_threadsafe path for callers outside the loop thread", construct="has threadsafe path")
    # a scheduling attempt exists on every path that does not end in a swallowed scheduling error
    pm = q.parent_map(fi.node)
    sched = [c for c in own_walk(fi.node) if isinstance(c, ast.Call) and sched_kind(c, "x") is not None]
    ck.floor("C38.thread-safe", len(sched), 1, "scheduling calls in add_callback")


def check_add_future(ck):
    fi = ck.func(IO, "IOLoop.add_future")
    ps = [x for x in fi.params() if x != "self"]
    if len(ps) != 2:
        raise AnalysisError("%s: unexpected signature" % fi.site())
    fut, cb = ps
    pm = q.parent_map(fi.node)
    facts = must_facts(fi.cfg)
    n = 0
    for x in ast.walk(fi.node):
        if not (isinstance(x, ast.Name) and x.id == cb and isinstance(x.ctx, ast.Load)):
            continue
        n += 1
        # climb: must be inside a lambda/nested def (deferred), as partial(callback, f) -> self._run_callback, or as arg of self.add_callback
        chain = list(q.ancestors(pm, x))
        lam = next((a for a in chain if isinstance(a, (ast.Lambda,) + q.FuncNode) and a is not fi.node), None)
        if lam is None:
            ck.ob("C38.add-future", fi, pm.get(x, x), False, "add_future never touches the callback synchronously (only inside a deferred lambda)")
            continue
        p = pm.get(x)
        how = None
        if isinstance(p, ast.Call) and q.dotted(p.func) in ("functools.partial", "partial") and p.args and p.args[0] is x:
            gp = pm.get(p)
            if isinstance(gp, ast.Call) and q.dotted(gp.func) == "self._run_callback":
                how = "run_callback"
        elif isinstance(p, ast.Call) and q.dotted(p.func) == "self.add_callback" and p.args and p.args[0] is x:
            how = "add_callback"
        if how is None:
            ck.ob("C38.add-future", fi, p if p is not None else x, False, "inside the deferred lambda the callback is run through _run_callback(partial(callback, f)) or re-scheduled with add_callback")
            continue
        # who invokes the lambda, and can that be synchronous?
        reg = pm.get(lam)
        if isinstance(lam, q.FuncNode):
            # a nested def: the registration is the call it is handed to by name
            uses = [y for y in own_walk(fi.node) if isinstance(y, ast.Call) and any(isinstance(a, ast.Name) and a.id == lam.name for a in y.args)]
            reg = uses[0] if len(uses) == 1 else None
        if not isinstance(reg, ast.Call):
            raise AnalysisError("%s: deferred lambda in an unrecognised position" % fi.site(lam))
        if isinstance(reg.func, ast.Attribute) and reg.func.attr == "add_done_callback" and q.dotted(reg.func.value) == fut:
            node = fi.cfg.nodes_for(reg)
            under = bool(node) and any(pol and t.startswith("isinstance(%s, " % fut) and "Future" in t for t, pol in facts[node[0].id])
            ck.ob("C38.add-future", fi, reg, under, "future.add_done_callback is used only for asyncio futures (whose callbacks always run on a later iteration)")
        elif q.call_attr(reg) == "future_add_done_callback" and reg.args and q.dotted(reg.args[0]) == fut:
            ck.ob("C38.add-future", fi, reg, how == "add_callback", "future_add_done_callback may call back synchronously (future already done), so the lambda only re-schedules through add_callback")
        else:
            raise AnalysisError("%s: callback registered through an unknown function" % fi.site(reg))
    ck.floor("C38.add-future", n, 2, "references to the callback in add_future")
    for c in [x for x in own_walk(fi.node) if isinstance(x, ast.Call)]:
        if q.dotted(c.func) == cb:
            ck.ob("C38.add-future", fi, c, False, "add_future never invokes the callback synchronously")
    regs = node_counts(fi, lambda x: isinstance(x, ast.Call) and q.call_attr(x) in ("add_done_callback", "future_add_done_callback"))
    normal, _ = exit_states(fi.cfg, 0, lambda nd, v: min(2, v + regs.get(nd.id, 0)), follow_exc=False)
    for _f, k in normal:
        ck.ob("C38.add-future", fi, fi.node, k == 1, "add_future registers exactly one done-callback on every path (count=%d)" % k, construct="exit registrations=%d" % k)


class _TimeSubst(ast.NodeTransformer):
    def visit_Call(self, node):
        if method_call_on(node, "self", "time") and not node.args:
            return ast.Name(id="NOW", ctx=ast.Load())
        return self.generic_visit(node)


def check_call_at(ck):
    fi = ck.func(PA, "BaseAsyncIOLoop.call_at")
    wparam = [x for x in fi.params() if x != "self"][0]
    cl = [c for c in own_walk(fi.node) if isinstance(c, ast.Call) and q.call_attr(c) == "call_later" and q.dotted(c.func.value) == "self.asyncio_loop"]
    if len(cl) != 1:
        raise AnalysisError("%s: expected one asyncio_loop.call_later call (other scheduling idioms are not modelled)" % fi.site())
    c = cl[0]
    dexpr = c.args[0]
    if isinstance(dexpr, ast.Name):
        defs = q.stores_to(fi.node, dexpr.id)
        if len(defs) == 1 and isinstance(defs[0], ast.Assign):
            dexpr = defs[0].value
    d = _TimeSubst().visit(copy.deepcopy(dexpr))
    bad = []
    for w in range(0, 5):
        for now in range(0, 5):
            try:
                v = q.fold(d, {wparam: w, "NOW": now})
            except q.NotFoldable as e:
                raise AnalysisError("%s: cannot evaluate the delay expression: %s" % (fi.site(c), e))
            if v != max(0, w - now):
                bad.append((w, now, v))
    ck.ob("C38.call-at", fi, dexpr, not bad, "the delay handed to asyncio is max(0, when - now) for all when/now in 0..4 (never negative, never early; wrong at (when, now, delay) %s)" % bad[:3])
    rets = [r for r in own_walk(fi.node) if isinstance(r, ast.Return)]
    ck.ob("C38.call-at", fi, fi.node, len(rets) == 1 and resolve_local(fi, rets[0].value) is c, "call_at returns asyncio's timer handle", construct="returns handle")
    rt = ck.func(PA, "BaseAsyncIOLoop.remove_timeout")
    tp = [x for x in rt.params() if x != "self"][0]
    cc = node_counts(rt, lambda x: method_call_on(x, tp, "cancel") and not x.args)
    normal, _ = exit_states(rt.cfg, 0, lambda nd, v: min(2, v + cc.get(nd.id, 0)), follow_exc=False)
    for _f, k in normal:
        ck.ob("C38.call-at", rt, rt.node, k >= 1, "remove_timeout cancels the handle on every path (count=%d)" % k, construct="exit cancels=%d" % k)


def _eval_when(ck, fi, param, value, now):
    """Abstractly run ``fi`` (add_timeout / call_later) with ``param`` = value; returns ('call_at', when) | ('raise', name)."""
    env = {p_: None for p_ in fi.params()}
    env[param] = value
    calls = {"self.time()": now, "self.call_at": lambda args: ("call_at", args[0] if args else None)}
    if fi.name != "call_later":
        calls["self.call_later"] = lambda args: ("call_at", (now + args[0]) if args and isinstance(args[0], Fraction) else None)
    try:
        tdeval.run(fi.node.body, env, calls)
    except tdeval.Returned as r:
        return r.value if isinstance(r.value, tuple) else ("other", r.value)
    except tdeval.Raised as e:
        return ("raise", e.name)
    except tdeval.Unsupported as e:
        raise AnalysisError("%s: construct not modelled by the evaluator: %s" % (fi.site(), e))
    return ("fallthrough", None)


def check_deadlines(ck):
    at = ck.func(IO, "IOLoop.add_timeout")
    dl = [x for x in at.params() if x != "self"][0]
    # forwarding of the callback and its arguments (syntactic), arithmetic by abstract evaluation
    n = 0
    for nd in at.cfg.stmt_nodes(lambda nd: nd.kind == "stmt" and isinstance(nd.ast, ast.Return)):
        v = resolve_local(at, nd.ast.value)
        if not (method_call_on(v, "self", "call_at", "call_later") and len(v.args) >= 2):
            raise AnalysisError("%s: add_timeout returns something other than self.call_at(...) / self.call_later(...)" % at.site(nd.ast))
        n += 1
        ck.ob("C38.deadline", at, nd.ast, q.dotted(v.args[1]) == "callback" and _forwards_varargs(v, at), "the callback and its *args/**kwargs are forwarded to call_at")
    ck.floor("C38.deadline", n, 2, "call_at returns in add_timeout")
    F = Fraction
    bad = []
    k = 0
    for now in (F(0), F(1000), F(1700000000) + F(1, 4)):
        for d in (F(0), F(5), F(3, 2), F(1700000100)):
            k += 1
            r = _eval_when(ck, at, dl, d, now)
            if r != ("call_at", d):
                bad.append("number %s at now=%s -> %s" % (d, now, r))
        for x in (F(1, 1000), F(1, 2), F(90), F(86399), F(86400), F(86400 * 2 + 5), F(7 * 86400) + F(1, 4)):
            k += 1
            r = _eval_when(ck, at, dl, tdeval.TD(x), now)
            if r != ("call_at", now + x):
                bad.append("timedelta %ss at now=%s -> %s (expected %s)" % (x, now, r, now + x))
    ck.ob("C38.deadline", at, at.node, not bad, "add_timeout: a numeric deadline is passed on unchanged, a timedelta becomes now + its whole duration incl. days (%d samples%s)" % (k, ("; wrong: " + "; ".join(bad[:3])) if bad else ""),
          construct="add_timeout deadline mismatches=%d" % len(bad))
    rej = [r for r in (_eval_when(ck, at, dl, None, F(0)), _eval_when(ck, at, dl, "soon", F(0))) if r != ("raise", "TypeError")]
    ck.ob("C38.deadline", at, at.node, not rej, "any other deadline type is rejected with TypeError", construct="rejects other types=%s" % (not rej))
    cl = ck.func(IO, "IOLoop.call_later")
    dp = [x for x in cl.params() if x != "self"][0]
    bad = []
    for now in (F(0), F(1000)):
        for d in (F(0), F(1, 2), F(30)):
            r = _eval_when(ck, cl, dp, d, now)
            if r != ("call_at", now + d):
                bad.append("delay %s at now=%s -> %s" % (d, now, r))
    ck.ob("C38.deadline", cl, cl.node, not bad, "call_later(delay) schedules at now + delay%s" % (("; wrong: " + "; ".join(bad[:2])) if bad else ""), construct="call_later mismatches=%d" % len(bad))
    rets = [r for r in own_walk(cl.node) if isinstance(r, ast.Return)]
    v = resolve_local(cl, rets[0].value) if len(rets) == 1 else None
    ck.ob("C38.deadline", cl, cl.node, v is not None and method_call_on(v, "self", "call_at") and len(v.args) >= 2 and q.dotted(v.args[1]) == "callback" and _forwards_varargs(v, cl), "call_later forwards the callback and its arguments", construct="call_later forwarding")
    # the concrete loop overrides call_at (the base call_at/add_timeout pair would recurse)
    ck.ob("C38.deadline", None, ck.repo.cls(PA, "BaseAsyncIOLoop"), ck.repo.has_func(PA, "BaseAsyncIOLoop.call_at") and not ck.repo.has_func(PA, "BaseAsyncIOLoop.add_timeout"),
          "BaseAsyncIOLoop implements call_at and inherits add_timeout/call_later", construct="BaseAsyncIOLoop overrides", file=PA)


def check_run_sync(ck):
    rs = ck.func(IO, "IOLoop.run_sync")
    cfg = rs.cfg
    facts = must_facts(cfg)
    tparam = [x for x in rs.params() if x != "self"][1]
    nested = {nf.name: nf for nf in ck.repo.nested(rs) if nf.parent is rs and isinstance(nf.node, q.FuncNode)}
    # the cell expression holding the future
    rets = [nd for nd in cfg.stmt_nodes(lambda nd: nd.kind == "stmt" and isinstance(nd.ast, ast.Return))]
    if len(rets) != 1 or not (isinstance(rets[0].ast.value, ast.Call) and isinstance(rets[0].ast.value.func, ast.Attribute) and rets[0].ast.value.func.attr == "result"):
        raise AnalysisError("%s: run_sync does not end in `return <future>.result()`" % rs.site())
    cell = q.unparse(rets[0].ast.value.func.value)
    f = facts[rets[0].id]
    ck.ob("C38.run-sync", rs, rets[0].ast, holds(f, "%s.cancelled()" % cell, False) and holds(f, "%s.done()" % cell, True), "the result is read only from a future that is done and not cancelled (cancel-aware read)")
    n = 0
    for nd in cfg.stmt_nodes(lambda nd: nd.kind == "stmt" and isinstance(nd.ast, ast.Raise)):
        e = nd.ast.exc
        nm = q.dotted(e.func if isinstance(e, ast.Call) else e) if e is not None else None
        tc = [t for t, pol in facts[nd.id] if "timeout_called" in t]
        if nm == "TimeoutError":
            n += 1
            ck.ob("C38.run-sync", rs, nd.ast, any(pol for t, pol in facts[nd.id] if "timeout_called" in t), "TimeoutError is raised only when the timeout callback ran")
        elif nm == "RuntimeError":
            n += 1
            ck.ob("C38.run-sync", rs, nd.ast, any(not pol for t, pol in facts[nd.id] if "timeout_called" in t), "a loop stopped without a timeout raises RuntimeError, not TimeoutError")
    ck.ob("C38.run-sync", rs, rs.node, n >= 2, "run_sync distinguishes timeout from a stopped loop", construct="raise sites=%d" % n)
    # order: schedule run, (arm timeout), start, (remove timeout)
    ev = event_facts(rs, {"sched": lambda nd: any(method_call_on(x, "self", "add_callback") and x.args and isinstance(x.args[0], ast.Name) and x.args[0].id in nested for x in q.walk_local(nd.ast)) if nd.kind == "stmt" and not isinstance(nd.ast, q.ScopeNode) else False,
                         "started": node_calls("self.start")}, cond_facts=False)
    starts = own_find(rs, lambda x: method_call_on(x, "self", "start"))
    ck.floor("C38.run-sync", len(starts), 1, "self.start() calls")
    for nd, c in starts:
        ck.ob("C38.run-sync", rs, c, ("@sched", True) in ev[nd.id], "the function is scheduled before the loop is started")
    tmo = own_find(rs, lambda x: method_call_on(x, "self", "add_timeout", "call_later", "call_at"))
    ck.floor("C38.run-sync", len(tmo), 1, "timeout registrations in run_sync")
    for nd, c in tmo:
        ok = holds(facts[nd.id], "%s is None" % tparam, False) and ("@started", True) not in ev[nd.id]
        ck.ob("C38.run-sync", rs, c, ok, "the timeout is armed only when one was given, before the loop starts")
        a0 = c.args[0] if c.args else None
        if q.call_attr(c) == "call_later":
            okd = q.dotted(a0) == tparam
        else:
            okd = isinstance(a0, ast.BinOp) and isinstance(a0.op, ast.Add) and any(method_call_on(p, "self", "time") for p in (a0.left, a0.right)) and any(q.dotted(p) == tparam for p in (a0.left, a0.right))
        if isinstance(c.args[1], ast.Name) and c.args[1].id not in nested:
            cbf_ = resolve_callable_name(ck.repo, rs, c.args[1].id)
            if cbf_ is not None:
                nested[c.args[1].id] = cbf_
        if not (isinstance(c.args[1], ast.Name) and c.args[1].id in nested):
            raise AnalysisError("%s: timeout callback of run_sync is not a nested function" % rs.site(c))
        ck.ob("C38.run-sync", rs, c, okd, "the deadline is now + timeout")
        tcb = ck.use(nested[c.args[1].id]) if isinstance(c.args[1], ast.Name) and c.args[1].id in nested else None
        if tcb is not None:
            cancels = own_find(tcb, lambda x: isinstance(x, ast.Call) and isinstance(x.func, ast.Attribute) and x.func.attr == "cancel" and q.unparse(x.func.value) == cell)
            marks = [nd2 for nd2 in tcb.cfg.stmt_nodes(lambda nd2: nd2.kind == "stmt" and isinstance(nd2.ast, ast.Assign) and "timeout_called" in q.unparse(nd2.ast.targets[0]) and q.is_const(nd2.ast.value, True))]
            ck.ob("C38.run-sync", tcb, tcb.node, len(cancels) >= 1 and len(marks) >= 1, "the timeout callback marks the timeout and cancels the function's future", construct="timeout callback marks+cancels")
            for nd2, c2 in cancels:
                ck.ob("C38.run-sync", tcb, c2, any(tcb.cfg.dominates(m, nd2) for m in marks), "the timeout is marked before the future is cancelled")
            stops = own_find(tcb, lambda x: method_call_on(x, "self", "stop"))
            tf = must_facts(tcb.cfg)
            ck.ob("C38.run-sync", tcb, tcb.node, len(stops) >= 1 and all(holds(tf[nd2.id], "%s.cancel()" % cell, False) for nd2, _ in stops), "if the future cannot be cancelled (already done) the loop is stopped directly", construct="stop when cancel fails")
    rm = own_find(rs, lambda x: method_call_on(x, "self", "remove_timeout"))
    for nd, c in rm:
        ck.ob("C38.run-sync", rs, c, holds(facts[nd.id], "%s is None" % tparam, False) and ("@started", True) in ev[nd.id], "the timeout is removed after the loop stopped, only if one was armed")
    ck.ob("C38.run-sync", rs, rs.node, len(rm) >= 1, "run_sync removes its timeout", construct="removes timeout")
    # run(): func() under an Exception handler; exactly one add_future(cell, <stop>) on every normal path
    scheduled = [x.args[0].id for nd, x in own_find(rs, lambda x: method_call_on(x, "self", "add_callback") and x.args and isinstance(x.args[0], ast.Name) and x.args[0].id in nested)]
    if len(scheduled) != 1:
        raise AnalysisError("%s: cannot identify the scheduled runner function" % rs.site())
    rn = ck.use(nested[scheduled[0]])
    fparam = [x for x in rs.params() if x != "self"][0]
    pm = q.parent_map(rn.node)
    fcalls = own_find(rn, lambda x: isinstance(x, ast.Call) and q.dotted(x.func) == fparam)
    ck.floor("C38.run-sync", len(fcalls), 1, "calls of the user function")
    for nd, c in fcalls:
        h = q.protected_by(pm, c, "Exception")
        if h is None:
            ck.ob("C38.run-sync", rn, c, False, "an exception raised by the function is caught in run() (it must reach run_sync's caller through the future, not escape into the loop)")
            continue
        fails = [x for st in h.body for x in ast.walk(st) if q.is_call(x, "future_set_exc_info", "future_set_exception_unless_cancelled") or (isinstance(x, ast.Call) and isinstance(x.func, ast.Attribute) and x.func.attr == "set_exception")]
        reraises = any(isinstance(x, ast.Raise) for st in h.body for x in ast.walk(st))
        # the failed future reaches the cell: stored directly, or through a local that is stored into the cell
        flows = False
        for x in fails:
            tgt = x.args[0] if not (isinstance(x.func, ast.Attribute) and x.func.attr == "set_exception") else x.func.value
            t = q.unparse(tgt)
            if t == cell:
                flows = True
            elif isinstance(tgt, ast.Name) and any(isinstance(st, ast.Assign) and q.unparse(st.targets[0]) == cell and q.dotted(st.value) == tgt.id for st in own_walk(rn.node)):
                flows = True
        if not fails and not reraises:
            raise AnalysisError("%s: handler for the function's exception in an unrecognised shape" % rn.site(h))
        ck.ob("C38.run-sync", rn, c, bool(fails) and flows and not reraises, "an exception raised by the function is captured in the cell's future (and re-raised by run_sync through result())")
    af = node_counts(rn, lambda x: method_call_on(x, "self", "add_future") and len(x.args) == 2 and q.unparse(x.args[0]) == cell)
    normal, _ = exit_states(rn.cfg, 0, lambda nd, v: min(2, v + af.get(nd.id, 0)))
    for _f, k in normal:
        ck.ob("C38.run-sync", rn, rn.node, k == 1, "the loop is stopped when the function's future finishes: exactly one add_future(<cell>, stop) on every normal path (count=%d)" % k, construct="exit add_future=%d" % k)
    for nd, c in own_find(rn, lambda x: method_call_on(x, "self", "add_future") and len(x.args) == 2):
        lam = c.args[1]
        body_calls = lambda_or_func_body_calls(ck.repo, rn, lam)
        if not isinstance(lam, ast.Lambda) and not body_calls:
            raise AnalysisError("%s: done-callback of the function's future in an unrecognised shape" % rn.site(c))
        ck.ob("C38.run-sync", rn, c, any(method_call_on(x, "self", "stop") for x in body_calls), "the done-callback stops the loop")


def _callback_results(fi, callee_names):
    return {st.targets[0].id: "return value of a user callback (None or an awaitable, which may be falsy)" for st in own_walk(fi.node)
            if isinstance(st, ast.Assign) and len(st.targets) == 1 and isinstance(st.targets[0], ast.Name) and isinstance(st.value, ast.Call) and q.dotted(st.value.func) in callee_names}


def check_none(ck):
    rc = ck.func(IO, "IOLoop._run_callback")
    cbp = [x for x in rc.params() if x != "self"][0]
    ex = _callback_results(rc, {cbp})
    n = check_none_tests(ck, "C38.none-test", rc, extra=ex, only=list(ex))
    rs = ck.func(IO, "IOLoop.run_sync")
    tp = [x for x in rs.params() if x != "self"][1]
    n += check_none_tests(ck, "C38.none-test", rs, only=[tp])
    for nf in ck.repo.nested(rs):
        if isinstance(nf.node, q.FuncNode) and nf.parent is rs:
            ex = _callback_results(nf, {[x for x in rs.params() if x != "self"][0]})
            n += check_none_tests(ck, "C38.none-test", ck.use(nf), extra=ex, only=list(ex) + [tp])
    ck.floor("C38.none-test", n, 4, "None tests on timeouts / callback results")


def run(ck):
    ck._orig_repo = getattr(ck, "_orig_repo", None) or ck.repo
    ck.repo = normalized(ck.repo, NORM_MODULES, only=('tornado/ioloop.py', 'tornado/platform/asyncio.py'))  # alias / named-boolean / temporary / setter-helper normalisation (vt/x_syncnorm.py)
    ck.rule("C38.wrapped", "add_callback / call_at / add_callback_from_signal hand asyncio self._run_callback + functools.partial(callback, *args, **kwargs); spawn_callback delegates to add_callback")
    ck.rule("C38.run-callback", "_run_callback runs the callback under non-re-raising handlers for CancelledError and Exception (logged with traceback) and watches a returned awaitable through add_future(ret, _discard_future_result)")
    ck.rule("C38.thread-safe", "add_callback uses plain call_soon only when the running loop is this loop; every other path (other loop, no loop) uses call_soon_threadsafe; exactly one scheduling call")
    ck.rule("C38.add-future", "add_future reaches the callback only from deferred lambdas: asyncio futures via add_done_callback -> _run_callback(partial(callback, f)); other futures via add_callback; exactly one registration")
    ck.rule("C38.call-at", "call_at passes asyncio the delay max(0, when - now) (all small values), returns the handle; remove_timeout cancels it")
    ck.rule("C38.deadline", "add_timeout: numeric deadline unchanged, timedelta -> now + total_seconds(), other types TypeError; call_later -> now + delay")
    ck.rule("C38.none-test", "optional values with legal falsy values (run_sync's timeout = 0, a callback's falsy return value) are compared with None by identity, never by truthiness")
    ck.rule("C38.run-sync", "run_sync: schedule, arm timeout (now + timeout) iff given, start, remove timeout; timeout callback marks then cancels (or stops); result read only when done and not cancelled; TimeoutError iff the timeout ran else RuntimeError; function errors captured in the future")

    check_wrapped(ck)
    check_run_callback(ck)
    check_thread_safe(ck)
    check_add_future(ck)
    check_call_at(ck)
    check_deadlines(ck)
    check_run_sync(ck)
    check_none(ck)


# ---------------------------------------------------------------------------


def _in(rel, qn, edit):
    return lambda repo: mutate(repo, rel, qn, edit)


def _unwrap_run_callback(root):
    """call_later(d, self._run_callback, partial(cb, ...)) -> call_later(d, partial(cb, ...))"""
    for c in ast.walk(root):
        if isinstance(c, ast.Call) and q.call_attr(c) in SCHED:
            for i, a in enumerate(c.args):
                if q.dotted(a) == "self._run_callback":
                    del c.args[i]
                    return True
    return False


def _sync_add_future(root):
    """asyncio branch registers through future_add_done_callback (synchronous when already done)"""
    for c in ast.walk(root):
        if isinstance(c, ast.Call) and isinstance(c.func, ast.Attribute) and c.func.attr == "add_done_callback":
            fut = c.func.value
            c.func = ast.Name(id="future_add_done_callback", ctx=ast.Load())
            c.args = [fut] + c.args
            return True
    return False


def _always_call_soon(root):
    n = 0
    for a in ast.walk(root):
        if isinstance(a, ast.Attribute) and a.attr == "call_soon_threadsafe":
            a.attr = "call_soon"
            n += 1
    return n > 0


def _handler_reraises(root):
    for h in ast.walk(root):
        if isinstance(h, ast.ExceptHandler) and q.handler_names(h) == ["Exception"]:
            h.body.append(ast.Raise())
            return True
    return False


def _drop_cancel_handler(root):
    for t in ast.walk(root):
        if isinstance(t, ast.Try):
            for i, h in enumerate(t.handlers):
                if handler_catches_cancel(h) and len(t.handlers) > 1:
                    del t.handlers[i]
                    return True
    return False


MUTANTS = [
    ("timedelta deadlines via call_later(deadline.seconds + microseconds/1e6) (days dropped; seeded C38-adv6)", _in(IO, "IOLoop.add_timeout", replace_expr(lambda n: isinstance(n, ast.Call) and q.call_attr(n) == "call_at" and "total_seconds" in ast.unparse(n), lambda n: ast.Call(func=ast.Attribute(value=ast.Name(id="self", ctx=ast.Load()), attr="call_later", ctx=ast.Load()), args=[parse_expr("deadline.seconds + deadline.microseconds / 1e6")] + n.args[1:], keywords=n.keywords))), "C38.deadline"),
    ("run_sync(timeout=0) treated as no timeout (`if timeout:`)", _in(IO, "IOLoop.run_sync", replace_expr(lambda n: isinstance(n, ast.Compare) and isinstance(n.ops[0], ast.IsNot) and ast.unparse(n.left) == "timeout", lambda n: n.left, limit=2)), "C38.none-test"),
    ("_run_callback ignores a falsy awaitable (`if ret:`)", _in(IO, "IOLoop._run_callback", replace_expr(lambda n: isinstance(n, ast.Compare) and isinstance(n.ops[0], ast.IsNot), lambda n: n.left)), "C38.none-test"),
    ("add_future may call back synchronously for a finished asyncio future", _in(IO, "IOLoop.add_future", _sync_add_future), "C38.add-future"),
    ("add_future calls the callback directly when the future is already done", _in(IO, "IOLoop.add_future", replace_stmt(lambda st: isinstance(st, ast.Expr) and "add_done_callback" in ast.unparse(st) and "_run_callback" in ast.unparse(st), lambda st: [ast.If(test=parse_expr("future.done()"), body=[parse_stmt("callback(future)")], orelse=[st])])), "C38.add-future"),
    ("add_callback always uses call_soon (no wake-up from other threads)", _in(PA, "BaseAsyncIOLoop.add_callback", _always_call_soon), "C38.thread-safe"),
    ("add_callback picks the schedulers the wrong way round (inverted identity test)", _in(PA, "BaseAsyncIOLoop.add_callback", replace_expr(lambda n: isinstance(n, ast.Compare) and isinstance(n.ops[0], ast.Is) and "get_running_loop" in ast.unparse(n), lambda n: ast.Compare(left=n.left, ops=[ast.IsNot()], comparators=n.comparators))), "C38.thread-safe"),
    ("add_callback uses call_soon whenever the calling thread has ANY running loop (seeded C38-adv1)", _in(PA, "BaseAsyncIOLoop.add_callback", lambda root: _any_loop(root)), "C38.thread-safe"),
    ("add_callback uses plain call_soon when no loop runs in the calling thread", _in(PA, "BaseAsyncIOLoop.add_callback", lambda root: _handler_plain(root)), "C38.thread-safe"),
    ("call_at schedules the bare callback (no _run_callback)", _in(PA, "BaseAsyncIOLoop.call_at", _unwrap_run_callback), "C38.wrapped"),
    ("add_callback schedules the bare callback (no _run_callback)", _in(PA, "BaseAsyncIOLoop.add_callback", _unwrap_run_callback), ("C38.wrapped", "C38.thread-safe")),
    ("call_at passes a negative delay for past deadlines (clamp removed)", _in(PA, "BaseAsyncIOLoop.call_at", replace_expr(lambda n: q.is_call(n, "max"), lambda n: n.args[1])), "C38.call-at"),
    ("remove_timeout forgets to cancel", _in(PA, "BaseAsyncIOLoop.remove_timeout", replace_stmt(lambda st: "cancel" in ast.unparse(st), lambda st: [ast.Pass()])), "C38.call-at"),
    ("_run_callback re-raises after logging", _in(IO, "IOLoop._run_callback", _handler_reraises), "C38.run-callback"),
    ("_run_callback lets CancelledError escape", _in(IO, "IOLoop._run_callback", _drop_cancel_handler), "C38.run-callback"),
    ("_run_callback ignores the awaitable a callback returns", _in(IO, "IOLoop._run_callback", remove_stmts(lambda st: isinstance(st, ast.Expr) and "add_future" in ast.unparse(st))), "C38.run-callback"),
    ("timedelta deadlines use .seconds (days dropped)", _in(IO, "IOLoop.add_timeout", replace_expr(lambda n: isinstance(n, ast.Call) and q.call_attr(n) == "total_seconds", lambda n: ast.Attribute(value=n.func.value, attr="seconds", ctx=ast.Load()))), "C38.deadline"),
    ("call_later treats the delay as an absolute time", _in(IO, "IOLoop.call_later", replace_expr(lambda n: isinstance(n, ast.BinOp) and isinstance(n.op, ast.Add), lambda n: n.right)), "C38.deadline"),
    ("run_sync returns the result without checking for cancellation", _in(IO, "IOLoop.run_sync", replace_expr(lambda n: isinstance(n, ast.BoolOp) and isinstance(n.op, ast.Or) and "cancelled" in ast.unparse(n), lambda n: n.values[1])), "C38.run-sync"),
    ("run_sync reports a timeout as RuntimeError", _in(IO, "IOLoop.run_sync", replace_expr(lambda n: isinstance(n, ast.Subscript) and "timeout_called" in ast.unparse(n) and isinstance(n.ctx, ast.Load), lambda n: ast.UnaryOp(op=ast.Not(), operand=n))), "C38.run-sync"),
    ("run_sync's timeout callback stops the loop without cancelling the function", _in(IO, "IOLoop.run_sync.<locals>.timeout_callback", replace_stmt(lambda st: isinstance(st, ast.If) and "cancel()" in ast.unparse(st.test), lambda st: st.body)), "C38.run-sync"),
    ("run_sync lets an exception of func() escape into the loop", _in(IO, "IOLoop.run_sync.<locals>.run", lambda root: _narrow_first_handler(root)), "C38.run-sync"),
]


def _narrow_first_handler(root):
    for h in ast.walk(root):
        if isinstance(h, ast.ExceptHandler) and q.handler_names(h) == ["Exception"]:
            h.type = ast.Name(id="KeyError", ctx=ast.Load())
            return True
    return False


def _handler_plain(root):
    for h in ast.walk(root):
        if isinstance(h, ast.ExceptHandler) and "call_soon_threadsafe" in ast.unparse(h):
            for a in ast.walk(h):
                if isinstance(a, ast.Attribute) and a.attr == "call_soon_threadsafe":
                    a.attr = "call_soon"
                    return True
    return False


def _any_loop(root):
    for t in ast.walk(root):
        if isinstance(t, ast.Try) and "get_running_loop" in ast.unparse(t.body[0]) and isinstance(t.body[0], ast.If):
            t.body = [ast.Expr(value=parse_expr("asyncio.get_running_loop()"))]
            t.orelse = [parse_stmt("call_soon = self.asyncio_loop.call_soon")]
            return True
    return False
