"""C06 — HTTPHeaders behaves as a case-insensitive, insertion-ordered multimap.

Decided statically (DESIGN.md §4 C06): the *discipline* that keeps the two
dictionaries of ``HTTPHeaders`` (``_as_list`` = authority, ``_combined_cache`` =
partial memo of the comma-joined value) coherent on every CFG path of every
method, that every externally supplied name reaches them only in normalised
form, that presence is decided by the authority alone, that deletion removes
the authority entry without assuming a cache entry, that copies share no list
objects, and that continuation lines extend the last value of the last added
name.  Not decided: multimap equivalence for whole operation sequences and the
serialise/parse round trip (value questions).
"""
from __future__ import annotations

import ast

from .. import q
from ..cfg import must_facts, canon_fact
from ..mutate import mutate, remove_stmts, replace_expr, replace_stmt, parse_stmt, parse_expr
from ..model import AnalysisError
from ..x_resolve import normalise, expand, resolve, unique_def

TECHNIQUE = "guard-dominance dataflow (must-facts with generated membership facts) + who-may-write/ownership lint + key-provenance (normalisation) lint on the HTTPHeaders class"
EXPLANATION = (
    "Every access to HTTPHeaders._as_list / _combined_cache in every method is enumerated from the AST. "
    "Presence-assuming cache accesses need a dominating membership fact or same-key store (partial-cache discipline); "
    "every list mutation needs a same-key cache store/invalidation that dominates or post-dominates it (coherence); "
    "cache stores must be the comma-join of the same key's list; keys must be _normalize_header() results; "
    "presence/len/iteration read the authority only; deletion removes the authority entry on every normal path; "
    "copying goes through add() per value with no list aliasing; continuation lines extend [-1] of _last_key, which add() sets on every path."
)
NOT_DECIDED = (
    "multimap equivalence for arbitrary operation sequences, insertion order, the serialise/parse round trip, "
    "validation of continuation text (C01/C07), and a continuation line after the last key was deleted (internal invariant on _last_key)"
)
LEVEL_NOTE = "structural necessary conditions on the HTTPHeaders class; dict/list semantics of CPython are trusted"

HU = "tornado/httputil.py"
CLS = "HTTPHeaders"
LIST = "self._as_list"
CACHE = "self._combined_cache"
CASE_METHODS = ("capitalize", "lower", "upper", "title", "casefold")


# ---------------------------------------------------------------------------
# access enumeration


class Acc:
    """One access to one of the two dicts inside a method."""

    def __init__(self, d, kind, key, node, stmt_node):
        self.d = d          # LIST | CACHE
        self.kind = kind    # load store del get pop setdefault contains whole-load whole-store iter mut-append mut-aug mut-other
        self.key = key      # ast expr or None
        self.node = node    # ast node of the access
        self.cfgnode = stmt_node

    @property
    def keytext(self):
        return q.unparse(self.key) if self.key is not None else None


def accesses(fi):
    """All accesses to the two dicts in ``fi`` with their CFG node."""
    out = []
    pm = q.parent_map(fi.node)
    for cnode, n in fi.cfg.find(lambda x: isinstance(x, ast.Attribute) and q.dotted(x) in (LIST, CACHE)):
        d = q.dotted(n)
        p = pm.get(n)
        if isinstance(p, ast.Subscript) and p.value is n:
            key = p.slice
            if isinstance(p.ctx, ast.Store):
                gp = pm.get(p)
                kind = "mut-aug" if isinstance(gp, ast.AugAssign) and gp.target is p else "store"
            elif isinstance(p.ctx, ast.Del):
                kind = "del"
            else:
                kind = "load"
                gp = pm.get(p)
                # self._as_list[K].append(v) / .extend / .insert ...
                if isinstance(gp, ast.Attribute) and gp.value is p and isinstance(pm.get(gp), ast.Call) and pm[gp].func is gp:
                    if gp.attr in ("append", "extend", "insert", "remove", "pop", "clear", "sort", "reverse"):
                        kind = "mut-append"
                # self._as_list[K][i] = / += / del
                if isinstance(gp, ast.Subscript) and gp.value is p and isinstance(gp.ctx, (ast.Store, ast.Del)):
                    kind = "mut-aug"
            out.append(Acc(d, kind, key, p, cnode))
        elif isinstance(p, ast.Attribute) and p.value is n and isinstance(pm.get(p), ast.Call) and pm[p].func is p:
            call = pm[p]
            m = p.attr
            if m in ("get", "pop", "setdefault", "__getitem__", "__delitem__", "__contains__"):
                key = call.args[0] if call.args else None
                if key is None:
                    raise AnalysisError("%s: %s.%s() without key" % (fi.qualname, d, m))
                kind = {"__getitem__": "load", "__delitem__": "del", "__contains__": "contains"}.get(m, m)
                acc = Acc(d, kind, key, call, cnode)
                acc.has_default = len(call.args) > 1 or bool(call.keywords)
                out.append(acc)
            elif m in ("items", "keys", "values", "copy"):
                out.append(Acc(d, "iter", None, call, cnode))
            elif m in ("clear", "update", "popitem"):
                out.append(Acc(d, "mut-other", None, call, cnode))
            else:
                raise AnalysisError("%s: unknown dict method %s.%s()" % (fi.qualname, d, m))
        elif isinstance(p, ast.Compare) and any(c is n for c in p.comparators) and len(p.ops) == 1 and isinstance(p.ops[0], (ast.In, ast.NotIn)):
            out.append(Acc(d, "contains", p.left, p, cnode))
        elif isinstance(n.ctx, ast.Store):
            out.append(Acc(d, "whole-store", None, n, cnode))
        elif isinstance(n.ctx, ast.Del):
            out.append(Acc(d, "mut-other", None, n, cnode))
        elif isinstance(p, ast.Call) and q.call_attr(p) in ("len", "iter", "list", "sorted", "bool") and n in p.args:
            out.append(Acc(d, "iter", None, p, cnode))
        else:
            out.append(Acc(d, "whole-load", None, n, cnode))
    # a local bound to self._as_list[K] is an alias of that list: mutations through it are mutations of _as_list[K]
    aliases = {}
    for a in out:
        if a.d == LIST and a.kind == "load":
            st = pm.get(a.node)
            if isinstance(st, ast.Assign) and st.value is a.node and len(st.targets) == 1 and isinstance(st.targets[0], ast.Name):
                aliases[st.targets[0].id] = a
    if aliases:
        for cnode, n in fi.cfg.find(lambda x: isinstance(x, ast.Name) and x.id in aliases and isinstance(x.ctx, ast.Load)):
            src = aliases[n.id]
            p = pm.get(n)
            if isinstance(p, ast.Subscript) and p.value is n and isinstance(p.ctx, (ast.Store, ast.Del)):
                out.append(Acc(LIST, "mut-aug", src.key, n, cnode))
            elif isinstance(p, ast.Attribute) and p.value is n and isinstance(pm.get(p), ast.Call) and pm[p].func is p and p.attr in ("append", "extend", "insert", "remove", "pop", "clear", "sort", "reverse"):
                out.append(Acc(LIST, "mut-append", src.key, n, cnode))
            elif isinstance(p, (ast.Return, ast.Call, ast.Yield)) and not (isinstance(p, ast.Call) and q.call_attr(p) in ("len", "join", "iter", "list", "tuple", "bool")):
                pass
    return out


def membership_fact(keytext, d=CACHE):
    return canon_fact(ast.parse("%s in %s" % (keytext, d), mode="eval").body, True)


def cache_facts(fi, accs):
    """Must-facts where a same-key store into the cache generates the membership
    fact ``K in self._combined_cache`` (killed, like the branch fact, by any
    later mutation of the cache or re-binding of K)."""
    gens = {}
    for a in accs:
        if a.d == CACHE and a.kind in ("store", "setdefault"):
            gens.setdefault(a.cfgnode.id, []).append(membership_fact(a.keytext))
    return must_facts(fi.cfg, gen_node=lambda n: gens.get(n.id, ()))


# ---------------------------------------------------------------------------
# rules


def rule_partial_cache(ck, methods, all_acc):
    n = 0
    tolerant = 0
    for fi in methods:
        accs = all_acc[fi.qualname]
        for a in accs:
            if a.d == CACHE and ((a.kind == "pop" and a.has_default) or a.kind in ("get", "contains")):
                tolerant += 1
            elif a.d == CACHE and a.kind in ("load", "del", "pop") and q.protected_by(q.parent_map(fi.node), a.node, "KeyError") is not None:
                tolerant += 1
    # the contradiction rule is only meaningful if the class itself treats the cache as partial
    ck.need(tolerant >= 1, "C06.partial-cache: no tolerant access (pop(k, default) / membership test) of _combined_cache found; the cache is not partial any more")
    for fi in methods:
        accs = all_acc[fi.qualname]
        strict = [a for a in accs if a.d == CACHE and (a.kind in ("load", "del") or (a.kind == "pop" and not a.has_default))]
        # try: cache[k] ... except KeyError: is the exception-style spelling of a membership test
        pmx = q.parent_map(fi.node)
        strict = [a for a in strict if q.protected_by(pmx, a.node, "KeyError") is None]
        if not strict:
            continue
        facts = cache_facts(fi, accs)
        for a in strict:
            n += 1
            ok = membership_fact(a.keytext) in facts[a.cfgnode.id]
            ck.ob("C06.partial-cache", fi, a.cfgnode.ast if a.kind == "del" and isinstance(a.cfgnode.ast, ast.Delete) else a.node, ok,
                  "presence-assuming access %s[%s] (%s) must be dominated by '%s in %s' or a store of the same key" % (CACHE, a.keytext, a.kind, a.keytext, CACHE))
    return n


def _list_mutations(accs):
    return [a for a in accs if a.d == LIST and a.kind in ("store", "del", "mut-append", "mut-aug", "setdefault") or (a.d == LIST and a.kind == "pop")]


def _cache_writes(accs):
    return [a for a in accs if a.d == CACHE and a.kind in ("store", "del", "pop", "setdefault")]


def _refills(nd):
    """Reading self[...] / self.get(..) may refill the cache through __getitem__."""
    if nd.ast is None or nd.kind not in ("stmt", "test", "for", "with"):
        return False
    from ..cfg import _node_roots

    for root in _node_roots(nd):
        for x in q.walk_local(root):
            if isinstance(x, ast.Subscript) and q.dotted(x.value) == "self" and isinstance(x.ctx, ast.Load):
                return True
            if isinstance(x, ast.Call) and q.dotted(x.func) in ("self.get", "self.__getitem__", "self.items", "self.values", "self.pop", "self.setdefault"):
                return True
    return False


def rule_coherence(ck, methods, all_acc):
    """Path-sensitive: abstract value = (keys whose cache entry is known
    written/absent, pending (key, site) pairs = list mutated while the cache
    entry may be stale).  A pending pair reaching the normal exit is a violation."""
    from ..cfg import explore

    n = 0
    for fi in methods:
        accs = all_acc[fi.qualname]
        for a in accs:
            if a.kind in ("mut-other", "whole-store") and fi.name != "__init__":
                raise AnalysisError("C06: %s rebinds/clears %s wholesale - unknown idiom" % (fi.qualname, a.d))
        muts = _list_mutations(accs)
        if not muts:
            continue
        cw = _cache_writes(accs)
        writes = {}
        for a in cw:
            writes.setdefault(a.cfgnode.id, set()).add(a.keytext)
        mutn = {}
        for a in muts:
            mutn.setdefault(a.cfgnode.id, set()).add(a.keytext)
        absent_text = {}
        for k in {a.keytext for a in muts}:
            absent_text[membership_fact(k)[0]] = k

        def transfer(nd, val):
            clean, pending = val
            if nd.kind in ("exit", "rexit"):
                return val
            if nd.id not in writes and _refills(nd):
                clean = frozenset()
            for k in mutn.get(nd.id, ()):
                if k not in clean and k not in writes.get(nd.id, ()):
                    pending = pending | {(k, nd.id)}
            for k in writes.get(nd.id, ()):
                clean = clean | {k}
                pending = frozenset(p for p in pending if p[0] != k)
            return (clean, pending)

        def edge(nd, kind, val):
            clean, pending = val
            if nd.kind == "test" and kind in ("true", "false"):
                t, pol = canon_fact(nd.ast, kind == "true")
                k = absent_text.get(t)
                if k is not None and pol is False:
                    clean = clean | {k}
                    pending = frozenset(p for p in pending if p[0] != k)
            return (clean, pending)

        seen = explore(fi.cfg, (frozenset(), frozenset()), transfer, lambda t: False, edge_transfer=edge, follow_exc=False, exc_effect=True)
        bad = set()
        for _f, (clean, pending) in seen.get(fi.cfg.exit.id, ()):
            bad |= {nid for _k, nid in pending}
        for a in muts:
            n += 1
            k = a.keytext
            ck.ob("C06.coherence", fi, a.cfgnode.ast if isinstance(a.cfgnode.ast, ast.stmt) else a.node, a.cfgnode.id not in bad,
                  "mutation of %s[%s] (%s): on every normal path %s[%s] is stored/invalidated (or known absent) before the mutation with no refill in between, or afterwards before returning" % (LIST, k, a.kind, CACHE, k))
    return n


def rule_cache_value(ck, methods, all_acc):
    n = 0
    for fi in methods:
        accs = all_acc[fi.qualname]
        pm = q.parent_map(fi.node)
        for a in accs:
            if a.d != CACHE or a.kind != "store":
                continue
            st = pm.get(a.node)
            if not isinstance(st, ast.Assign):
                raise AnalysisError("C06.cache-value: cache store in %s is not a simple assignment" % fi.qualname)
            v = resolve(fi, st.value)
            n += 1
            ok = False
            why = ""
            if isinstance(v, ast.Call) and isinstance(v.func, ast.Attribute) and v.func.attr == "join" and len(v.args) == 1:
                sep = v.func.value
                arg = v.args[0]
                src_ok = isinstance(arg, ast.Subscript) and q.dotted(arg.value) == LIST and q.unparse(arg.slice) == a.keytext
                ok = q.is_const(sep, ",") and src_ok
                why = "','.join(%s[%s])" % (LIST, a.keytext)
            else:
                # single-value store: the same function stores the one-element list [v] under the same key
                vt = q.unparse(v)
                lists = [pm.get(b.node) for b in accs if b.d == LIST and b.kind == "store" and b.keytext == a.keytext]
                lists = [st2 for st2 in lists if isinstance(st2, ast.Assign)]
                if not lists:
                    raise AnalysisError("C06.cache-value: value %s memoised in %s is neither a join of the list nor paired with a list store (unknown idiom)" % (vt, fi.qualname))
                for st2 in lists:
                    lv = resolve(fi, st2.value)
                    if isinstance(lv, ast.List) and len(lv.elts) == 1 and q.unparse(resolve(fi, lv.elts[0])) == vt:
                        ok = True
                    elif not isinstance(lv, (ast.List, ast.Name, ast.Attribute, ast.Subscript)):
                        raise AnalysisError("C06.cache-value: list value %s in %s not recognised" % (q.unparse(lv), fi.qualname))
                why = "the single value also stored as %s[%s] = [value]" % (LIST, a.keytext)
            ck.ob("C06.cache-value", fi, st, ok, "value memoised in %s[%s] must be %s" % (CACHE, a.keytext, why or "the comma-join of the same key's list"))
    return n


def rule_normalize(ck, methods, all_acc):
    """Key provenance."""
    n = 0
    norm = ck.func(HU, "_normalize_header")
    # shape of the normaliser: its return value applies a case-normalising str method to data derived from the parameter
    rets = [x for x in q.walk_body(norm.node) if isinstance(x, ast.Return) and x.value is not None]
    ck.need(len(rets) >= 1, "_normalize_header has no return value")
    param = [p for p in norm.params()][0]
    for r in rets:
        rv = expand(norm, r.value)
        # a case-folding str method applied directly or passed as a function (map(str.capitalize, ...))
        cm = [c for c in ast.walk(rv) if isinstance(c, ast.Attribute) and c.attr in CASE_METHODS]
        if cm and param not in q.names_in(rv):
            raise AnalysisError("C06.normalize: cannot relate the value returned by _normalize_header to its parameter")
        ck.ob("C06.normalize", norm, r, bool(cm), "_normalize_header returns a case-normalised form of its argument (one of %s applied)" % "/".join(CASE_METHODS))
        # whitespace or other lossy folding would merge distinct names: only case methods, split/join allowed
        other = [c.func.attr for c in ast.walk(rv) if isinstance(c, ast.Call) and isinstance(c.func, ast.Attribute) and c.func.attr not in CASE_METHODS + ("split", "join")]
        if other:
            raise AnalysisError("C06.normalize: unknown string operation(s) %s in _normalize_header" % other)

    def classify(fi, key):
        """'norm' | 'raw' | 'last' | 'iter' | None"""
        if q.dotted(key) == "self._last_key":
            return "last"
        if isinstance(key, ast.Attribute) and key.attr == "_last_key":
            return "last"   # another HTTPHeaders' _last_key obeys the same invariant (reading it from outside self is C06.owner's business)
        if isinstance(key, ast.Call) and q.call_attr(key) == "_normalize_header":
            return "norm"
        if isinstance(key, ast.Name):
            params = set(fi.params())
            stores = []
            loop = False
            for x in q.walk_body(fi.node):
                if isinstance(x, (ast.Assign, ast.AnnAssign)) and key.id in q.assigned_paths(x):
                    stores.append(x.value)
                elif isinstance(x, (ast.For, ast.comprehension)) and key.id in q.names_in(x.target):
                    loop = True
                    it = x.iter
                    src = it.func.value if isinstance(it, ast.Call) and isinstance(it.func, ast.Attribute) and it.func.attr in ("items", "keys", "get_all") else it
                    if not (isinstance(src, ast.Attribute) and src.attr == "_as_list") and not (isinstance(it, ast.Call) and q.call_attr(it) == "get_all"):
                        return None  # keys of some HTTPHeaders' authority are already normalised; anything else is unknown
            if loop and not stores:
                return "iter"
            is_norm = lambda v: isinstance(v, ast.Call) and q.call_attr(v) == "_normalize_header" and len(v.args) == 1
            if key.id in params:
                # a parameter (also one re-bound to a slice/strip of itself) is raw; re-binding it to the normalised form is an unknown idiom
                if any(v is not None and any(is_norm(x) for x in ast.walk(v)) for v in stores):
                    return None
                return "raw"
            if stores and all(is_norm(v) for v in stores):
                return "norm"
            if stores and all(isinstance(v, ast.Name) and v.id in params for v in stores):
                return "raw"
        return None

    for fi in methods:
        for a in all_acc[fi.qualname]:
            if a.key is None:
                continue
            n += 1
            c = classify(fi, a.key)
            if c is None:
                raise AnalysisError("C06.normalize: cannot classify key %s used on %s in %s" % (a.keytext, a.d, fi.qualname))
            ck.ob("C06.normalize", fi, a.node, c != "raw", "key %s used on %s must be a _normalize_header() result (%s)" % (a.keytext, a.d, c))
        # stores to _last_key
        for st in q.stores_to(fi.node, "self._last_key"):
            v = getattr(st, "value", None)
            n += 1
            if v is None:
                raise AnalysisError("C06.normalize: unknown write to _last_key in %s" % fi.qualname)
            c = "none" if q.is_const(v, None) else classify(fi, v)
            if c is None:
                raise AnalysisError("C06.normalize: cannot classify value %s stored to _last_key in %s" % (q.unparse(v), fi.qualname))
            ck.ob("C06.normalize", fi, st, c in ("none", "norm", "last", "iter"), "self._last_key only holds normalised names (%s)" % c)
    return n


def rule_owner(ck):
    n = 0
    for fi in ck.repo.all_funcs():
        inside = fi.file == HU and (fi.qualname.startswith(CLS + "."))
        for x in q.walk_body(fi.node):
            if isinstance(x, ast.Attribute) and x.attr in ("_as_list", "_combined_cache"):
                base = q.dotted(x.value)
                if inside and base == "self":
                    continue
                if inside:
                    continue   # another instance's state read inside the class: whether it is *copied* is decided by C06.copy-independent
                n += 1
                ck.ob("C06.owner", fi, x, False, "%s.%s is accessed outside HTTPHeaders' own 'self' (only HTTPHeaders methods may touch the two dicts; other instances go through the public API)" % (base, x.attr))
    # positive control / floor: the class itself uses both
    return n


def _copy_verdict(v, d):
    """Is ``v`` (initialiser of self._as_list / self._combined_cache) independent of every other object?
    True / False (positively shares) / None (not recognised)."""
    if v is None:
        return None
    foreign = [x for x in ast.walk(v) if isinstance(x, ast.Attribute) and x.attr in ("_as_list", "_combined_cache")]
    if any(isinstance(x, ast.Call) and q.call_attr(x) == "deepcopy" for x in ast.walk(v)):
        return True
    if isinstance(v, (ast.Attribute, ast.Name, ast.Subscript)):
        return False if (foreign or isinstance(v, ast.Name)) else None      # bound to somebody else's dict object
    shallow = (isinstance(v, ast.Call) and (q.dotted(v.func) in ("dict", "copy.copy") or q.call_attr(v) == "copy")) or (isinstance(v, ast.Dict) and any(k is None for k in v.keys))
    if d == CACHE:
        # values are immutable strings: a shallow copy is independent
        if shallow or isinstance(v, ast.DictComp):
            return True
        return None
    # _as_list: the value lists must be fresh objects too
    if isinstance(v, ast.DictComp):
        val = v.value
        fresh_val = isinstance(val, (ast.List, ast.ListComp)) or (isinstance(val, ast.Call) and (q.dotted(val.func) in ("list", "copy.copy") or q.call_attr(val) == "copy")) or (isinstance(val, ast.Subscript) and isinstance(val.slice, ast.Slice))
        if fresh_val:
            return True
        if isinstance(val, (ast.Name, ast.Attribute, ast.Subscript)):
            return False    # {k: v for ...}: the very same list objects
        return None
    if shallow and foreign:
        return False        # dict(other._as_list) / other._as_list.copy(): new dict, shared lists
    return None


def rule_copy(ck, methods, all_acc):
    n = 0
    inits = [f for f in methods if f.name == "__init__"]
    ck.need(len(inits) == 1, "expected exactly one non-overload HTTPHeaders.__init__, found %d" % len(inits))
    init = inits[0]
    pm = q.parent_map(init.node)
    # (a) fresh containers
    for fi in methods:
        for a in all_acc[fi.qualname]:
            if a.kind == "whole-store":
                st = pm.get(a.node) if fi is init else q.parent_map(fi.node).get(a.node)
                v = getattr(st, "value", None)
                n += 1
                fresh = (isinstance(v, ast.Dict) and not v.keys) or (isinstance(v, ast.Call) and q.dotted(v.func) in ("dict", "collections.OrderedDict") and not v.args and not v.keywords)
                verdict = _copy_verdict(v, a.d) if not fresh else True
                if verdict is None:
                    raise AnalysisError("C06.copy-independent: unknown initialiser for %s in %s: %s" % (a.d, fi.qualname, q.unparse(v) if v is not None else "?"))
                ck.ob("C06.copy-independent", fi, st, verdict, "%s is bound to a fresh dict%s, never to (or sharing mutable parts with) another object's dict" % (a.d, " with fresh value lists" if a.d == LIST else ""))
            if a.d == LIST and a.kind in ("store", "setdefault"):
                if a.kind == "store":
                    st = q.parent_map(fi.node).get(a.node)
                    v = getattr(st, "value", None)
                else:
                    v = a.node.args[1] if len(a.node.args) > 1 else None
                n += 1
                if v is None:
                    raise AnalysisError("C06.copy-independent: unknown list store in %s" % fi.qualname)
                fresh = isinstance(v, (ast.List, ast.ListComp)) or (isinstance(v, ast.Call) and q.dotted(v.func) in ("list", "copy.copy", "copy.deepcopy")) or (isinstance(v, ast.Subscript) and isinstance(v.slice, ast.Slice))
                if not fresh and not isinstance(v, (ast.Name, ast.Attribute, ast.Subscript)):
                    raise AnalysisError("C06.copy-independent: unknown list value %s in %s" % (q.unparse(v), fi.qualname))
                ck.ob("C06.copy-independent", fi, a.node, fresh, "%s[%s] is bound to a fresh list object (no aliasing of a caller's or another map's list)" % (LIST, a.keytext))
    # (b) copy constructor: values are re-added one by one
    loops = [x for x in q.walk_body(init.node) if isinstance(x, ast.For) and isinstance(x.iter, ast.Call) and q.call_attr(x.iter) == "get_all"]
    if not loops:
        # a copy constructor that takes the source's state directly: every read of the source's dicts must be inside a
        # whole-dict store judged above (a copy); anything else is not recognised
        foreign = [x for x in q.walk_body(init.node) if isinstance(x, ast.Attribute) and x.attr in ("_as_list", "_combined_cache") and q.dotted(x.value) != "self"]
        if not foreign:
            raise AnalysisError("HTTPHeaders.__init__: copy-constructor loop over other.get_all() not found (unknown idiom)")
        stores = [pm.get(a.node) for a in all_acc[init.qualname] if a.kind == "whole-store"]
        for x in foreign:
            if not any(st is not None and any(y is x for y in ast.walk(st)) for st in stores):
                raise AnalysisError("HTTPHeaders.__init__: the source's %s is used outside a recognised copy (unknown idiom)" % x.attr)
        copied = {a.d for a in all_acc[init.qualname] if a.kind == "whole-store" and any(isinstance(y, ast.Attribute) and y.attr in ("_as_list", "_combined_cache") and q.dotted(y.value) != "self" for y in ast.walk(pm.get(a.node)))}
        n += 1
        ck.ob("C06.copy-independent", init, init.node, LIST in copied, "a copy constructor that does not re-add the pairs copies the source's value lists", construct="state copy without _as_list")
    for lp in loops:
        tnames = [t.id for t in ast.walk(lp.target) if isinstance(t, ast.Name)]
        adds = [c for st in lp.body for c in q.calls(st) if q.dotted(c.func) == "self.add"]
        def add_ok(c):
            if len(tnames) == 2 and [q.dotted(x) for x in c.args[:2]] == tnames[:2]:
                return True
            if len(tnames) == 1 and len(c.args) == 1 and isinstance(c.args[0], ast.Starred) and q.dotted(c.args[0].value) == tnames[0]:
                return True    # for pair in src.get_all(): self.add(*pair)
            if len(tnames) == 2 and [q.dotted(x) for x in c.args[:2]] == tnames[1::-1]:
                return False   # name and value swapped: positively wrong
            if len(tnames) == 1 and len(c.args) == 2 and all(isinstance(x, ast.Subscript) and q.dotted(x.value) == tnames[0] for x in c.args[:2]):
                idx = [getattr(x.slice, "value", None) for x in c.args[:2]]
                return idx == [0, 1]
            raise AnalysisError("C06.copy-independent: arguments of self.add in the copy loop not recognised: %s" % q.unparse(c))
        ok = len(adds) >= 1 and all(add_ok(c) for c in adds)
        n += 1
        ck.ob("C06.copy-independent", init, lp, ok, "copy constructor re-adds every (name, value) pair of the source through self.add(name, value)")
        # the loop is taken for an HTTPHeaders argument
        facts = must_facts(init.cfg)
        nodes = init.cfg.nodes_for(lp.iter)
        ck.need(nodes, "copy loop not in CFG")
        isinst = any(pol and "isinstance(" in t and "HTTPHeaders" in t for nd in nodes for (t, pol) in facts[nd.id])
        ck.ob("C06.copy-independent", init, lp.iter, isinst, "the per-value copy loop is the branch taken for an HTTPHeaders argument (isinstance test dominates)")
    # (c) copy()/__copy__ construct a new map from self
    cp = ck.func(HU, CLS + ".copy")
    rets = [r for r in q.walk_body(cp.node) if isinstance(r, ast.Return)]
    for r in rets:
        v = r.value
        ok = isinstance(v, ast.Call) and q.dotted(v.func) in (CLS, "self.__class__", "type(self)") or (isinstance(v, ast.Call) and isinstance(v.func, ast.Call) and q.dotted(v.func.func) == "type")
        if not ok and isinstance(v, ast.Call):
            raise AnalysisError("C06.copy-independent: copy() returns %s, not a recognised construction" % q.unparse(v))
        ok = bool(ok) and len(v.args) == 1 and q.dotted(v.args[0]) == "self" and not v.keywords
        n += 1
        ck.ob("C06.copy-independent", cp, r, ok, "copy() returns a new HTTPHeaders constructed from self (copy constructor)")
    ck.need(rets, "HTTPHeaders.copy has no return")
    alias = ck.repo.class_attr(HU, CLS, "__copy__")
    n += 1
    ck.ob("C06.copy-independent", None, alias, q.dotted(alias) == "copy", "copy.copy() uses the same copy method (__copy__ = copy)", construct="__copy__ = %s" % q.unparse(alias), file=HU)
    return n


def rule_authority(ck, methods, all_acc):
    n = 0
    byname = {f.name: f for f in methods if not f.qualname.count("#")}
    for name in ("__contains__", "__len__", "__iter__", "get_list", "get_all"):
        fi = byname.get(name)
        if fi is None:
            raise AnalysisError("HTTPHeaders.%s not found" % name)
        accs = all_acc[fi.qualname]
        uses_list = any(a.d == LIST for a in accs)
        uses_cache = [a for a in accs if a.d == CACHE]
        if not uses_list and not uses_cache:
            raise AnalysisError("C06.authority: %s touches neither dictionary directly (delegation not recognised)" % fi.qualname)
        n += 1
        ck.ob("C06.authority", fi, fi.node, uses_list and not uses_cache, "%s answers from the authority %s only (never from the partial cache)" % (name, LIST),
              construct="%s reads list=%s cache=%d" % (name, uses_list, len(uses_cache)))
    # __contains__: the positive answer is a membership test on the authority with the normalised key
    fi = byname["__contains__"]
    for r in [x for x in q.walk_body(fi.node) if isinstance(x, ast.Return)]:
        v = r.value
        if isinstance(v, ast.Constant) and v.value is False:
            continue
        v = resolve(fi, v) if v is not None else v
        if isinstance(v, ast.Name):
            # single-exit style: a result variable; every value it can hold is judged (False, or a membership test)
            from ..x_resolve import _bindings as _bs
            vals = _bs(fi, v.id)
            if vals and all(b_ is not None for b_ in vals):
                pos = [b_ for b_ in vals if not q.is_const(b_, False)]
                if len(pos) == 1:
                    v = pos[0]
        ok = isinstance(v, ast.Compare) and len(v.ops) == 1 and isinstance(v.ops[0], ast.In) and q.dotted(v.comparators[0]) == LIST
        if not ok and not (isinstance(v, ast.Compare) and any(q.dotted(c_) == CACHE for c_ in v.comparators)):
            raise AnalysisError("C06.authority: __contains__ answers with %s, not a recognised membership test" % (q.unparse(v) if v is not None else "None"))
        n += 1
        ck.ob("C06.authority", fi, r, ok, "__contains__ reports exactly membership of the normalised name in %s" % LIST)
    # deletion
    fi = byname.get("__delitem__")
    if fi is None:
        raise AnalysisError("HTTPHeaders.__delitem__ not found")
    accs = all_acc[fi.qualname]
    dels = [a for a in accs if a.d == LIST and a.kind in ("del", "pop")]
    if not dels and any(isinstance(c, ast.Call) and (q.dotted(c.func) or "").startswith("self.") and not (q.dotted(c.func) or "").startswith(("self._as_list", "self._combined_cache")) for c in q.calls(fi.node)):
        raise AnalysisError("C06.delete: __delitem__ delegates to another method; cannot see the removal")
    ck.need(True, "")
    ids = {a.cfgnode.id for a in dels}
    facts = must_facts(fi.cfg, gen_node=lambda nd: [("@deleted", True)] if nd.id in ids else (), cond_facts=False)
    n += 1
    ck.ob("C06.delete", fi, fi.node, bool(dels) and ("@deleted", True) in facts[fi.cfg.exit.id], "__delitem__ removes the %s entry on every normally returning path" % LIST, construct="exit without deleting from _as_list")
    # the only exception a present name can meet: none.  Strict accesses (which raise KeyError) in __delitem__ must be on the authority only
    for a in accs:
        if a.d == LIST and a.kind in ("del", "pop", "load"):
            n += 1
            ck.ob("C06.delete", fi, a.node, True, "KeyError for an absent name comes from the authority %s" % LIST)
    return n


def _edge_guarded(fi, target, text, pol):
    """A test of ``text`` dominates ``target``, ``target`` is unreachable from the
    edge of the opposite polarity, and the tested path is not assigned anywhere
    in the function (robust against calls that merely *pass* the path)."""
    cfg = fi.cfg
    path = text.split(" ")[0]
    if q.stores_to(fi.node, path):
        return False
    for t in cfg.stmt_nodes(lambda nd: nd.kind == "test"):
        ct, cp = canon_fact(t.ast, True)
        if ct != text or not cfg.dominates(t, target):
            continue
        # edge kind on which `text` has polarity `not pol`
        bad_kind = "true" if cp == (not pol) else "false"
        seen = set()
        st = [sid for sid, k in cfg.succ[t.id] if k == bad_kind]
        while st:
            x = st.pop()
            if x in seen:
                continue
            seen.add(x)
            st.extend(sid for sid, _k in cfg.succ[x])
        if target.id not in seen:
            return True
    return False


def rule_continuation(ck, methods, all_acc):
    n = 0
    byname = {f.name: f for f in methods if "#" not in f.qualname}
    add = byname["add"]
    pl = byname["parse_line"]
    # add(): _last_key is set to the normalised name on every normally returning path
    st_ids = {nd.id for nd in add.cfg.stmt_nodes(lambda nd: nd.kind == "stmt" and isinstance(nd.ast, (ast.Assign, ast.AnnAssign)) and "self._last_key" in q.assigned_paths(nd.ast) and not q.is_const(nd.ast.value, None))}
    facts = must_facts(add.cfg, gen_node=lambda nd: [("@lastkey", True)] if nd.id in st_ids else (), cond_facts=False)
    n += 1
    ck.ob("C06.continuation", add, add.node, ("@lastkey", True) in facts[add.cfg.exit.id], "add() records the added (normalised) name in self._last_key on every normally returning path", construct="exit without setting _last_key")
    # add(): the value lands in the list of the same key
    muts = [a for a in all_acc[add.qualname] if a.d == LIST and a.kind == "mut-append"]
    sets = [c for c in q.calls(add.node) if False]
    # parse_line(): continuation extends the LAST value of the LAST key
    conts = [(m_, a) for m_ in methods for a in all_acc[m_.qualname] if a.d == LIST and a.kind == "mut-aug"]
    ck.floor("C06.continuation", len(conts), 1, "continuation-line concatenations in HTTPHeaders")
    for pl, a in conts:
        pfacts = must_facts(pl.cfg)
        n += 1
        ck.ob("C06.continuation", pl, a.cfgnode.ast, q.dotted(a.key) == "self._last_key", "a continuation line extends the values of self._last_key")
        # innermost index: [-1]
        pm = q.parent_map(pl.node)
        outer = pm.get(a.node)
        idx = outer.slice if isinstance(outer, ast.Subscript) else None
        try:
            iv = q.fold(idx, {}) if idx is not None else None
        except q.NotFoldable:
            iv = None
        n += 1
        ck.ob("C06.continuation", pl, outer if outer is not None else a.node, iv == -1, "a continuation line extends the most recent value (index -1) of that name")
        n += 1
        notnone = canon_fact(ast.parse("self._last_key is None", mode="eval").body, False)
        guarded = notnone in pfacts[a.cfgnode.id] or _edge_guarded(pl, a.cfgnode, "self._last_key is None", False)
        if not guarded and pl.name != "parse_line":
            # the concatenation lives in a helper: the guard may sit at its call sites
            sites_ = [(m2, nd2) for m2 in methods for nd2, c2 in m2.cfg.find(lambda x: isinstance(x, ast.Call) and q.dotted(x.func) == "self." + pl.name)]
            if sites_ and all(notnone in must_facts(m2.cfg)[nd2.id] or _edge_guarded(m2, nd2, "self._last_key is None", False) for m2, nd2 in sites_):
                guarded = True
            elif not sites_:
                raise AnalysisError("C06.continuation: %s concatenates a continuation but has no call site in HTTPHeaders" % pl.qualname)
        ck.ob("C06.continuation", pl, a.cfgnode.ast, guarded,
              "the concatenation is only reached when self._last_key is not None (a leading continuation is rejected)")
        st = a.cfgnode.ast
        n += 1
        appended = None
        if isinstance(st, ast.AugAssign) and isinstance(st.op, ast.Add):
            appended = st.value
        elif isinstance(st, ast.Assign) and isinstance(st.value, ast.BinOp) and isinstance(st.value.op, ast.Add) and q.unparse(st.value.left) == q.unparse(st.targets[0]):
            appended = st.value.right
        elif not isinstance(st, (ast.AugAssign, ast.Assign)):
            raise AnalysisError("C06.continuation: unrecognised update of the last value in %s" % pl.qualname)
        ck.ob("C06.continuation", pl, st, appended is not None, "the continuation text is appended (+= / x = x + text) to the existing value")
        if appended is not None:
            v = appended
            if isinstance(v, ast.Name):
                bs = [x.value for x in q.walk_body(pl.node) if isinstance(x, ast.Assign) and v.id in q.assigned_paths(x)]
                v = bs[0] if len(bs) == 1 else None
            if v is None:
                raise AnalysisError("C06.continuation: appended continuation text is not a uniquely bound expression")
            from ..x_resolve import concat_pieces
            pieces = concat_pieces(v)
            if pieces is None:
                if isinstance(v, ast.Call) and q.call_attr(v) == "strip" and q.dotted(v.func.value) == pl.params()[1]:
                    pieces = [v]   # the stripped line itself, nothing prepended
                else:
                    raise AnalysisError("C06.continuation: the appended continuation text %s is not a recognised concatenation" % q.unparse(v))
            pieces = [resolve(pl, x) for x in pieces]
            okj = len(pieces) == 2 and q.is_const(pieces[0], " ")
            n += 1
            ck.ob("C06.continuation", pl, st, okj, "the obs-fold is replaced by exactly one space: the appended text is ' ' + <stripped line> (RFC 9112 5.2)")
            if okj:
                r = pieces[1]
                okr = isinstance(r, ast.Call) and q.call_attr(r) == "strip" and q.dotted(r.func.value) == pl.params()[1] and len(r.args) == 1 and (q.dotted(r.args[0]) == "HTTP_WHITESPACE" or (isinstance(r.args[0], ast.Constant) and set(r.args[0].value) == set(" \t")))
                n += 1
                ck.ob("C06.continuation", pl, st, okr, "only HTTP whitespace (SP / HTAB) is stripped from the continuation line")
    # the continuation target is only forgotten together with the header it names: outside __init__, `_last_key = None`
    # needs a dominating `self._last_key == <key being removed>` (or a wholesale clear of the map)
    nlk = 0
    for m_ in methods:
        for nd_ in m_.cfg.stmt_nodes(lambda x: x.kind == "stmt" and isinstance(x.ast, (ast.Assign, ast.AnnAssign)) and "self._last_key" in q.assigned_paths(x.ast)):
            nlk += 1
            if m_.name == "__init__" or not q.is_const(nd_.ast.value, None):
                continue
            wholesale = any(a_.kind in ("mut-other", "whole-store") and a_.d == LIST for a_ in all_acc[m_.qualname])
            F_ = must_facts(m_.cfg)[nd_.id]
            tied = False
            for t_, pol_ in F_:
                if not pol_ or t_.startswith("@"):
                    continue
                try:
                    e_ = ast.parse(t_, mode="eval").body
                except SyntaxError:
                    continue
                if isinstance(e_, ast.Compare) and len(e_.ops) == 1 and isinstance(e_.ops[0], (ast.Eq, ast.Is)) and "self._last_key" in (q.dotted(e_.left), q.dotted(e_.comparators[0])) and not q.is_const(e_.left, None) and not q.is_const(e_.comparators[0], None):
                    tied = True
            n += 1
            ck.ob("C06.continuation", m_, nd_.ast, tied or wholesale, "self._last_key is reset to None only when the header it names is the one being removed (a continuation line after deleting some other header still folds into the last parsed line)")
    ck.floor("C06.continuation", nlk, 2, "writes to self._last_key (initialisation and add())")
    # the non-continuation branch funnels through add()
    pline = byname["parse_line"]
    adds = [c for c in q.calls(pline.node) if q.dotted(c.func) == "self.add"]
    if not adds and any(isinstance(c, ast.Call) and (q.dotted(c.func) or "").startswith("self._") for c in q.calls(pline.node)):
        raise AnalysisError("C06.continuation: parse_line delegates to a helper that could not be inlined; cannot see how ordinary lines are stored")
    if not adds:
        raise AnalysisError("C06.continuation: parse_line does not call self.add(); how ordinary lines are stored is not recognised")
    n += 1
    ck.ob("C06.continuation", pline, pline.node, True, "an ordinary header line is stored through self.add()", construct="parse_line without self.add")
    return n


def rule_value_exact(ck, methods, all_acc):
    """add()/__setitem__ store the caller's value unchanged (no strip/lower on the way into the list)."""
    from ..x_exact import check_exact
    byname = {f.name: f for f in methods}
    n = 0
    for name in ("add", "__setitem__"):
        fi = byname[name]
        vparam = [p for p in fi.params() if p != "self"][1]
        pm = q.parent_map(fi.node)
        for a in all_acc[fi.qualname]:
            if a.d != LIST:
                continue
            if a.kind == "mut-append":
                call = pm[pm[a.node]]
                for arg in call.args:
                    check_exact(ck, "C06.value-exact", fi, arg, [vparam], "value appended to %s[%s]" % (LIST, a.keytext), site=call)
                    n += 1
            elif a.kind == "store":
                st = pm[a.node]
                check_exact(ck, "C06.value-exact", fi, st.value, [vparam], "value stored in %s[%s]" % (LIST, a.keytext), site=st)
                n += 1
        for st in q.walk_body(fi.node):
            if isinstance(st, ast.Assign) and isinstance(st.targets[0], ast.Subscript) and q.dotted(st.targets[0].value) == "self":
                check_exact(ck, "C06.value-exact", fi, st.value, [vparam], "value stored through self[...]", site=st)
                n += 1
    ck.floor("C06.value-exact", n, 3, "value stores in add/__setitem__")
    # serialisation: one line per (name, value) pair of get_all(), not per combined value (loop or comprehension form)
    def generators(fn):
        out = [(l.target, l.iter, l) for l in q.walk_body(fn) if isinstance(l, ast.For)]
        out += [(g.target, g.iter, g) for g in ast.walk(fn) if isinstance(g, ast.comprehension)]
        return out

    s_ = byname["__str__"]
    gens = generators(s_.node)
    if not gens:
        raise AnalysisError("HTTPHeaders.__str__: no loop/comprehension (unknown idiom)")
    for tgt, it, l in gens:
        it = resolve(s_, it)
        ok = isinstance(it, ast.Call) and q.dotted(it.func) == "self.get_all"
        if not ok and not (isinstance(it, ast.Call) and q.dotted(it.func) in ("self.items", "self._as_list.items", "self.values", "self.keys")) and q.dotted(it) != "self":
            continue   # some other loop (e.g. over the lines built so far)
        ck.ob("C06.serialize", s_, l if isinstance(l, ast.stmt) else it, ok, "__str__ emits one line per stored value (iterates self.get_all(), not the comma-joined items())")
        tn = [e.id for e in tgt.elts] if isinstance(tgt, ast.Tuple) else []
        fs = [x for x in ast.walk(s_.node) if isinstance(x, ast.JoinedStr)]
        if not fs:
            raise AnalysisError("HTTPHeaders.__str__: line template not recognised")
        for f in fs:
            holes = [q.dotted(v.value) for v in f.values if isinstance(v, ast.FormattedValue)]
            consts = [v.value for v in f.values if isinstance(v, ast.Constant)]
            ck.ob("C06.serialize", s_, f, holes == tn and consts[:1] == [": "] and consts[-1:] == ["\n"] and len(consts) == 2, "each line is '<name>: <value>\\n' built from the pair unchanged")
    ga = byname["get_all"]
    ggens = generators(ga.node)
    outer = [(t, it, l) for t, it, l in ggens if isinstance(it, ast.Call) and q.dotted(it.func) == LIST + ".items" and isinstance(t, ast.Tuple) and len(t.elts) == 2]
    if len(outer) != 1:
        raise AnalysisError("HTTPHeaders.get_all: iteration over %s.items() not found (unknown idiom)" % LIST)
    kname, vsname = [e.id for e in outer[0][0].elts]
    inner = [(t, it, l) for t, it, l in ggens if q.dotted(it) == vsname and isinstance(t, ast.Name)]
    produced = [y.value for y in q.walk_body(ga.node) if isinstance(y, ast.Yield) and y.value is not None] + [g.elt for g in ast.walk(ga.node) if isinstance(g, (ast.GeneratorExp, ast.ListComp))]
    if not produced:
        raise AnalysisError("HTTPHeaders.get_all: produced pairs not recognised")
    for y in produced:
        ok = len(inner) == 1 and isinstance(y, ast.Tuple) and len(y.elts) == 2 and [q.dotted(e) for e in y.elts] == [kname, inner[0][0].id]
        ck.ob("C06.serialize", ga, y, bool(ok), "get_all yields (name, value) for every value of every name, in list order")


def run(ck):
    from ..x_resolve import install_prepared
    install_prepared(ck, __file__)
    ck.rule("C06.partial-cache", "_combined_cache is a partial memo: every access that assumes presence (del cache[k], cache[k] load, pop(k) without default) is dominated by a membership test or a same-key store")
    ck.rule("C06.coherence", "every mutation of _as_list[k] (store, append, += on an element, delete) is accompanied on every path by a store/invalidation of _combined_cache[k]")
    ck.rule("C06.cache-value", "what is memoised under k is ','.join(_as_list[k]) (or the single value stored as [value] in the same method)")
    ck.rule("C06.normalize", "every key used on either dict is a _normalize_header() result (or _last_key / a key iterated from _as_list); _normalize_header case-normalises")
    ck.rule("C06.owner", "only HTTPHeaders methods, through self, touch _as_list/_combined_cache")
    ck.rule("C06.copy-independent", "containers are fresh per instance; the copy constructor re-adds each pair through add(); copy()/__copy__ use it")
    ck.rule("C06.authority", "__contains__/__len__/__iter__/get_list/get_all answer from _as_list only")
    ck.rule("C06.delete", "__delitem__ removes the _as_list entry on every normal path; KeyError only from the authority")
    ck.rule("C06.continuation", "add() sets _last_key; parse_line appends a continuation to _as_list[_last_key][-1] under a not-None guard; ordinary lines go through add()")

    ck.repo.cls(HU, CLS)
    methods = [f for f in ck.repo.direct_methods(HU, CLS) if not any((q.dotted(d) or "").split(".")[-1] == "overload" for d in f.node.decorator_list)]
    ck.need(len(methods) >= 14, "only %d HTTPHeaders methods found" % len(methods))
    ck.need(len({f.qualname for f in methods}) == len(methods), "duplicate method definitions in HTTPHeaders (unknown idiom)")
    orig_nodes = {id(f.node) for f in methods}
    methods = [ck.prepare(f) for f in methods]  # private helpers inlined; aliases of self.<attr> / literal-table loops looked through
    # a private helper method is analysed as part of its callers (inlined there); it is not an API entry point whose
    # parameters are caller-supplied names.  If some call of it could not be inlined the class is not fully recognised.
    import re as _re_
    known = set(_re_.findall(r"[A-Za-z_][A-Za-z0-9_]*", open(__file__).read()))
    helpers = [f for f in methods if f.name.startswith("_") and not (f.name.startswith("__") and f.name.endswith("__")) and f.name not in known]
    for h_ in helpers:
        still = [m_.qualname for m_ in methods if m_ is not h_ and m_ not in helpers and any(isinstance(c, ast.Call) and q.dotted(c.func) in ("self." + h_.name, "cls." + h_.name, CLS + "." + h_.name) for c in ast.walk(m_.node))]
        if still:
            raise AnalysisError("C06: private helper %s could not be inlined into %s; the class is not fully recognised" % (h_.qualname, ", ".join(still)))
    methods = [f for f in methods if f not in helpers]
    all_acc = {}
    for fi in methods:
        ck.use(fi)
        all_acc[fi.qualname] = accesses(fi)
    # nested functions inside methods touching the dicts would escape the enumeration
    for fi in ck.repo.methods(HU, CLS):
        if id(fi.node) not in orig_nodes and not any((q.dotted(d) or "").split(".")[-1] == "overload" for d in fi.node.decorator_list):
            for x in q.walk_body(fi.node):
                if isinstance(x, ast.Attribute) and x.attr in ("_as_list", "_combined_cache"):
                    raise AnalysisError("C06: nested function %s touches %s (unknown idiom)" % (fi.qualname, x.attr))
    total = sum(len(v) for v in all_acc.values())
    ck.floor("C06.coherence", total, 12, "dict accesses in HTTPHeaders")

    n = rule_partial_cache(ck, methods, all_acc)
    # (no floor: a class that only uses tolerant accesses - pop(k, None), `in`, try/except KeyError - has nothing to prove here)
    n = rule_coherence(ck, methods, all_acc)
    ck.floor("C06.coherence", n, 3, "list mutations")
    n = rule_cache_value(ck, methods, all_acc)
    ck.floor("C06.cache-value", n, 1, "cache stores")
    n = rule_normalize(ck, methods, all_acc)
    ck.floor("C06.normalize", n, 12, "keyed accesses")
    rule_owner(ck)
    n = rule_copy(ck, methods, all_acc)
    ck.floor("C06.copy-independent", n, 6, "copy obligations")
    n = rule_authority(ck, methods, all_acc)
    ck.floor("C06.authority", n, 6, "authority obligations")
    n = rule_continuation(ck, methods, all_acc)
    ck.floor("C06.continuation", n, 6, "continuation obligations")
    ck.rule("C06.value-exact", "add()/__setitem__ store the caller's value itself (alias/slice only, no strip/lower/replace)")
    ck.rule("C06.serialize", "__str__ writes one 'name: value' line per pair of get_all(); get_all yields every value of every name")
    rule_value_exact(ck, methods, all_acc)
    # owner rule positive control: the class itself must reference both dicts (else the attribute names drifted)
    ck.need(any(a.d == CACHE for v in all_acc.values() for a in v) and any(a.d == LIST for v in all_acc.values() for a in v), "HTTPHeaders no longer uses _as_list/_combined_cache")
    ck.ob("C06.owner", None, ck.repo.cls(HU, CLS), True, "no access to the two dicts outside HTTPHeaders.self found in %d modules" % len(ck.repo.modules), construct="owner", file=HU) if not any(v.rule == "C06.owner" for v in ck.violations) else None


# ---------------------------------------------------------------------------
# mutants


def _m(qn, edit):
    return lambda repo: mutate(repo, HU, qn, edit)


def _src(st):
    return ast.unparse(st)


MUTANTS = [
    ("seeded C06-adv5: __delitem__ also resets _last_key = None (deleting any header breaks the next continuation line)", _m("HTTPHeaders.__delitem__", lambda root: (root.body.append(parse_stmt("self._last_key = None")) or True)), "C06.continuation"),
    ("__setitem__ forgets the continuation target", _m("HTTPHeaders.__setitem__", lambda root: (root.body.append(parse_stmt("self._last_key = None")) or True)), "C06.continuation"),
    ("seeded C06-adv4: copy constructor takes the source's state (value lists duplicated, _combined_cache shared by reference)", _m("HTTPHeaders", replace_stmt(lambda st: isinstance(st, ast.For) and "get_all" in _src(st) and "self.add" in _src(st), lambda st: ast.parse("other = args[0]\nself._as_list = {k: list(v) for k, v in other._as_list.items()}\nself._combined_cache = other._combined_cache\nself._last_key = other._last_key").body)), ("C06.copy-independent", "C06.owner")),
    ("value-exact: add() strips the value before storing it", _m("HTTPHeaders.add", replace_expr(lambda n: isinstance(n, ast.Call) and q.call_attr(n) == "append", lambda n: parse_expr("self._as_list[norm_name].append(value.strip())"))), "C06.value-exact"),
    ("serialize: __str__ iterates items() (repeated headers serialised as one comma-joined line)", _m("HTTPHeaders.__str__", replace_expr(lambda n: isinstance(n, ast.Call) and q.call_attr(n) == "get_all", lambda n: parse_expr("self.items()"))), "C06.serialize"),
    ("serialize: get_all yields only the first value of each name", _m("HTTPHeaders.get_all", replace_expr(lambda n: isinstance(n, ast.Name) and n.id == "values" and isinstance(n.ctx, ast.Load), lambda n: parse_expr("values[:1]"))), "C06.serialize"),
    ("add(): cache invalidation removed", _m("HTTPHeaders.add", remove_stmts(lambda st: isinstance(st, ast.Expr) and "_combined_cache.pop" in _src(st))), "C06.coherence"),
    ("parse_line(): continuation does not invalidate the cache", _m("HTTPHeaders.parse_line", remove_stmts(lambda st: isinstance(st, ast.Expr) and "_combined_cache.pop" in _src(st))), "C06.coherence"),
    ("parse_line(): continuation invalidates the cache under the raw (un-normalised) last name", _m("HTTPHeaders.parse_line", replace_expr(lambda n: isinstance(n, ast.Call) and "_combined_cache.pop" in _src(n), lambda n: parse_expr("self._combined_cache.pop(line, None)"))), ("C06.coherence", "C06.normalize")),
    ("__delitem__: _as_list entry kept (only the cache is dropped)", _m("HTTPHeaders.__delitem__", remove_stmts(lambda st: isinstance(st, ast.Delete) and "_as_list" in _src(st))), "C06.delete"),
    ("__delitem__: deletes _as_list only when cached", _m("HTTPHeaders.__delitem__", replace_stmt(lambda st: isinstance(st, ast.Delete) and "_as_list" in _src(st), lambda st: [parse_stmt("if norm_name in self._combined_cache:\n    self._combined_cache.pop(norm_name)\n    del self._as_list[norm_name]")])), "C06.delete"),
    ("__getitem__: strict cache read without filling", _m("HTTPHeaders.__getitem__", remove_stmts(lambda st: isinstance(st, ast.If))), "C06.partial-cache"),
    ("__getitem__: fill guarded by the authority instead of the cache", _m("HTTPHeaders.__getitem__", replace_expr(lambda n: isinstance(n, ast.Compare) and "_combined_cache" in _src(n), lambda n: parse_expr("header not in self._as_list"))), "C06.partial-cache"),
    ("__getitem__: values joined with ', '", _m("HTTPHeaders.__getitem__", replace_expr(lambda n: isinstance(n, ast.Constant) and n.value == ",", lambda n: ast.Constant(value=", "))), "C06.cache-value"),
    ("__setitem__: key not normalised", _m("HTTPHeaders.__setitem__", replace_expr(lambda n: isinstance(n, ast.Call) and q.call_attr(n) == "_normalize_header", lambda n: n.args[0])), "C06.normalize"),
    ("__contains__: raw name looked up", _m("HTTPHeaders.__contains__", replace_expr(lambda n: isinstance(n, ast.Compare) and "_as_list" in _src(n), lambda n: parse_expr("name in self._as_list"))), "C06.normalize"),
    ("__contains__: answers from the partial cache", _m("HTTPHeaders.__contains__", replace_expr(lambda n: isinstance(n, ast.Attribute) and n.attr == "_as_list", lambda n: parse_expr("self._combined_cache"))), "C06.authority"),
    ("_normalize_header: case folding dropped", lambda repo: mutate(repo, HU, "_normalize_header", replace_expr(lambda n: isinstance(n, ast.Call) and q.call_attr(n) == "capitalize", lambda n: n.func.value)), "C06.normalize"),
    ("copy constructor shares the source's list objects", _m("HTTPHeaders", replace_stmt(lambda st: isinstance(st, ast.For) and "get_all" in _src(st) and "self.add" in _src(st), lambda st: [parse_stmt("for k, vs in args[0]._as_list.items():\n    self._as_list[k] = vs")])), ("C06.copy-independent", "C06.owner")),
    ("copy constructor takes a shallow dict copy (lists shared)", _m("HTTPHeaders", replace_stmt(lambda st: isinstance(st, ast.For) and "get_all" in _src(st) and "self.add" in _src(st), lambda st: [parse_stmt("self._as_list = dict(args[0]._as_list)")])), ("C06.copy-independent", "C06.owner")),
    ("copy() returns self", _m("HTTPHeaders.copy", replace_expr(lambda n: isinstance(n, ast.Call) and q.dotted(n.func) == "HTTPHeaders", lambda n: ast.Name(id="self", ctx=ast.Load()))), "C06.copy-independent"),
    ("__setitem__ stores the caller's list object", _m("HTTPHeaders.__setitem__", replace_expr(lambda n: isinstance(n, ast.List), lambda n: ast.Name(id="value", ctx=ast.Load()))), ("C06.copy-independent", "C06.cache-value")),
    ("add(): _last_key not updated for a repeated name", _m("HTTPHeaders.add", replace_stmt(lambda st: isinstance(st, ast.Assign) and "_last_key" in _src(st), lambda st: [parse_stmt("if norm_name not in self:\n    self._last_key = norm_name")])), "C06.continuation"),
    ("parse_line(): leading continuation no longer rejected", _m("HTTPHeaders.parse_line", remove_stmts(lambda st: isinstance(st, ast.If) and "_last_key is None" in _src(st.test))), "C06.continuation"),
    ("parse_line(): continuation joined without the separating space", _m("HTTPHeaders.parse_line", replace_expr(lambda n: isinstance(n, ast.BinOp) and isinstance(n.left, ast.Constant) and n.left.value == " ", lambda n: n.right)), ("C06.continuation",)),
    ("parse_line(): continuation stripped of all whitespace kinds (str.strip())", _m("HTTPHeaders.parse_line", replace_expr(lambda n: isinstance(n, ast.Call) and q.call_attr(n) == "strip" and "line" in _src(n.func) and len(n.args) == 1 and "new_part" not in _src(n), lambda n: ast.Call(func=n.func, args=[], keywords=[]), limit=1)), ("C06.continuation",)),
    ("parse_line(): continuation appended to the first value", _m("HTTPHeaders.parse_line", replace_expr(lambda n: isinstance(n, ast.UnaryOp) and isinstance(n.op, ast.USub) and isinstance(n.operand, ast.Constant) and n.operand.value == 1, lambda n: ast.Constant(value=0))), "C06.continuation"),
    ("undo the F1 repair: __delitem__ does a strict 'del self._combined_cache[k]' again", _m("HTTPHeaders.__delitem__", replace_stmt(lambda st: isinstance(st, ast.Expr) and "_combined_cache.pop" in _src(st), lambda st: [parse_stmt("del self._combined_cache[norm_name]")])), "C06.partial-cache"),
    ("undo the F1 repair (original order): strict del of the cache entry before the list entry", _m("HTTPHeaders.__delitem__", lambda root: _undo_f1(root)), "C06.partial-cache"),
    ("re-introduce strict 'del cache[k]' next to a tolerant pop (regression of F1 in add)", _m("HTTPHeaders.add", replace_stmt(lambda st: isinstance(st, ast.Expr) and "_combined_cache.pop" in _src(st), lambda st: [parse_stmt("del self._combined_cache[norm_name]")])), "C06.partial-cache"),
]


def _undo_f1(root):
    pops = [i for i, st in enumerate(root.body) if isinstance(st, ast.Expr) and "_combined_cache.pop" in _src(st)]
    dels = [i for i, st in enumerate(root.body) if isinstance(st, ast.Delete) and "_as_list" in _src(st)]
    if not pops or not dels:
        return False
    key = _src(root.body[dels[0]].targets[0].slice)
    new = [st for i, st in enumerate(root.body) if i not in (pops[0], dels[0])]
    new += [parse_stmt("del self._combined_cache[%s]" % key), parse_stmt("del self._as_list[%s]" % key)]
    root.body = new
    return True
