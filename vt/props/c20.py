"""C20 -- template autoescaping never emits unescaped data.

Decided (necessary conditions visible in code shape, tornado/template.py + escape.xhtml_escape):

* typestate over the lines emitted by ``_Expression.generate``: on every path on which the expression is
  not raw and the current template's autoescape is not None, the value variable is rebound to
  ``<autoescape function>(value)`` after its last other rebinding and before it is appended;
* who may be raw: ``raw=True`` constructions are reached only for the ``raw`` / ``module`` directives;
* per-file scope: bodies of *other* templates are generated inside ``with writer.include(<their template>)``;
  include() pushes the old template, installs the new one, and its exit restores exactly what was pushed;
  the autoescape directive writes only the template being parsed; the writer starts in the template of
  the file being generated; nothing else writes ``current_template`` / ``autoescape``;
* the default: the default autoescape name resolves, in the generate() namespace, to escape.xhtml_escape,
  and xhtml_escape escapes quotes too.

Not decided: that the function a user names escapes; ``str()`` results of arbitrary objects; the
html.escape implementation (trusted base).
"""
from __future__ import annotations

import ast
import re

from .. import q
from ..cfg import explore, must_facts, holds, canon_fact
from ..mutate import mutate, remove_stmts, replace_expr, replace_stmt, parse_stmt, parse_expr
from ..model import AnalysisError
from ..x_emit import emissions, emission_program, PH
from ..x_valuewalk import single_assignment, alias_expand, xdotted, xunparse
from .c19 import ParseCtx, _writer_param, T

TECHNIQUE = "typestate over emitted-line events on the generator's CFG + who-may-write/who-may-construct + with-scope containment"
EXPLANATION = (
    "_Expression.generate: emitted lines are folded to templates and parsed as Python; a path-sensitive exploration (tracked predicates: "
    "self.raw, writer.current_template.autoescape is None) carries 'value variable currently holds the escaped form'; the append emission requires it "
    "unless the path established raw or autoescape None.  raw=True constructor sites are located through the per-operator walk of _parse's dispatch.  "
    "Foreign bodies (receiver not rooted at self) must be generated inside `with writer.include(T)` with T the owner of the body; "
    "include()/exit push-install-restore; all stores to .autoescape / .current_template in the module are enumerated."
)
NOT_DECIDED = "that a user-chosen autoescape function escapes; str() of adversarial objects; html.escape itself (trusted); UI modules and raw output (exempt by the property)"

ESC = "tornado/escape.py"


def _assigns_var(e, var):
    try:
        st = e.python()
        return any(isinstance(n, ast.Name) and n.id == var and isinstance(n.ctx, ast.Store) for n in ast.walk(st))
    except AnalysisError:
        return re.search(r"(?<![\w.])%s\s*=(?!=)" % re.escape(var), e.template) is not None


def rule_escape_before_append(ck):
    rid = "C20.escape-before-append"
    g0 = ck.func(T, "_Expression.generate")
    w = _writer_param(g0)
    g, ems, binding = emission_program(ck.repo, g0, w)
    ck.use(g)
    ck.floor(rid, len(ems), 3, "emitted lines of _Expression.generate")
    # the append emission: an expression statement calling a name with the value variable
    appends = []
    for e in ems:
        try:
            st = e.python()
        except AnalysisError:
            continue
        if isinstance(st, ast.Expr) and isinstance(st.value, ast.Call) and isinstance(st.value.func, ast.Name) and len(st.value.args) == 1 and isinstance(st.value.args[0], ast.Name) and not e.exprs:
            appends.append((e, st.value.args[0].id))
    if not appends or len({v for _, v in appends}) != 1:
        raise AnalysisError("_Expression.generate: append emission(s) of one value variable expected, found %s" % [v for _, v in appends])
    var = appends[0][1]
    app_ems = [e for e, _ in appends]
    cur = w + ".current_template.autoescape"
    for p_, a_ in binding.items():
        if q.dotted(a_) == cur:
            cur = p_  # the helper that builds the lines receives the setting as this parameter
    # escape emissions: var = ...F(var)... with F interpolated from the current template's autoescape
    escapes = []
    for e in ems:
        if e in app_ems or len(e.exprs) != 1:
            continue
        try:
            st = e.python()
        except AnalysisError:
            continue
        if not (isinstance(st, ast.Assign) and len(st.targets) == 1 and isinstance(st.targets[0], ast.Name)):
            continue
        calls = [c for c in ast.walk(st.value) if isinstance(c, ast.Call) and isinstance(c.func, ast.Name) and c.func.id == "__e0__"]
        if not calls:
            continue
        c = calls[0]
        shape = st.targets[0].id == var and len(c.args) == 1 and isinstance(c.args[0], ast.Name) and c.args[0].id == var and not c.keywords
        ck.ob(rid, g, e.call, shape, "the escaping line rebinds the value variable %s to <function>(%s)" % (var, var))
        if shape:
            escapes.append(e)
    cfg = g.cfg
    esc_nodes = {n.id: e for e in escapes for n in cfg.nodes_for(e.call)}
    other_ids = {n.id for e in ems if e not in escapes and e not in app_ems and _assigns_var(e, var) for n in cfg.nodes_for(e.call)}
    app_ids = {n.id: e for e in app_ems for n in cfg.nodes_for(e.call)}
    ck.floor(rid, len(other_ids), 1, "value-binding emissions")
    raw_t, none_t = "self.raw", "%s is None" % cur
    # the two exemption predicates are read-only in this function (their branch outcome stays valid)
    for st in q.walk_body(g.node):
        if isinstance(st, (ast.Assign, ast.AugAssign, ast.AnnAssign, ast.Delete)) and any(p == "self.raw" or p.startswith(w + ".current_template") or p == w for p in q.assigned_paths(st)):
            raise AnalysisError("_Expression.generate rebinds %s / %s.current_template; exemption tracking not valid" % (raw_t, w))

    import copy

    class _Sub(ast.NodeTransformer):
        def __init__(self, env):
            self.env = dict(env)

        def visit_Name(self, node):
            if isinstance(node.ctx, ast.Load) and node.id in self.env and self.env[node.id] != "?":
                return ast.parse(self.env[node.id], mode="eval").body
            return node

    def resolve(expr, env):
        return q.unparse(_Sub(env).visit(copy.deepcopy(expr)))

    # abstract value: (value holds the escaped form, raw outcome, is-None outcome, bindings of simple locals, bad escape source seen)
    def transfer(n, val):
        esc, raw, none, env, bad = val
        if n.kind == "stmt" and isinstance(n.ast, (ast.Assign, ast.AnnAssign)) and n.ast.value is not None:
            tg = n.ast.targets if isinstance(n.ast, ast.Assign) else [n.ast.target]
            if len(tg) == 1 and isinstance(tg[0], ast.Name):
                v = n.ast.value
                d = dict(env)
                if isinstance(v, ast.Constant) and v.value is None:
                    d[tg[0].id] = "None"
                elif q.dotted(v) is not None:
                    d[tg[0].id] = resolve(v, env)
                else:
                    d[tg[0].id] = "?"
                env = frozenset(d.items())
        if n.id in other_ids:
            esc = False
        if n.id in esc_nodes:
            src = resolve(esc_nodes[n.id].exprs[0], env)
            if src == cur:
                esc = True
            else:
                bad = src
        return (esc, raw, none, env, bad)

    def edge(n, kind, val):
        esc, raw, none, env, bad = val
        if n.kind == "test" and kind in ("true", "false"):
            try:
                sub = ast.parse(resolve(n.ast, env), mode="eval").body
            except SyntaxError:
                return val
            try:
                c = q.fold(sub, {})
                if bool(c) != (kind == "true"):
                    return None
                return val
            except q.NotFoldable:
                pass
            t, pol = canon_fact(sub, kind == "true")
            if t == raw_t:
                if raw is not None and raw != pol:
                    return None
                raw = pol
            elif t == none_t:
                if none is not None and none != pol:
                    return None
                none = pol
            elif t == cur:
                # truthiness of the setting: a falsy setting names no function
                if none is not None and none != (not pol):
                    return None
                none = not pol
        return (esc, raw, none, env, bad)

    seen = explore(cfg, (False, None, None, frozenset(), None), transfer, lambda t: False, edge_transfer=edge, follow_exc=False)
    n_states = 0
    tri = {True: "yes", False: "no", None: "untested"}
    reported = set()
    for aid in app_ids:
        for _facts, (esc, raw, none, env, bad) in sorted(seen.get(aid, ()), key=repr):
            n_states += 1
            key = (esc, raw, none, bad)
            if key in reported:
                continue
            reported.add(key)
            ok = esc or raw is True or none is True
            if bad is not None and not ok:
                ck.ob(rid, g, app_ids[aid].call, False, "the escaping function is the autoescape of the template currently being generated (%s), found %s" % (cur, bad), construct="escape source %s" % bad)
                continue
            ck.ob(rid, g, app_ids[aid].call, ok, "append of %s requires the escaped form unless the path is raw or autoescape is None: escaped=%s, raw=%s, autoescape-is-None=%s" % (var, esc, tri[raw], tri[none]),
                  construct="append state escaped=%s raw=%s none=%s" % (esc, tri[raw], tri[none]))
    ck.floor(rid, n_states, 1, "states at the append emission")
    # the value is bound from the expression first (so that the escape applies to the expression's value)
    first = [e for e in ems if e.exprs and q.dotted(e.exprs[0]) == "self.expression"]
    ck.ob(rid, g, first[0].call if first else g.node, len(first) == 1 and _assigns_var(first[0], var) and all(cfg.dominates(a, cfg.nodes[b]) for a in cfg.nodes_for(first[0].call) for b in app_ids),
          "the expression's value is bound to %s before anything is appended" % var)
    # nothing else is appended by this generator
    def _inert(e):
        try:
            return isinstance(e.python(), ast.Pass)
        except AnalysisError:
            return False

    stray = [e for e in ems if e not in app_ems and not _assigns_var(e, var) and not _inert(e)]
    ck.ob(rid, g, stray[0].call if stray else g.node, not stray, "no other line is emitted by _Expression.generate", construct="stray emissions %d" % len(stray))
    return var


def rule_raw_sites(ck, px):
    rid = "C20.raw-sites"
    m = ck.repo.module(T)
    ei = ck.func(T, "_Expression.__init__")
    ep = [p for p in ei.params() if p != "self"]
    if "raw" not in ep:
        raise AnalysisError("_Expression.__init__ has no raw parameter")
    ridx = ep.index("raw")
    dflt = ei.node.args.defaults
    d = dflt[len(dflt) - (len(ep) - ridx)] if len(dflt) >= len(ep) - ridx else None
    ck.ob(rid, ei, ei.node, d is not None and q.is_const(d, False), "raw defaults to False", construct="raw default")
    st = q.stores_to(ei.node, "self.raw")
    ck.ob(rid, ei, ei.node, len(st) == 1 and q.dotted(st[0].value) == "raw", "self.raw is the constructor argument", construct="self.raw = raw")
    writers = [(f, s) for f in m.funcs.values() for s in q.walk_body(f.node) if isinstance(s, (ast.Assign, ast.AugAssign, ast.AnnAssign)) and any(p.endswith(".raw") for p in q.assigned_paths(s)) and f is not ei]
    ck.ob(rid, None, ck.repo.cls(T, "_Expression"), not writers, "nothing but the constructor writes .raw", construct="writers of .raw: %s" % sorted(f.qualname for f, _ in writers), file=T)
    # subclasses of _Expression that force raw
    raw_classes = {}
    for name, c in m.classes.items():
        if any(q.dotted(b) == "_Expression" for b in c.bases):
            init = m.funcs.get(name + ".__init__")
            forces = None
            if init is not None:
                for call in q.calls(init.node):
                    if isinstance(call.func, ast.Attribute) and call.func.attr == "__init__":
                        a = q.kwarg(call, "raw") or (call.args[ridx] if len(call.args) > ridx else None)
                        forces = a is not None and not q.is_const(a, False)
            raw_classes[name] = bool(forces)
    # every construction of _Expression / subclasses in the module
    sites = []
    for f in m.funcs.values():
        for c in q.calls(f.node):
            if isinstance(c.func, ast.Name) and (c.func.id == "_Expression" or c.func.id in raw_classes):
                sites.append((f, c))
    ck.floor(rid, len(sites), 3, "_Expression constructions")
    # under which operators is each construction in _parse reached?
    reached = {}
    for v in px.domain:
        for n, c, cls in px.ctor_calls(v):
            reached.setdefault(id(c), set()).add(v)
    ALLOWED = {"_Expression": {"raw"}}
    for f, c in sites:
        cls = c.func.id
        a = q.kwarg(c, "raw") or (c.args[ridx] if cls == "_Expression" and len(c.args) > ridx else None)
        is_raw = raw_classes.get(cls, False) or (a is not None and not q.is_const(a, False))
        if f is not px.fi:
            ck.ob(rid, f, c, not is_raw, "no expression node is constructed raw outside the parser")
            continue
        ops = reached.get(id(c), set())
        if not is_raw:
            ck.ob(rid, f, c, True, "escaped expression node (operators %s; {{ }} when none)" % sorted(ops))
            continue
        want = {"raw"} if cls == "_Expression" else {"module"}
        ck.ob(rid, f, c, bool(ops) and ops <= want, "a raw %s node is constructed only for the %s directive (reached under %s)" % (cls, sorted(want), sorted(ops) or "no directive: plain {{ }}"),
              construct="raw %s under %s" % (cls, sorted(ops)))
    return len(sites)


def _owner(recv: ast.AST):
    """For ``X.body.generate`` / ``X.file.body.generate``: (root text, expression text of the Template that owns
    the body).  ``X`` may be any expression (e.g. a loader call that was not given a name)."""
    chain = []
    e = recv
    while isinstance(e, ast.Attribute):
        chain.append(e)
        e = e.value
    if not chain:
        return None
    if isinstance(e, ast.Name) and e.id == "self":
        return None
    for a in chain:
        if a.attr == "file":
            return q.unparse(e), q.unparse(a.value)
    if isinstance(e, ast.Name):
        return e.id, e.id + ".template"
    return None


def _popped_index(fi, v, stack, norm=None):
    """Which component of ``<stack>.pop()`` the expression ``v`` denotes: -1 = the popped entry itself, i = entry[i];
    'other' when v is not taken from the stack; None when the shape is not understood."""
    def is_pop(e):
        if norm is not None and isinstance(e, ast.AST):
            e = norm(e)
        return isinstance(e, ast.Call) and q.dotted(e.func) == stack + ".pop" and not e.args and not e.keywords

    if is_pop(v):
        return -1
    if isinstance(v, ast.Subscript) and is_pop(v.value):
        try:
            return q.fold(v.slice, {})
        except q.NotFoldable:
            return None
    if isinstance(v, ast.Subscript) and isinstance(v.value, ast.Name):
        src = single_assignment(fi.node, v.value.id)
        if src is not None and is_pop(src):
            try:
                return q.fold(v.slice, {})
            except q.NotFoldable:
                return None
    if isinstance(v, ast.Name):
        src = single_assignment(fi.node, v.id)
        if src is not None:
            return _popped_index(fi, src, stack, norm)
        for st in q.walk_body(fi.node):
            if isinstance(st, ast.Assign) and len(st.targets) == 1 and isinstance(st.targets[0], ast.Tuple) and is_pop(st.value):
                names = [q.dotted(e) for e in st.targets[0].elts]
                if v.id in names:
                    return names.index(v.id)
        return None
    if not any(is_pop(x) for x in ast.walk(v)):
        return "other"
    return None


def _context_manager_of(ck, inc):
    """(__exit__ FuncInfo, [__enter__ FuncInfos], writer attribute) of the context manager include() returns: a class
    local to include() (closure over ``self``: attribute None) or a module-level class constructed with the writer
    (``return _Scope(self)``; attribute = where its __init__ keeps that argument)."""
    nested = ck.repo.nested(inc)
    ex = [f for f in nested if f.name == "__exit__"]
    if len(ex) == 1:
        return ex[0], [f for f in nested if f.name == "__enter__"], None
    m = inc.module
    rets = [r for r in q.walk_body(inc.node) if isinstance(r, ast.Return) and r.value is not None]
    for r in rets:
        v = alias_expand(inc.node, r.value)
        if isinstance(v, ast.Call) and isinstance(v.func, ast.Name) and v.func.id in m.classes:
            cls = v.func.id
            init = m.funcs.get(cls + ".__init__")
            exf = m.funcs.get(cls + ".__exit__")
            enf = m.funcs.get(cls + ".__enter__")
            if init is None or exf is None:
                continue
            ip = [p_ for p_ in init.params() if p_ != "self"]
            pos = [i for i, a in enumerate(v.args) if q.dotted(a) == "self"]
            if len(pos) != 1 or pos[0] >= len(ip):
                continue
            wparam = ip[pos[0]]
            attrs = [q.dotted(st.targets[0]).split(".", 1)[1] for st in q.walk_body(init.node) if isinstance(st, ast.Assign) and q.dotted(st.value) == wparam and (q.dotted(st.targets[0]) or "").startswith("self.")]
            if len(attrs) == 1:
                return exf, [enf] if enf is not None else [], attrs[0]
    raise AnalysisError("_CodeWriter.include: the context manager it returns is neither a local class nor a module-level class constructed with the writer")


def rule_include_scope(ck):
    rid = "C20.include-scope"
    m = ck.repo.module(T)
    n = 0
    for f in list(m.funcs.values()):
        if f.name != "generate" or f.cls is None:
            continue
        w = _writer_param(f)
        for c in q.calls(f.node):
            if not (isinstance(c.func, ast.Attribute) and c.func.attr == "generate" and len(c.args) == 1 and q.dotted(c.args[0]) == w):
                continue
            recv = c.func.value
            if isinstance(recv, ast.Name):
                src = single_assignment(f.node, recv.id)
                if src is not None and q.dotted(src):
                    recv = src
            d = q.dotted(recv) or q.unparse(recv)
            if d.startswith("self."):
                continue  # own child: same file
            own = _owner(recv)
            if own is None:
                if isinstance(recv, ast.Name):
                    continue  # loop variable over own children (chunk.generate)
                raise AnalysisError("%s: receiver of generate() not understood: %s" % (f.qualname, q.unparse(recv)))
            n += 1
            ck.use(f)
            withs = [x for x in q.walk_body(f.node) if isinstance(x, ast.With) and any(y is c for y in ast.walk(x))]
            incl = [it.context_expr for x in withs for it in x.items if isinstance(it.context_expr, ast.Call) and q.dotted(it.context_expr.func) == w + ".include"]
            ok = len(incl) >= 1 and incl[-1].args and (q.dotted(incl[-1].args[0]) == own[1] or xunparse(f.node, incl[-1].args[0]) == xunparse(f.node, ast.parse(own[1], mode="eval").body))
            ck.ob(rid, f, c, bool(ok), "the body of another template (%s) is generated inside `with %s.include(%s, ...)`" % (d, w, own[1]))
    ck.floor(rid, n, 2, "foreign-body generate() calls")
    # include(): push old, install new; exit: restore what was pushed
    inc = ck.func(T, "_CodeWriter.include")
    ip = [p for p in inc.params() if p != "self"]
    cfg = inc.cfg
    pushes = [(nd, c) for nd, c in cfg.find(lambda x: isinstance(x, ast.Call) and isinstance(x.func, ast.Attribute) and x.func.attr == "append" and (q.dotted(x.func.value) or "").startswith("self."))]
    stores = cfg.stmt_nodes(lambda nd: nd.kind == "stmt" and "self.current_template" in q.assigned_paths(nd.ast))
    ok_push = len(pushes) == 1
    idx = None
    stack = None
    if ok_push:
        arg = alias_expand(inc.node, pushes[0][1].args[0])
        stack = q.dotted(pushes[0][1].func.value)
        if isinstance(arg, ast.Tuple):
            pos = [i for i, e in enumerate(arg.elts) if q.dotted(e) == "self.current_template"]
            idx = pos[0] if len(pos) == 1 else None
        elif q.dotted(arg) == "self.current_template":
            idx = -1  # the template itself is pushed
    ck.ob(rid, inc, pushes[0][1] if pushes else inc.node, ok_push and idx is not None, "include() saves the current template on a stack")
    ok_store = len(stores) == 1 and xdotted(inc.node, stores[0].ast.value) == ip[0]
    ck.ob(rid, inc, stores[0].ast if stores else inc.node, ok_store, "include() installs the included template as current")
    if ok_push and stores:
        ck.ob(rid, inc, stores[0].ast, cfg.dominates(pushes[0][0], stores[0]), "the old template is saved before it is overwritten")
    ex, en, wattr = _context_manager_of(ck, inc)
    ck.use(ex)

    def wnorm(fi_, e_):
        """expression of the context manager's method with the writer reference written as `self`"""
        e2 = alias_expand(fi_.node, e_)
        if wattr is None:
            return e2

        class _W(ast.NodeTransformer):
            def visit_Attribute(self, node):
                if q.dotted(node) == "self." + wattr:
                    return ast.Name(id="self", ctx=ast.Load())
                return self.generic_visit(node)

        return _W().visit(e2)

    def stores_to_writer(fi_, field):
        out = []
        for nd in fi_.cfg.stmt_nodes(lambda nd: nd.kind == "stmt" and isinstance(nd.ast, (ast.Assign, ast.AugAssign, ast.AnnAssign))):
            tg = nd.ast.targets if isinstance(nd.ast, ast.Assign) else [nd.ast.target]
            for t_ in tg:
                if isinstance(t_, ast.Attribute) and (field is None or t_.attr == field) and q.dotted(wnorm(fi_, t_.value)) == "self" and (wattr is None or q.dotted(t_.value) != "self"):
                    out.append(nd)
        return out

    rst = stores_to_writer(ex, "current_template")
    ok = False
    if len(rst) == 1 and stack is not None and idx is not None:
        val = wnorm(ex, rst[0].ast.value)
        got = _popped_index(ex, val, stack, lambda e_: wnorm(ex, e_))
        if got is None:
            got = _popped_index(ex, rst[0].ast.value, stack, lambda e_: wnorm(ex, e_))
        if got is None:
            raise AnalysisError("include exit: restored value not understood: %s" % q.unparse(rst[0].ast))
        ok = got == idx and ex.cfg.postdominates(rst[0], ex.cfg.entry)
    ck.ob(rid, ex, rst[0].ast if rst else ex.node, bool(ok), "leaving the include restores the template that include() saved (last pushed entry, same tuple position), on every path")
    for f in en:
        bad = stores_to_writer(f, None)
        ck.ob(rid, f, f.node, not bad, "__enter__ of the include context does not touch the writer state", construct="__enter__ writes")
    # who may write current_template
    allowed = {inc.qualname, ex.qualname, "_CodeWriter.__init__"}
    writers = [(f, s) for f in m.funcs.values() for s in q.walk_body(f.node) if isinstance(s, (ast.Assign, ast.AugAssign, ast.AnnAssign, ast.Delete)) and any(p.endswith(".current_template") or p == "current_template" and False for p in q.assigned_paths(s))]
    extra = sorted({f.qualname for f, _ in writers} - allowed)
    ck.ob(rid, None, ck.repo.cls(T, "_CodeWriter"), not extra, "current_template is written only by the writer's constructor, include() and its exit (others: %s)" % extra, construct="writers of current_template: %s" % extra, file=T)
    ci = ck.func(T, "_CodeWriter.__init__")
    st = q.stores_to(ci.node, "self.current_template")
    ck.ob(rid, ci, ci.node, len(st) == 1 and q.dotted(st[0].value) in ci.params(), "the writer starts with the template it is given", construct="self.current_template = current_template")


def rule_root_template(ck):
    rid = "C20.root-template"
    gp = ck.func(T, "Template._generate_python")
    cwi = ck.func(T, "_CodeWriter.__init__")
    cwp = [p for p in cwi.params() if p != "self"]
    st = q.stores_to(cwi.node, "self.current_template")
    pname = q.dotted(st[0].value) if st else None
    cw = [c for c in q.calls(gp.node) if q.is_call(c, "_CodeWriter")]
    gens = [c for c in q.calls(gp.node) if isinstance(c.func, ast.Attribute) and c.func.attr == "generate"]
    if len(cw) != 1 or len(gens) != 1 or pname not in cwp:
        raise AnalysisError("_generate_python: writer construction / generate call not found")
    bound = {cwp[i]: a for i, a in enumerate(cw[0].args) if i < len(cwp)}
    bound.update({k.arg: k.value for k in cw[0].keywords})
    a = bound.get(pname)
    root = q.unparse(gens[0].func.value)
    ck.ob(rid, gp, cw[0], a is not None and (q.unparse(a) == root + ".template" or xunparse(gp.node, a) == xunparse(gp.node, ast.parse(root + ".template", mode="eval").body)), "the writer's initial template is the template of the file whose code is generated (%s.template)" % root)
    # the _File knows its template
    fi = ck.func(T, "_File.__init__")
    s = q.stores_to(fi.node, "self.template")
    ck.ob(rid, fi, fi.node, len(s) == 1 and q.dotted(s[0].value) in fi.params(), "_File keeps the template it belongs to", construct="self.template = template")
    ti = ck.func(T, "Template.__init__")
    fc = [c for c in q.calls(ti.node) if q.is_call(c, "_File")]
    ck.ob(rid, ti, fc[0] if fc else ti.node, len(fc) == 1 and fc[0].args and q.dotted(fc[0].args[0]) == "self", "a template's file node is tagged with that template")
    nb = [c for c in q.calls(ck.func(T, "_parse").node) if q.is_call(c, "_NamedBlock")]
    nbi = ck.func(T, "_NamedBlock.__init__")
    nbp = [p for p in nbi.params() if p != "self"]
    tp = ck.func(T, "_parse").params()[1]
    for c in nb:
        bound = {nbp[i]: x for i, x in enumerate(c.args) if i < len(nbp)}
        bound.update({k.arg: k.value for k in c.keywords})
        ck.ob(rid, ck.func(T, "_parse"), c, q.dotted(bound.get("template")) == tp, "a named block is tagged with the template being parsed")
    ck.floor(rid, len(nb), 1, "_NamedBlock constructions")


def rule_autoescape_writers(ck, px):
    rid = "C20.autoescape-writers"
    m = ck.repo.module(T)
    n = 0
    for f in m.funcs.values():
        for s in q.walk_body(f.node):
            if not isinstance(s, (ast.Assign, ast.AugAssign, ast.AnnAssign, ast.Delete)):
                continue
            for p in q.assigned_paths(s):
                if not p.endswith(".autoescape"):
                    continue
                n += 1
                base = p.rsplit(".", 1)[0]
                if f is px.fi:
                    ops = sorted(v for v in px.domain if any(px.cfg.nodes[i].kind == "stmt" and px.cfg.nodes[i].ast is s for i in px.reach(v)))
                    ck.ob(rid, f, s, base == px.template and ops == ["autoescape"], "the autoescape directive (and only it: %s) writes the autoescape of the template being parsed (%s), no other object" % (ops, px.template))
                elif f.qualname in ("Template.__init__", "BaseLoader.__init__"):
                    ck.ob(rid, f, s, base == "self", "constructor initialises its own autoescape")
                else:
                    ck.ob(rid, f, s, False, "autoescape is written only by the constructors and the autoescape directive")
    ck.floor(rid, n, 3, "stores to .autoescape")
    # the recursion keeps parsing for the same template (checked by C19.recursion-scope as well)
    for c in q.calls(px.fi.node):
        if isinstance(c.func, ast.Name) and c.func.id == px.fi.name:
            ck.ob(rid, px.fi, c, len(c.args) >= 2 and q.dotted(c.args[1]) == px.template, "nested bodies are parsed for the same template object")
    # 'None' is the only spelling that switches escaping off
    stores = [s for s in q.walk_body(px.fi.node) if isinstance(s, ast.Assign) and (px.template + ".autoescape") in q.assigned_paths(s)]
    for s in stores:
        v = s.value
        if isinstance(v, ast.IfExp):
            # conditional expression: fold it for representative directive arguments
            names_ = sorted(q.names_in(v))
            if len(names_) != 1:
                raise AnalysisError("autoescape directive: stored value not understood: %s" % q.unparse(s))
            try:
                res = {arg: q.fold(v, {names_[0]: arg}) for arg in ("None", "xhtml_escape", "none", "")}
            except q.NotFoldable:
                raise AnalysisError("autoescape directive: stored value not understood: %s" % q.unparse(s))
            ck.ob(rid, px.fi, s, res["None"] is None and all(res[a] == a for a in ("xhtml_escape", "none", "")), "escaping is switched off only for the literal directive argument 'None' (other arguments are stored as given)", construct="autoescape value %s" % sorted((k, repr(x)) for k, x in res.items()))
            continue
        if not isinstance(v, ast.Name):
            raise AnalysisError("autoescape directive: stored value not a local name: %s" % q.unparse(s))
        none_sets = [x for x in q.stores_to(px.fi.node, v.id) if isinstance(x, ast.Assign) and isinstance(x.value, ast.Constant) and x.value.value is None]
        facts = must_facts(px.cfg)
        for x in none_sets:
            for nd in px.cfg.nodes_for(x):
                ok = any(pol and t in ("%s == 'None'" % v.id, "'None' == %s" % v.id) for t, pol in facts[nd.id])
                ck.ob(rid, px.fi, x, ok, "escaping is switched off only for the literal directive argument 'None'")
        ck.ob(rid, px.fi, s, len(none_sets) <= 1, "at most one path stores None", construct="None stores")


def _reach(cfg, a, b):
    seen = set()
    st = [x for x, k in cfg.succ[a.id] if k != "exc"]
    while st:
        x = st.pop()
        if x in seen:
            continue
        seen.add(x)
        st.extend(y for y, k in cfg.succ[x] if k != "exc")
    return b.id in seen


def rule_default_escape(ck):
    rid = "C20.default-escape"
    d = ck.repo.const(T, "_DEFAULT_AUTOESCAPE")
    name = d.value if isinstance(d, ast.Constant) and isinstance(d.value, str) else None
    ck.ob(rid, None, d, name is not None, "_DEFAULT_AUTOESCAPE is a function name", file=T)

    def _dflt(e):
        """canonical text of a stored value: the default constant by name or by (inlined) value"""
        if q.dotted(e) == "_DEFAULT_AUTOESCAPE" or (isinstance(e, ast.Constant) and name is not None and e.value == name):
            return "_DEFAULT_AUTOESCAPE"
        return q.dotted(e)

    tg = ck.func(T, "Template.generate")
    dicts = [n for n in q.walk_body(tg.node) if isinstance(n, ast.Dict)]
    ns = None
    for dl in dicts:
        keys = {k.value: v for k, v in zip(dl.keys, dl.values) if isinstance(k, ast.Constant)}
        if name in keys:
            ns = keys
    ck.ob(rid, tg, tg.node, ns is not None and q.dotted(ns.get(name)) == "escape.xhtml_escape", "the default autoescape name %r is bound to escape.xhtml_escape in the execution namespace" % name, construct="namespace[%r]" % name)
    ti = ck.func(T, "Template.__init__")
    ap = "autoescape"
    if ap not in ti.params():
        raise AnalysisError("Template.__init__ has no autoescape parameter")
    params_ = set(ti.params())
    sites = []  # (statement, value, cfg node) of every value that ends up in self.autoescape
    for nd in ti.cfg.stmt_nodes(lambda nd: nd.kind == "stmt" and "self.autoescape" in q.assigned_paths(nd.ast)):
        v_ = getattr(nd.ast, "value", None)
        if isinstance(v_, ast.Name) and v_.id not in params_:
            # the choice was made into a local first (an inlined helper's result): its definitions are the sites
            defs_ = list(ti.cfg.stmt_nodes(lambda n, nm=v_.id: n.kind == "stmt" and nm in q.assigned_paths(n.ast)))
            if not defs_ or any(not isinstance(d_.ast, ast.Assign) or len(d_.ast.targets) != 1 or not isinstance(d_.ast.targets[0], ast.Name) for d_ in defs_):
                raise AnalysisError("Template.__init__: local %s stored in self.autoescape is not bound by plain assignments" % v_.id)
            sites += [(d_.ast, d_.ast.value, d_) for d_ in defs_]
        elif v_ is None:
            raise AnalysisError("Template.__init__: store to self.autoescape not understood: %s" % q.unparse(nd.ast))
        else:
            sites.append((nd.ast, v_, nd))
    facts = must_facts(ti.cfg)
    for st_, v_, nd in sites:
        v = _dflt(v_)
        ck.ob(rid, ti, st_, v in (ap, "loader.autoescape", "_DEFAULT_AUTOESCAPE"), "a template's autoescape is its argument, else its loader's, else the default")
        if v == "loader.autoescape":
            ck.ob(rid, ti, st_, holds(facts[nd.id], "isinstance(%s, _UnsetMarker)" % ap, True) or holds(facts[nd.id], "%s is _UNSET" % ap, True), "the loader's setting is used only when no explicit argument was given")
        if v == "_DEFAULT_AUTOESCAPE":
            ck.ob(rid, ti, st_, (holds(facts[nd.id], "isinstance(%s, _UnsetMarker)" % ap, True) or holds(facts[nd.id], "%s is _UNSET" % ap, True)) and holds(facts[nd.id], "loader", False), "the default is used when neither argument nor loader decide")
    # the constructor decides the setting *before* the text is parsed, so that an autoescape directive in the
    # text (which writes template.autoescape during _parse) is not overwritten afterwards
    pcalls = [n_ for n_, c_ in ti.cfg.find(lambda x: q.is_call(x, "_parse"))]
    ck.floor(rid, len(pcalls), 1, "_parse call in Template.__init__")
    for nd in ti.cfg.stmt_nodes(lambda nd: nd.kind == "stmt" and "self.autoescape" in q.assigned_paths(nd.ast)):
        late = any(_reach(ti.cfg, pc, nd) for pc in pcalls)
        ck.ob(rid, ti, nd.ast, not late, "self.autoescape is initialised before the template text is parsed (a directive's setting is not overwritten)")
    for pc in pcalls:
        c_ = [c for c in q.calls(pc.ast) if q.is_call(c, "_parse")][0]
        ck.ob(rid, ti, c_, len(c_.args) >= 2 and q.dotted(c_.args[1]) == "self", "the text is parsed for this template object (directives write this template's setting)")
    n_def = sum(1 for _st, v_, _nd in sites if _dflt(v_) == "_DEFAULT_AUTOESCAPE")
    ck.ob(rid, ti, ti.node, n_def == 1, "without argument and loader the template escapes with the default", construct="default store count %d" % n_def)
    bl = ck.func(T, "BaseLoader.__init__")
    a = bl.node.args
    names = [x.arg for x in a.args]
    dv = None
    if ap in names:
        i = names.index(ap) - (len(names) - len(a.defaults))
        dv = a.defaults[i] if i >= 0 else None
    ck.ob(rid, bl, bl.node, dv is not None and _dflt(dv) == "_DEFAULT_AUTOESCAPE", "a loader escapes with the default unless told otherwise", construct="BaseLoader autoescape default")
    st = q.stores_to(bl.node, "self.autoescape")
    ck.ob(rid, bl, bl.node, len(st) == 1 and q.dotted(st[0].value) == ap, "the loader keeps the setting it was given", construct="self.autoescape = autoescape")
    # escape function
    xe = ck.func(ESC, "xhtml_escape")
    rets = [n for n in q.walk_body(xe.node) if isinstance(n, ast.Return)]
    ck.floor(rid, len(rets), 1, "returns in xhtml_escape")
    for r in rets:
        c = alias_expand(xe.node, r.value)
        ok = isinstance(c, ast.Call) and q.dotted(c.func) == "html.escape" and len(c.args) >= 1
        quote = (q.kwarg(c, "quote") or (c.args[1] if len(c.args) > 1 else None)) if ok else None
        ck.ob(rid, xe, r, ok and (quote is None or q.is_const(quote, True)), "xhtml_escape returns html.escape(...) with quote escaping on")
        if ok:
            a0 = c.args[0]
            ck.ob(rid, xe, r, isinstance(a0, ast.Call) and q.call_attr(a0) in ("to_unicode", "_unicode", "native_str", "to_basestring") and q.dotted(a0.args[0]) == xe.params()[0], "the whole argument is escaped (decoded to str first)")


def run(ck):
    from ..x_valuewalk import guard_obligations, canonical

    ck.repo = canonical(ck.repo, ['tornado/template.py', 'tornado/escape.py'], keep_names=('_DEFAULT_AUTOESCAPE',))

    # function splitting: single-use private helpers of template.py are inlined first (vt.x_wsnorm)
    from .. import x_wsnorm

    try:
        ck.repo = x_wsnorm.normalize(ck.repo, T, keep={"_parse", "_get_ancestors", "_generate_python", "_create_template"})
    except (SyntaxError, RecursionError, ValueError) as e:
        raise AnalysisError("normalisation of %s failed: %s" % (T, e))
    # one level of delegation: private helpers the rules do not anchor on (also multi-use ones) are
    # replaced by their bodies at the call sites (vt.x_inline); what cannot be inlined stays a call
    # and is reported by guard_obligations below
    from .. import x_inline
    from ..x_valuewalk import split_ifexp_assign

    ck.repo = x_inline.inline_repo(ck.repo, [T], keep=['_parse', '_get_ancestors', '_generate_python', '_format_code', '_create_template'])
    ck.repo = split_ifexp_assign(ck.repo, T, ['__init__'])
    guard_obligations(ck, ['_parse', '_get_ancestors', '_generate_python', '_format_code', '_create_template'])
    ck.rule("C20.escape-before-append", "_Expression.generate: on every path that is neither raw nor autoescape-None the value variable is rebound to <current template's autoescape>(value) after its last other rebinding and before the append line")
    ck.rule("C20.raw-sites", "raw expression nodes are constructed only for the raw directive and (_Module) the module directive; .raw is written only by the constructor; raw defaults to False")
    ck.rule("C20.include-scope", "bodies of other templates are generated inside with writer.include(<owner template>); include() saves then installs; its exit restores the saved entry; nobody else writes current_template")
    ck.rule("C20.root-template", "the writer starts in the template of the file being generated; files and named blocks are tagged with the template they were parsed for")
    ck.rule("C20.autoescape-writers", "only the constructors and the autoescape directive write .autoescape; the directive writes the template being parsed; None only for the literal 'None'")
    ck.rule("C20.default-escape", "the default autoescape name is bound to escape.xhtml_escape; templates/loaders fall back to it; xhtml_escape = html.escape with quotes")
    px = ParseCtx(ck)
    rule_escape_before_append(ck)
    rule_raw_sites(ck, px)
    rule_include_scope(ck)
    rule_root_template(ck)
    rule_autoescape_writers(ck, px)
    rule_default_escape(ck)


def _in(qn, edit, rel=T):
    return lambda repo: mutate(repo, rel, qn, edit)


def _u(n):
    return ast.unparse(n)


def _move_escape_first(root):
    """emit the escaping line before the str()/utf8 conversion lines"""
    body = root.body
    iff = [i for i, st in enumerate(body) if isinstance(st, ast.If)]
    conv = [i for i, st in enumerate(body) if isinstance(st, ast.Expr) and "isinstance(_tt_tmp" in _u(st)]
    if not iff or not conv:
        return False
    st = body.pop(iff[0])
    body.insert(conv[0], st)
    return True


MUTANTS = [
    ("raw test inverted", _in("_Expression.generate", replace_expr(lambda n: isinstance(n, ast.UnaryOp) and _u(n) == "not self.raw", lambda n: parse_expr("self.raw"))), "C20.escape-before-append"),
    ("escape only when the *root* template escapes", _in("_Expression.generate", replace_expr(lambda n: _u(n) == "writer.current_template.autoescape", lambda n: parse_expr("writer.include_stack[0][0].autoescape if writer.include_stack else writer.current_template.autoescape"), limit=1)), "C20.escape-before-append"),
    ("escaped value stored in another variable", _in("_Expression.generate", replace_expr(lambda n: q.is_const(n, "_tt_tmp = _tt_utf8(%s(_tt_tmp))"), lambda n: ast.Constant(value="_tt_esc = _tt_utf8(%s(_tt_tmp))"))), "C20.escape-before-append"),
    ("escape applied before the str() conversion (later rebinding is unescaped)", _in("_Expression.generate", _move_escape_first), "C20.escape-before-append"),
    ("escape only when a loader is present", _in("_Expression.generate", replace_expr(lambda n: isinstance(n, ast.BoolOp) and isinstance(n.op, ast.And), lambda n: ast.BoolOp(op=ast.Or(), values=[ast.UnaryOp(op=ast.Not(), operand=n.values[0]), n.values[1]]) if False else ast.BoolOp(op=ast.And(), values=[n.values[0], ast.Compare(left=parse_expr("writer.loader"), ops=[ast.IsNot()], comparators=[ast.Constant(value=None)])]))), "C20.escape-before-append"),
    ("{{ }} expressions constructed raw", _in("_parse", replace_expr(lambda n: isinstance(n, ast.Call) and _u(n) == "_Expression(contents, line)", lambda n: parse_expr("_Expression(contents, line, raw=True)"))), "C20.raw-sites"),
    ("raw defaults to True", _in("_Expression.__init__", lambda fn: (fn.args.defaults.__setitem__(len(fn.args.defaults) - 1, ast.Constant(value=True)) or True)), "C20.raw-sites"),
    ("set directive builds a raw expression", _in("_parse", replace_expr(lambda n: isinstance(n, ast.Call) and _u(n) == "_Statement(suffix, line)", lambda n: parse_expr("_Expression(suffix, line, True)"))), "C20.raw-sites"),
    ("include body generated in the includer's scope", _in("_IncludeBlock.generate", replace_stmt(lambda st: isinstance(st, ast.With), lambda st: st.body)), "C20.include-scope"),
    ("block override generated in the base template's scope", _in("_NamedBlock.generate", replace_expr(lambda n: _u(n) == "block.template", lambda n: parse_expr("self.template"))), "C20.include-scope"),
    ("include exit does not restore the template", _in("_CodeWriter.include", replace_stmt(lambda st: isinstance(st, ast.Assign) and "pop" in _u(st), lambda st: [parse_stmt("self.include_stack.pop()")])), "C20.include-scope"),
    ("include exit restores the line number slot", _in("_CodeWriter.include", replace_expr(lambda n: isinstance(n, ast.Subscript) and "pop()" in _u(n), lambda n: parse_expr("self.include_stack.pop()[1]"))), "C20.include-scope"),
    ("include installs the template before saving the old one", _in("_CodeWriter.include", lambda fn: (fn.body.insert(0, fn.body.pop(1)) or True)), "C20.include-scope"),
    ("autoescape directive changes the loader default", _in("_parse", replace_stmt(lambda st: isinstance(st, ast.Assign) and _u(st.targets[0]) == "template.autoescape", lambda st: [st, parse_stmt("template.loader.autoescape = fn")])), "C20.autoescape-writers"),
    ("empty autoescape directive disables escaping", _in("_parse", replace_expr(lambda n: _u(n) == "fn == 'None'", lambda n: parse_expr("fn == 'None' or not fn"))), "C20.autoescape-writers"),
    ("writer starts in the derived template", _in("Template._generate_python", replace_expr(lambda n: _u(n) == "ancestors[0].template", lambda n: parse_expr("self"))), "C20.root-template"),
    ("constructor settles autoescape after parsing (directive overwritten)", _in("Template.__init__", lambda fn: (lambda i_if, i_parse: (fn.body.insert(i_parse[0] + 1, fn.body.pop(i_if[0])) or True) if i_if and i_parse and i_if[0] < i_parse[0] else False)([i for i, st in enumerate(fn.body) if isinstance(st, ast.If) and "self.autoescape" in _u(st)], [i for i, st in enumerate(fn.body) if isinstance(st, ast.Assign) and "_parse(" in _u(st)])), "C20.default-escape"),
    ("no loader means no escaping", _in("Template.__init__", replace_stmt(lambda st: isinstance(st, ast.Assign) and _u(st) == "self.autoescape = _DEFAULT_AUTOESCAPE", lambda st: [parse_stmt("self.autoescape = None")])), "C20.default-escape"),
    ("xhtml_escape keeps quotes", _in("xhtml_escape", replace_expr(lambda n: isinstance(n, ast.Call) and _u(n.func) == "html.escape", lambda n: parse_expr("html.escape(to_unicode(value), quote=False)")), rel=ESC), "C20.default-escape"),
    ("namespace binds the default name to a no-op", _in("Template.generate", replace_expr(lambda n: _u(n) == "escape.xhtml_escape", lambda n: parse_expr("escape.to_unicode"), limit=2)), "C20.default-escape"),
]
