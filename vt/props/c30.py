"""C30 — form bodies: untrusted bodies fail cleanly, limits are enforced.

Decided statically (DESIGN.md §4 C30):
* EXC: from ``parse_body_arguments`` only ``HTTPInputError`` escapes — every
  fallible operation (frozen table) sits inside a ``try`` whose handler catches
  ``Exception`` and raises ``HTTPInputError``; every other raise is an explicit
  ``HTTPInputError``; operations outside the table fail closed (exit 2).
* MPT: in ``parse_multipart_form_data`` the ``enabled`` switch dominates every
  use of the body, the part-count check dominates the per-part loop and the
  per-part header-size check dominates ``HTTPHeaders.parse`` of that part; the
  bounds are the fields of the *effective* config (parameter, defaulted only
  when None), which ``parse_body_arguments`` passes on and which
  ``set_parse_body_config`` really installs (``global``).
* Content-Encoding is rejected before either parser runs.
Not decided: losslessness of the parse; exactness of the part count.
"""
from __future__ import annotations

import ast

from .. import q
from ..cfg import must_facts, holds
from ..rules import call_sites
from ..mutate import mutate, remove_stmts, replace_expr, replace_stmt, parse_stmt, parse_expr
from ..model import AnalysisError
from ..x_paths import path_states, satisfied

TECHNIQUE = "exception-escape lint against a frozen raise table + guard dominance (must-facts) of the limit checks on the CFG of the multipart parser"
EXPLANATION = (
    "parse_body_arguments: every call/raise is classified (safe table / known-fallible / explicit HTTPInputError) and fallible ones must be enclosed by a handler "
    "catching Exception that raises HTTPInputError. parse_multipart_form_data: must-facts at the per-part HTTPHeaders.parse call and at the part loop must contain the "
    "config.enabled, len(parts) <= config.max_parts and eoh <= config.max_part_header_size guards, where config is the parameter. Config plumbing (defaulting only under "
    "'is None', config.multipart passed on, global installation) is checked structurally."
)
NOT_DECIDED = "losslessness (fields/files recovered exactly), RFC 2231 decoding correctness, exactness of the part count (the preamble element), and exceptions from a direct call of parse_multipart_form_data"
LEVEL_NOTE = "raise table frozen for the operations that occur today; new operations outside a converting handler fail closed"

HU = "tornado/httputil.py"
PBA = "parse_body_arguments"
PMF = "parse_multipart_form_data"

SAFE_METHODS = {"startswith", "endswith", "strip", "lstrip", "rstrip", "split", "partition", "rpartition", "lower", "upper", "items", "keys", "values", "setdefault", "extend", "append", "get", "find", "rfind"}
SAFE_FUNCS = {"HTTPInputError", "len", "isinstance", "str", "bool", "repr"}
FALLIBLE = {"parse_qs_bytes", "parse_multipart_form_data", "utf8", "native_str", "to_unicode", "_parse_header", "decode", "encode", "int", "parse", "unquote", "unquote_to_bytes", "parse_qs", "parse_qsl", "HTTPFile", "loads"}


def _raises_input_error(r: ast.Raise) -> bool:
    e = r.exc
    return isinstance(e, ast.Call) and (q.dotted(e.func) or "").split(".")[-1] == "HTTPInputError"


def _converting(h: ast.ExceptHandler) -> bool:
    """Handler body ends, on every path, in ``raise HTTPInputError(..)``."""
    last = h.body[-1] if h.body else None
    if not isinstance(last, ast.Raise) or not _raises_input_error(last):
        return False
    # no return/continue/break that would leave the handler before the raise
    for st in h.body[:-1]:
        for x in q.walk_local(st):
            if isinstance(x, (ast.Return, ast.Continue, ast.Break)):
                return False
    return True


def rule_only_input_error(ck, fi=None, depth=0):
    from ..x_resolve import callee, in_annotation
    top = fi is None
    if fi is None:
        fi = ck.func(HU, PBA)
    else:
        ck.use(fi)
    pm = q.parent_map(fi.node)
    facts = must_facts(fi.cfg)
    n = 0
    nprot = 0

    def handler_for(node):
        """Innermost enclosing handler set that catches Exception; (handler, converting?)."""
        for _try, handlers in q.enclosing_try_handlers(pm, node):
            for h in handlers:
                if q.exc_is_caught("Exception", q.handler_names(h)):
                    # earlier, narrower handlers of the same try must convert (or pass an HTTPInputError on) as well
                    others_ok = all(_converting(h2) or (all(nm.split(".")[-1] == "HTTPInputError" for nm in q.handler_names(h2)) and len(h2.body) == 1 and isinstance(h2.body[0], ast.Raise) and h2.body[0].exc is None) for h2 in handlers)
                    return h if others_ok else None
            # a narrower handler does not protect; keep looking outward
        return None

    def in_handler_body(node):
        for a in q.ancestors(pm, node):
            if isinstance(a, ast.ExceptHandler):
                return a
            if isinstance(a, q.ScopeNode):
                return None
        return None

    # 1. handlers: every handler of the function catches Exception and converts
    tries = [t for t in q.walk_body(fi.node) if isinstance(t, ast.Try)]
    if top:
        ck.floor("C30.only-input-error", len(tries), 1, "try statements in parse_body_arguments")
    for t in tries:
        n += 1
        covered = any(q.exc_is_caught("Exception", q.handler_names(h)) for h in t.handlers)
        ck.ob("C30.only-input-error", fi, t.handlers[0] if t.handlers else t, covered, "the handlers around the body parser together catch Exception (everything a hostile body can provoke), not only narrower classes", construct="except %s" % " | ".join(",".join(q.handler_names(h)) for h in t.handlers))
        for h in t.handlers:
            n += 1
            only_input = all(nm.split(".")[-1] == "HTTPInputError" for nm in q.handler_names(h))
            passes_on = only_input and len(h.body) == 1 and isinstance(h.body[0], ast.Raise) and h.body[0].exc is None
            ck.ob("C30.only-input-error", fi, h, _converting(h) or passes_on, "the handler converts to HTTPInputError (its last statement raises HTTPInputError, no early exit) or passes an HTTPInputError on unchanged", construct="handler body of except %s" % ",".join(q.handler_names(h)))
        if t.finalbody:
            raise AnalysisError("C30: try/finally in %s (unknown idiom)" % fi.qualname)
        # try/else: the else block is not covered by the handlers; its statements are linted as unprotected code below

    # 2. raises
    for r in [x for x in q.walk_body(fi.node) if isinstance(x, ast.Raise)]:
        n += 1
        hb = in_handler_body(r)
        if r.exc is None:
            only_input = hb is not None and all(nm.split(".")[-1] == "HTTPInputError" for nm in q.handler_names(hb))
            ck.ob("C30.only-input-error", fi, r, only_input, "a bare re-raise lets the original exception escape (fine only inside 'except HTTPInputError')")
            continue
        prot = handler_for(r) if hb is None else None
        if prot is not None and _converting(prot):
            ck.ob("C30.only-input-error", fi, r, True, "raise inside a converting try block")
        else:
            ck.ob("C30.only-input-error", fi, r, _raises_input_error(r), "an escaping raise is an explicit HTTPInputError")

    # 3. calls and subscripts
    for nd, x in fi.cfg.find(lambda x: isinstance(x, (ast.Call, ast.Subscript))):
        if in_handler_body(x) is not None:
            # building the message of the converted error: "%s" % e cannot raise for exceptions
            continue
        if in_annotation(pm, x):
            continue
        h = handler_for(x)
        protected = h is not None and _converting(h)
        if not protected and q.enclosing_try_handlers(pm, x):
            # inside a try whose handler is too narrow / not converting: reported once at the handler (step 1)
            continue
        if isinstance(x, ast.Subscript):
            if not isinstance(x.ctx, ast.Load) or isinstance(x.slice, ast.Slice):
                continue
            if protected:
                nprot += 1
                continue
            base = q.dotted(x.value)
            key = x.slice
            if isinstance(key, ast.Constant) and isinstance(key.value, str) and base is not None and holds(facts[nd.id], "%r in %s" % (key.value, base), True):
                n += 1
                ck.ob("C30.only-input-error", fi, x, True, "%s[%r] is read under a dominating membership test" % (base, key.value))
                continue
            if isinstance(key, ast.Constant) and key.value == 0 and isinstance(x.value, ast.Name):
                binds = [a.value for a in q.walk_body(fi.node) if isinstance(a, ast.Assign) and x.value.id in q.assigned_paths(a)]
                if binds and all(isinstance(b, ast.Call) and q.call_attr(b) in ("split", "partition", "rsplit", "rpartition") for b in binds):
                    n += 1
                    ck.ob("C30.only-input-error", fi, x, True, "index 0 of a split()/partition() result always exists")
                    continue
            raise AnalysisError("C30.only-input-error: unmodelled subscript %s outside a converting handler in %s" % (q.unparse(x), fi.qualname))
        name = q.call_attr(x)
        if protected:
            nprot += 1
            continue
        n += 1
        if name in FALLIBLE:
            ck.ob("C30.only-input-error", fi, x, False, "fallible operation %s(..) must sit inside a try whose handler catches Exception and raises HTTPInputError" % name)
        elif (isinstance(x.func, ast.Attribute) and name in SAFE_METHODS) or (isinstance(x.func, ast.Name) and name in SAFE_FUNCS) or (q.dotted(x.func) or "").endswith("HTTPInputError"):
            ck.ob("C30.only-input-error", fi, x, True, "%s(..) is in the frozen no-raise table" % name)
        else:
            h2 = callee(ck.repo, fi, x)
            if h2 is not None and depth < 2 and h2.node is not fi.node:
                # a private helper of the same module: everything it can raise escapes here, so it is held to the same rule
                n += rule_only_input_error(ck, h2, depth + 1)
                continue
            raise AnalysisError("C30.only-input-error: unmodelled call %s outside a converting handler in %s" % (q.unparse(x.func), fi.qualname))
    if not top:
        return n
    ck.floor("C30.only-input-error", nprot, 1, "operations protected by converting handlers")
    # 4. both parsers are reached only from inside converting handlers
    for name in ("parse_qs_bytes", PMF):
        cs = [c for c in q.calls(fi.node) if q.call_attr(c) == name]
        ck.floor("C30.only-input-error", len(cs), 1, "calls of %s" % name)
    return n


def _cmp_bound(text, pol, is_measure, is_limit):
    """Does fact (text, pol) say  measure <= limit  (or stricter)?"""
    try:
        e = ast.parse(text, mode="eval").body
    except SyntaxError:
        return False
    if not (isinstance(e, ast.Compare) and len(e.ops) == 1):
        return False
    l, op, r = e.left, e.ops[0], e.comparators[0]
    if is_measure(l) and is_limit(r):
        return (isinstance(op, (ast.Gt, ast.GtE)) and not pol) or (isinstance(op, (ast.LtE, ast.Lt)) and pol)
    if is_measure(r) and is_limit(l):
        return (isinstance(op, (ast.Lt, ast.LtE)) and not pol) or (isinstance(op, (ast.GtE, ast.Gt)) and pol)
    return False


def rule_limits(ck):
    fi = ck.func(HU, PMF)
    params = fi.params()
    ck.need("config" in params or any("config" in p for p in params), "parse_multipart_form_data has no config parameter")
    cfgp = [p for p in params if "config" in p][0]
    data_params = [p for p in params[:2]]
    from ..x_resolve import widen_facts
    _mf = must_facts(fi.cfg)
    from ..x_paths import dominance_facts

    class _Lazy(dict):
        def __missing__(self, k):
            # named booleans / local aliases of the limits are looked through; guards over lengths/limits also hold by
            # dominance when the collection is merely passed to a call (filter(None, parts))
            self[k] = widen_facts(fi, set(_mf[k]) | dominance_facts(fi, fi.cfg.nodes[k]))
            return self[k]

    facts = _Lazy()
    # fields of the config dataclass
    cls = ck.repo.cls(HU, "ParseMultipartConfig")
    fields = {}
    for st in cls.body:
        if isinstance(st, ast.AnnAssign) and isinstance(st.target, ast.Name):
            fields[st.target.id] = st.value
    for f in ("enabled", "max_parts", "max_part_header_size"):
        ck.ob("C30.config", None, cls, f in fields, "ParseMultipartConfig has field %s" % f, construct="field %s" % f, file=HU)
    ck.need(all(f in fields for f in ("enabled", "max_parts", "max_part_header_size")), "ParseMultipartConfig fields missing")
    for f in ("max_parts", "max_part_header_size"):
        try:
            from ..x_resolve import fold_with_module
            v = fold_with_module(ck.repo.module(HU), fields[f])   # a default hoisted to a module-level constant is folded through
        except q.NotFoldable:
            raise AnalysisError("default of ParseMultipartConfig.%s is not a constant" % f)
        ck.ob("C30.config", None, cls, isinstance(v, int) and 0 < v < 10 ** 7, "default %s is a finite positive bound (%r)" % (f, v), construct="default %s" % f, file=HU)
    ck.ob("C30.config", None, cls, q.is_const(fields["enabled"], True) or q.is_const(fields["enabled"], False), "default 'enabled' is a boolean constant", construct="default enabled", file=HU)

    aliases = {cfgp}
    for a in q.walk_body(fi.node):
        if isinstance(a, ast.Assign) and len(a.targets) == 1 and isinstance(a.targets[0], ast.Name) and q.dotted(a.value) == cfgp and len(q.stores_to(fi.node, a.targets[0].id)) == 1:
            aliases.add(a.targets[0].id)

    def limit(attr):
        return lambda e: isinstance(e, ast.Attribute) and e.attr == attr and q.dotted(e.value) in aliases

    # the per-part header parse
    parses = [(nd, c) for nd, c in fi.cfg.find(lambda x: isinstance(x, ast.Call) and q.dotted(x.func) in ("HTTPHeaders.parse", "httputil.HTTPHeaders.parse"))]
    ck.floor("C30.limits", len(parses), 1, "HTTPHeaders.parse calls in parse_multipart_form_data")
    pm = q.parent_map(fi.node)
    n = 0
    for nd, c in parses:
        # the header text: <part>[:<eoh>] somewhere in the first argument
        a0 = c.args[0] if c.args else None
        if isinstance(a0, ast.Name):
            b = [a.value for a in q.walk_body(fi.node) if isinstance(a, ast.Assign) and a0.id in q.assigned_paths(a)]
            if len(b) == 1:
                a0 = b[0]
        sl = [x for x in ast.walk(a0) if isinstance(x, ast.Subscript) and isinstance(x.slice, ast.Slice) and x.slice.lower is None and x.slice.upper is not None] if c.args else []
        if len(sl) != 1 or q.dotted(sl[0].slice.upper) is None:
            raise AnalysisError("C30.limits: header text of a part is not of the form part[:eoh] (unknown idiom)")
        eoh = q.dotted(sl[0].slice.upper)
        part = q.dotted(sl[0].value)
        is_eoh = lambda e: q.dotted(e) == eoh or (isinstance(e, ast.Call) and q.is_call(e, "len") and q.unparse(e.args[0]) == q.unparse(sl[0]))
        ok = any(_cmp_bound(t, pol, is_eoh, limit("max_part_header_size")) for t, pol in facts[nd.id] if not t.startswith("@"))
        n += 1
        ck.ob("C30.limits", fi, c, ok, "the part's header size (%s) is checked against %s.max_part_header_size on every path before its headers are parsed" % (eoh, cfgp))
        # the enclosing loop iterates the parts whose count was checked
        loop = None
        for a in q.ancestors(pm, c):
            if isinstance(a, ast.For) and q.dotted(a.target) == part:
                loop = a
                break
        if loop is None:
            raise AnalysisError("C30.limits: loop over the parts not found (unknown idiom)")
        it_ = loop.iter
        if isinstance(it_, ast.Call) and q.dotted(it_.func) == "filter" and len(it_.args) == 2:
            it_ = it_.args[1]   # a filtered view iterates (a subset of) the same collection
        parts = q.dotted(it_)
        if parts is None:
            raise AnalysisError("C30.limits: parts iterable is not a variable")
        # the quantity that is counted must be the real number of pieces: an unbounded split of the body
        from ..x_resolve import unique_def
        pdef = unique_def(fi, parts)
        if not (isinstance(pdef, ast.Call) and isinstance(pdef.func, ast.Attribute) and pdef.func.attr in ("split", "rsplit")):
            raise AnalysisError("C30.limits: the collection of parts (%s) is not produced by a split of the body (unknown idiom)" % parts)
        n += 1
        ck.ob("C30.limits", fi, pdef, len(pdef.args) == 1 and not pdef.keywords, "the parts that are counted against %s.max_parts come from an unbounded split: with a maxsplit the count is capped and the limit can never trigger (surplus parts are swallowed into the last value)" % cfgp)
        is_cnt = lambda e: isinstance(e, ast.Call) and q.is_call(e, "len") and len(e.args) == 1 and q.dotted(e.args[0]) == parts
        ok2 = any(_cmp_bound(t, pol, is_cnt, limit("max_parts")) for t, pol in facts[nd.id] if not t.startswith("@"))
        n += 1
        ck.ob("C30.limits", fi, c, ok2, "the number of parts (len(%s)) is checked against %s.max_parts before any part is parsed" % (parts, cfgp))
        for hn in fi.cfg.nodes_for(it_):
            ok3 = any(_cmp_bound(t, pol, is_cnt, limit("max_parts")) for t, pol in facts[hn.id] if not t.startswith("@"))
            n += 1
            ck.ob("C30.limits", fi, loop.iter, ok3, "the part-count check dominates the loop over the parts")
        n += 1
        ck.ob("C30.limits", fi, c, holds(facts[nd.id], "%s.enabled" % cfgp, True), "multipart parsing runs only when %s.enabled" % cfgp)
    # enabled dominates every use of the body/boundary
    uses = fi.cfg.stmt_nodes(lambda nd2: nd2.ast is not None and any(isinstance(x, ast.Name) and x.id in data_params and isinstance(x.ctx, ast.Load) for r in _roots(nd2) for x in q.walk_local(r)))
    ck.floor("C30.enabled", len(uses), 3, "uses of the body/boundary")
    for u in uses:
        ck.ob("C30.enabled", fi, u.ast if not isinstance(u.ast, (ast.For, ast.With)) else u.ast, holds(facts[u.id], "%s.enabled" % cfgp, True), "the 'enabled' switch of the effective config dominates every use of the body (%s)" % "/".join(data_params))

    # effective config: the parameter is re-bound only under `is None`, from the global default
    for fn, attr in ((fi, True), (ck.func(HU, PBA), False)):
        f2 = must_facts(fn.cfg)
        p = [x for x in fn.params() if "config" in x][0]
        sts = fn.cfg.stmt_nodes(lambda nd2: nd2.kind == "stmt" and isinstance(nd2.ast, (ast.Assign, ast.AnnAssign)) and p in q.assigned_paths(nd2.ast))
        for s in sts:
            n += 1
            ck.ob("C30.config", fn, s.ast, holds(f2[s.id], "%s is None" % p, True), "a caller-supplied config is never overridden (%s re-bound only when it is None)" % p)
            v = s.ast.value
            ck.ob("C30.config", fn, s.ast, "_DEFAULT_PARSE_BODY_CONFIG" in q.names_in(v), "the fallback is the installed global default")
        # every read of config.<field> happens after the defaulting (no AttributeError on None): guaranteed by dominance of the None test
        ck.floor("C30.config", len(sts), 1, "config defaulting statements in %s" % fn.qualname)
    # parse_body_arguments passes its multipart config on
    pba = ck.func(HU, PBA)
    pcfg = [x for x in pba.params() if "config" in x][0]
    for c in [c for c in q.calls(pba.node) if q.call_attr(c) == PMF]:
        kw = q.kwarg(c, cfgp)
        if kw is None:
            from ..x_resolve import arg_map as _am
            mp_ = _am(fi, c)
            kw = mp_.get(cfgp) if mp_ else None
        n += 1
        ck.ob("C30.config", pba, c, kw is not None and q.dotted(kw) == "%s.multipart" % pcfg, "parse_body_arguments hands %s.multipart to the multipart parser (configured limits are the ones enforced)" % pcfg)
    # set_parse_body_config installs the global
    sp = ck.use(ck.repo.func(HU, "set_parse_body_config"))   # the raw function: alias normalisation would hide a dead local store
    glob = [g for g in q.walk_body(sp.node) if isinstance(g, ast.Global) and "_DEFAULT_PARSE_BODY_CONFIG" in g.names]
    asg = [a for a in q.stores_to(sp.node, "_DEFAULT_PARSE_BODY_CONFIG") if isinstance(a, ast.Assign) and q.dotted(a.value) in sp.params()]
    if not asg:
        raise AnalysisError("set_parse_body_config: no assignment of its argument to _DEFAULT_PARSE_BODY_CONFIG found (unknown idiom)")
    n += 1
    ck.ob("C30.config", sp, sp.node, bool(glob) and bool(asg), "set_parse_body_config rebinds the module-level default (global declaration + assignment of its argument)", construct="global _DEFAULT_PARSE_BODY_CONFIG = <arg>")
    return n


def _roots(nd):
    from ..cfg import _node_roots
    return _node_roots(nd)


def _rejects_content_encoding(ck, cfi, param):
    """``cfi`` returns normally only when ``param`` is falsy/None or has no Content-Encoding, and its raises are HTTPInputError."""
    st = path_states(cfi, [param, "%s is None" % param, "'Content-Encoding' in %s" % param], {}, follow_exc=False)
    ok = satisfied(st, cfi.cfg.exit, [("fact", param, False), ("fact", "%s is None" % param, True), ("fact", "'Content-Encoding' in %s" % param, False)])
    raises = [r for r in q.walk_body(cfi.node) if isinstance(r, ast.Raise)]
    return ok is True and bool(raises) and all(_raises_input_error(r) for r in raises)


def rule_content_encoding(ck):
    from ..x_resolve import callee, arg_map
    fi = ck.func(HU, PBA)
    hp = [p for p in fi.params() if p == "headers"]
    ck.need(hp, "parse_body_arguments has no headers parameter")
    h = hp[0]
    # calls of a same-module helper that rejects encoded bodies (verified on the helper's own CFG) count as the check
    rejecting = set()
    helper_raises = 0
    for nd, c in fi.cfg.find(lambda x: isinstance(x, ast.Call)):
        cfi = callee(ck.repo, fi, c)
        if cfi is None or cfi.node is fi.node:
            continue
        mp = arg_map(cfi, c)
        if not mp:
            continue
        ps = [p_ for p_, a in mp.items() if q.dotted(a) == h]
        if len(ps) == 1 and "Content-Encoding" in q.literal_strs(cfi.node) and _rejects_content_encoding(ck, cfi, ps[0]):
            rejecting.add(nd.id)
            helper_raises += 1
            ck.use(cfi)
    st = path_states(fi, [h, "%s is None" % h, "'Content-Encoding' in %s" % h], {"rejected": lambda n2: n2.id in rejecting}, follow_exc=False)
    # tests that mention the header in some other spelling cannot be judged
    for t_ in fi.cfg.stmt_nodes(lambda nd: nd.kind == "test"):
        if "Content-Encoding" in q.literal_strs(t_.ast) and q.unparse(t_.ast) not in ("'Content-Encoding' in %s" % h, "'Content-Encoding' not in %s" % h):
            raise AnalysisError("C30.content-encoding: the Content-Encoding test '%s' is not of a recognised form" % q.unparse(t_.ast))
    n = 0
    for name in ("parse_qs_bytes", PMF):
        for nd, c in call_sites(fi, name, "." + name):
            n += 1
            ok = satisfied(st, nd, [("fact", h, False), ("fact", "%s is None" % h, True), ("fact", "'Content-Encoding' in %s" % h, False), ("event", "rejected")])
            ck.ob("C30.content-encoding", fi, c, ok is True, "%s runs only when no Content-Encoding header is present (encoded bodies are rejected, not parsed as garbage)" % name)
    ck.floor("C30.content-encoding", n, 2, "parser calls")
    # and the rejection is an HTTPInputError
    facts = must_facts(fi.cfg)
    rs = [nd for nd in fi.cfg.stmt_nodes(lambda nd: nd.kind == "stmt" and isinstance(nd.ast, ast.Raise)) if holds(facts[nd.id], "'Content-Encoding' in %s" % h, True)]
    for r in rs:
        ck.ob("C30.content-encoding", fi, r.ast, _raises_input_error(r.ast), "an encoded body is rejected with HTTPInputError")


def rule_byte_exact(ck):
    """Field/file content reaches the result dictionaries byte for byte: only slices at delimiter positions."""
    from ..x_exact import check_exact, slice_delimiters
    fi = ck.func(HU, PMF)
    params = fi.params()
    ck.need(len(params) >= 4, "parse_multipart_form_data(boundary, data, arguments, files) signature changed")
    boundary, data, argsp, filesp = params[:4]
    facts = must_facts(fi.cfg)
    sinks = []
    for nd, c in fi.cfg.find(lambda x: isinstance(x, ast.Call) and isinstance(x.func, ast.Attribute) and x.func.attr in ("append", "extend", "insert") and x.args):
        root = x_root(c.func.value)
        if root == argsp:
            sinks.append((nd, c, c.args[-1], "field value stored in %s" % argsp))
        elif root == filesp:
            from ..x_resolve import resolve as _res
            a = _res(fi, c.args[-1])
            if isinstance(a, ast.Call) and q.call_attr(a) == "HTTPFile":
                b = q.kwarg(a, "body")
                if b is None:
                    raise AnalysisError("C30.byte-exact: HTTPFile(..) without body= keyword")
                sinks.append((nd, c, b, "uploaded file body stored in %s" % filesp))
            else:
                raise AnalysisError("C30.byte-exact: unknown object stored in %s" % filesp)
    ck.floor("C30.byte-exact", len(sinks), 2, "content sinks (arguments / files)")
    # field names / file names come out of the parsed Content-Disposition parameters unchanged
    dps = [a.targets[0].elts[1].id for a in q.walk_body(fi.node) if isinstance(a, ast.Assign) and isinstance(a.value, ast.Call) and q.call_attr(a.value) == "_parse_header" and isinstance(a.targets[0], ast.Tuple) and len(a.targets[0].elts) == 2 and isinstance(a.targets[0].elts[1], ast.Name)]
    ck.need(len(set(dps)) == 1, "C30.byte-exact: '<disposition>, <params> = _parse_header(..)' not found")
    dp = dps[0]
    nn = 0
    for nd, c in fi.cfg.find(lambda x: isinstance(x, ast.Call) and isinstance(x.func, ast.Attribute) and x.func.attr == "setdefault" and q.dotted(x.func.value) in (argsp, filesp) and x.args):
        check_exact(ck, "C30.byte-exact", fi, c.args[0], [dp], "field name used as key of %s" % q.dotted(c.func.value), passthrough={"get": -1}, site=c)
        nn += 1
    for nd, c in fi.cfg.find(lambda x: isinstance(x, ast.Call) and q.call_attr(x) == "HTTPFile"):
        fn = q.kwarg(c, "filename")
        if fn is None:
            raise AnalysisError("C30.byte-exact: HTTPFile(..) without filename=")
        check_exact(ck, "C30.byte-exact", fi, fn, [dp], "uploaded file name", passthrough={"get": -1}, site=c)
        nn += 1
    ck.floor("C30.byte-exact", nn, 3, "name sinks")
    slices_on_path = []
    for nd, c, sink, what in sinks:
        steps = check_exact(ck, "C30.byte-exact", fi, sink, [data], what, site=c)
        slices_on_path += [s.node for s in steps if s.kind == "slice"]
    # every slice of the function (content path, header text, quoted boundary) cuts exactly at a tested delimiter
    n = 0
    for nd, sub in fi.cfg.find(lambda x: isinstance(x, ast.Subscript) and isinstance(x.slice, ast.Slice)):
        for ok, text in slice_delimiters(fi, sub, facts[nd.id]):
            n += 1
            ck.ob("C30.byte-exact", fi, sub, ok, "%s: %s" % (q.unparse(sub), text))
    ck.floor("C30.byte-exact", n, 6, "slice-bound judgements")
    ck.need(len(slices_on_path) >= 2, "C30.byte-exact: expected the content to be cut out of the body by at least two slices")
    # urlencoded: blank values are fields too
    pba = ck.func(HU, PBA)
    for c in [c for c in q.calls(pba.node) if q.call_attr(c) in ("parse_qs_bytes", "parse_qs", "parse_qsl")]:
        kb = q.arg(c, 1, "keep_blank_values")
        ck.ob("C30.byte-exact", pba, c, kb is not None and q.is_const(kb, True), "urlencoded fields with an empty value are kept (keep_blank_values=True)")
        qs_ = q.arg(c, 0, "qs")
        ck.ob("C30.byte-exact", pba, c, qs_ is not None and q.dotted(qs_) == pba.params()[1], "the urlencoded parser is given the body itself (no strip/decode before parsing)")


def rule_param_exact(ck):
    """Header parameter values (field names, file names) leave _parse_header exactly as the RFC 2231 / quoted-string
    decoder produced them, except for one surrounding pair of quotes that was positively tested for."""
    from ..x_exact import check_exact, slice_delimiters
    from ..x_resolve import widen_facts, short_circuit_facts, resolve
    ph = ck.func(HU, "_parse_header")
    rets = [r for r in q.walk_body(ph.node) if isinstance(r, ast.Return) and r.value is not None]
    dicts = set()
    for r in rets:
        v = resolve(ph, r.value)
        if not (isinstance(v, ast.Tuple) and len(v.elts) == 2):
            raise AnalysisError("C30.byte-exact: _parse_header does not return a (key, params) pair (unknown idiom)")
        d = q.dotted(v.elts[1])
        if d is None:
            raise AnalysisError("C30.byte-exact: the parameter dictionary returned by _parse_header is not a variable")
        dicts.add(d)
    if len(dicts) != 1:
        raise AnalysisError("C30.byte-exact: _parse_header returns several dictionaries")
    D = dicts.pop()
    mf = must_facts(ph.cfg)
    pm = q.parent_map(ph.node)
    sinks = [(nd, st) for nd in ph.cfg.stmt_nodes(lambda n_: n_.kind == "stmt" and isinstance(n_.ast, ast.Assign) and isinstance(n_.ast.targets[0], ast.Subscript) and q.dotted(n_.ast.targets[0].value) == D) for st in [nd.ast]]
    if not sinks:
        raise AnalysisError("C30.byte-exact: no store into the parameter dictionary of _parse_header found (built in an unrecognised way)")
    producers = {"collapse_rfc2231_value": None, "email.utils.collapse_rfc2231_value": None}
    n = 0
    for nd, st in sinks:
        steps = check_exact(ck, "C30.byte-exact", ph, st.value, [], "parameter value returned by _parse_header", passthrough=producers, site=st, at=nd)
        n += 1
        for s_ in steps:
            if s_.kind == "slice":
                at = s_.at or nd
                F = widen_facts(ph, set(mf[at.id]) | set(short_circuit_facts(pm, s_.node)))
                for ok, text in slice_delimiters(ph, s_.node, F):
                    n += 1
                    ck.ob("C30.byte-exact", ph, s_.node, ok, "%s: %s" % (q.unparse(s_.node), text))
    ck.floor("C30.byte-exact", n, 1, "parameter-value obligations in _parse_header")


def x_root(e):
    """Root name of a receiver chain like ``arguments.setdefault(name, [])``."""
    while True:
        if isinstance(e, ast.Call):
            e = e.func
        elif isinstance(e, ast.Attribute):
            e = e.value
        elif isinstance(e, ast.Subscript):
            e = e.value
        else:
            break
    return e.id if isinstance(e, ast.Name) else None


def run(ck):
    from ..x_resolve import install_prepared
    install_prepared(ck, __file__)
    ck.rule("C30.only-input-error", "parse_body_arguments: fallible operations only inside try/except Exception -> raise HTTPInputError; every other raise is HTTPInputError")
    ck.rule("C30.limits", "parse_multipart_form_data: len(parts) <= config.max_parts dominates the part loop; eoh <= config.max_part_header_size dominates HTTPHeaders.parse of the part")
    ck.rule("C30.enabled", "config.enabled dominates every use of the body in parse_multipart_form_data")
    ck.rule("C30.config", "effective config: parameter defaulted only when None from the global; config.multipart passed on; set_parse_body_config installs the global; finite defaults")
    ck.rule("C30.content-encoding", "bodies with Content-Encoding are rejected (HTTPInputError) before either parser runs")
    rule_only_input_error(ck)
    n = rule_limits(ck)
    ck.floor("C30.limits", n, 8, "limit/config obligations")
    rule_content_encoding(ck)
    ck.rule("C30.byte-exact", "field/file content is cut out of the body only by slices whose bounds are the positions/lengths of the delimiters actually tested (first CRLFCRLF, trailing CRLF), never through strip/replace/decode/join; blank urlencoded values kept")
    rule_byte_exact(ck)
    rule_param_exact(ck)


# ---------------------------------------------------------------------------


def _h(qn, edit):
    return lambda repo: mutate(repo, HU, qn, edit)


def _src(x):
    return ast.unparse(x)


def _narrow(which):
    def edit(root):
        k = 0
        for node in ast.walk(root):
            if isinstance(node, ast.ExceptHandler) and q.dotted(node.type) == "Exception":
                if k == which:
                    node.type = ast.Name(id="ValueError", ctx=ast.Load())
                    return True
                k += 1
        return False
    return edit


def _move_after(pred_move, pred_anchor):
    """Move the first statement satisfying pred_move to just after the first later sibling satisfying pred_anchor."""
    def edit(root):
        for node in ast.walk(root):
            for fld in ("body", "orelse"):
                body = getattr(node, fld, None)
                if not isinstance(body, list):
                    continue
                for i, st in enumerate(body):
                    if isinstance(st, ast.stmt) and pred_move(st):
                        for j in range(i + 1, len(body)):
                            if pred_anchor(body[j]):
                                s = body.pop(i)
                                body.insert(j, s)
                                return True
        return False
    return edit


def _hoist_out_of_try(root):
    """fields = content_type.split(';') and the boundary loop moved out of the try (handler left around nothing fallible)."""
    for node in ast.walk(root):
        body = getattr(node, "body", None)
        if isinstance(body, list):
            for i, st in enumerate(body):
                if isinstance(st, ast.Try) and PMF in _src(st):
                    body[i:i + 1] = st.body
                    return True
    return False


MUTANTS = [
    ("seeded C30-adv5: _parse_header strips quotes with value.strip('\"') (a literal quote at either end of the decoded value is lost)", _h("_parse_header", lambda root: _strip_quotes(root)), "C30.byte-exact"),
    ("_parse_header: surrounding quotes removed without testing the last character", _h("_parse_header", replace_expr(lambda n: isinstance(n, ast.BoolOp) and "value[-1]" in _src(n), lambda n: ast.BoolOp(op=ast.And(), values=n.values[:2]))), ("C30.byte-exact",)),
    ("_parse_header: decoded value lower-cased", _h("_parse_header", replace_expr(lambda n: isinstance(n, ast.Call) and q.call_attr(n) == "collapse_rfc2231_value", lambda n: ast.Call(func=ast.Attribute(value=n, attr="lower", ctx=ast.Load()), args=[], keywords=[]))), "C30.byte-exact"),
    ("seeded C30-adv4: multipart handler narrowed to (HTTPInputError, ValueError, LookupError): TypeError from decode_params escapes", _h(PBA, lambda root: _narrow_to(root, 1, "(HTTPInputError, ValueError, LookupError)")), "C30.only-input-error"),
    ("seeded C30-adv3: parts split with maxsplit = config.max_parts - 1 (the count can never exceed the limit)", _h(PMF, replace_expr(lambda n: isinstance(n, ast.Call) and q.call_attr(n) == "split" and "boundary" in _src(n), lambda n: ast.Call(func=n.func, args=n.args + [parse_expr("config.max_parts - 1")], keywords=[]))), ("C30.limits", "C30.byte-exact")),
    ("limits: parts split with a hard-coded maxsplit=1000", _h(PMF, replace_expr(lambda n: isinstance(n, ast.Call) and q.call_attr(n) == "split" and "boundary" in _src(n), lambda n: ast.Call(func=n.func, args=n.args, keywords=[ast.keyword(arg="maxsplit", value=ast.Constant(value=1000))]))), ("C30.limits", "C30.byte-exact")),
    ("seeded C30-adv1: value = part[eoh + 4:].rstrip(b'\\r\\n') (trailing CR/LF of the content lost)", _h(PMF, replace_expr(lambda n: isinstance(n, ast.Subscript) and isinstance(n.slice, ast.Slice) and "eoh + 4" in _src(n), lambda n: parse_expr("part[eoh + 4:].rstrip(b'\\r\\n')"))), "C30.byte-exact"),
    ("byte-exact: header/body separator searched from the right (rfind): content containing a blank line is cut", _h(PMF, replace_expr(lambda n: isinstance(n, ast.Attribute) and n.attr == "find" and "part" in _src(n), lambda n: ast.Attribute(value=n.value, attr="rfind", ctx=ast.Load()))), "C30.byte-exact"),
    ("byte-exact: content starts 2 bytes after the separator position (eoh + 2)", _h(PMF, replace_expr(lambda n: isinstance(n, ast.Constant) and n.value == 4, lambda n: ast.Constant(value=2))), "C30.byte-exact"),
    ("byte-exact: trailing CRLF no longer tested before dropping 2 bytes", _h(PMF, replace_expr(lambda n: isinstance(n, ast.BoolOp) and "endswith" in _src(n) and "disposition" in _src(n), lambda n: n.values[0])), "C30.byte-exact"),
    ("byte-exact: file body decoded and re-encoded", _h(PMF, replace_expr(lambda n: isinstance(n, ast.keyword) and n.arg == "body", lambda n: ast.keyword(arg="body", value=parse_expr("value.decode('utf-8', 'replace').encode('utf-8')")))), "C30.byte-exact"),
    ("byte-exact: field names stripped", _h(PMF, replace_stmt(lambda st: isinstance(st, ast.Assign) and _src(st) == "name = disp_params['name']", lambda st: [parse_stmt("name = disp_params['name'].strip()")])), "C30.byte-exact"),
    ("byte-exact: file names lower-cased", _h(PMF, replace_expr(lambda n: isinstance(n, ast.keyword) and n.arg == "filename", lambda n: ast.keyword(arg="filename", value=parse_expr("disp_params['filename'].lower()")))), "C30.byte-exact"),
    ("byte-exact: urlencoded blank values dropped", _h(PBA, replace_expr(lambda n: isinstance(n, ast.keyword) and n.arg == "keep_blank_values", lambda n: ast.keyword(arg="keep_blank_values", value=ast.Constant(value=False)))), "C30.byte-exact"),
    ("byte-exact: urlencoded body stripped before parsing", _h(PBA, replace_expr(lambda n: isinstance(n, ast.Call) and q.call_attr(n) == "parse_qs_bytes", lambda n: ast.Call(func=n.func, args=[parse_expr("body.strip()")], keywords=n.keywords))), "C30.byte-exact"),
    ("multipart: handler narrowed to ValueError (LookupError from an unknown RFC 2231 charset escapes)", _h(PBA, _narrow(1)), "C30.only-input-error"),
    ("urlencoded: handler narrowed to ValueError", _h(PBA, _narrow(0)), "C30.only-input-error"),
    ("multipart: try/except removed around the multipart parser", _h(PBA, _hoist_out_of_try), "C30.only-input-error"),
    ("multipart: handler re-raises the original exception", _h(PBA, replace_stmt(lambda st: isinstance(st, ast.Raise) and "Invalid multipart/form-data" in _src(st), lambda st: [parse_stmt("raise")])), "C30.only-input-error"),
    ("urlencoded: handler raises ValueError", _h(PBA, replace_stmt(lambda st: isinstance(st, ast.Raise) and "Invalid x-www-form-urlencoded" in _src(st), lambda st: [parse_stmt("raise ValueError('Invalid x-www-form-urlencoded body: %s' % e) from e")])), "C30.only-input-error"),
    ("limits: part-count check moved after the part loop", _h(PMF, _move_after(lambda st: isinstance(st, ast.If) and "max_parts" in _src(st.test), lambda st: isinstance(st, ast.For))), "C30.limits"),
    ("limits: header-size check after the headers were parsed", _h(PMF, _move_after(lambda st: isinstance(st, ast.If) and "max_part_header_size" in _src(st.test), lambda st: "HTTPHeaders.parse" in _src(st))), "C30.limits"),
    ("limits: header size compared with max_parts", _h(PMF, replace_expr(lambda n: isinstance(n, ast.Attribute) and n.attr == "max_part_header_size", lambda n: parse_expr("config.max_parts"))), "C30.limits"),
    ("limits: part count compared with the global default instead of the effective config", _h(PMF, replace_expr(lambda n: isinstance(n, ast.Attribute) and n.attr == "max_parts", lambda n: parse_expr("_DEFAULT_PARSE_BODY_CONFIG.multipart.max_parts"))), "C30.limits"),
    ("limits: header-size check only for file parts (skipped via 'and')", _h(PMF, replace_expr(lambda n: isinstance(n, ast.Compare) and "max_part_header_size" in _src(n), lambda n: parse_expr("eoh > config.max_part_header_size and b'filename' in part"))), "C30.limits"),
    ("enabled: switch tested after the body was split", _h(PMF, _move_after(lambda st: isinstance(st, ast.If) and "enabled" in _src(st.test), lambda st: isinstance(st, ast.Assign) and "split" in _src(st))), "C30.enabled"),
    ("enabled: switch removed", _h(PMF, remove_stmts(lambda st: isinstance(st, ast.If) and "enabled" in _src(st.test))), ("C30.enabled", "C30.limits")),
    ("config: caller's config always replaced by the global default", _h(PMF, replace_stmt(lambda st: isinstance(st, ast.If) and "config is None" in _src(st.test), lambda st: st.body)), "C30.config"),
    ("config: parse_body_arguments does not pass its config on", _h(PBA, replace_expr(lambda n: isinstance(n, ast.Call) and q.call_attr(n) == PMF, lambda n: ast.Call(func=n.func, args=n.args, keywords=[]))), "C30.config"),
    ("config: set_parse_body_config assigns a local (global statement dropped)", _h("set_parse_body_config", remove_stmts(lambda st: isinstance(st, ast.Global))), "C30.config"),
    ("content-encoding: check dropped in the multipart branch", _h(PBA, lambda root: _drop_ce(root, 1)), "C30.content-encoding"),
]


def _drop_ce(root, which):
    k = 0
    for node in ast.walk(root):
        for fld in ("body", "orelse"):
            body = getattr(node, fld, None)
            if not isinstance(body, list):
                continue
            for i, st in enumerate(body):
                if isinstance(st, ast.If) and "Content-Encoding" in _src(st.test) and isinstance(st.body[0], ast.Raise):
                    if k == which:
                        del body[i]
                        return True
                    k += 1
    return False


def _narrow_to(root, which, to):
    k = 0
    for node in ast.walk(root):
        if isinstance(node, ast.ExceptHandler) and q.dotted(node.type) == "Exception":
            if k == which:
                node.type = parse_expr(to)
                return True
            k += 1
    return False


def _strip_quotes(root):
    for node in ast.walk(root):
        if isinstance(node, ast.For):
            for i, st in enumerate(node.body):
                if isinstance(st, ast.If) and "value[0]" in _src(st.test) and i + 1 < len(node.body) and isinstance(node.body[i + 1], ast.Assign):
                    tgt = node.body[i + 1].targets[0]
                    node.body[i:i + 2] = [ast.Assign(targets=[tgt], value=parse_expr("value.strip('\"')"))]
                    return True
    return False
