"""C33 — locks and semaphores never over-grant, lose wakeups or skip the queue.

Decided statically (DESIGN.md §4 C33): permit accounting as a typestate over
every CFG path of ``Semaphore.acquire`` / ``Semaphore.release`` (net change of
``_value`` x grants x enqueues x popped-but-unserved waiter), the guard of the
direct grant folded exhaustively over small integers, SETTLE discipline on the
waiter futures, FIFO-only operations on ``_waiters`` (who-may-touch), the
garbage collector keeping exactly the live waiters in order, timeout callbacks
that can only fail the waiter, the bound test of ``BoundedSemaphore.release``
and its translation in ``Lock.release``.  Not decided: the schedule quantifier
itself (interleavings of timers/cancellations against a reference model).
"""
from __future__ import annotations

import ast

from .. import q
from ..cfg import must_facts, holds, canon_fact
from ..rules import settle_sites, check_settles
from ..mutate import mutate, remove_stmts, replace_expr, replace_stmt, parse_stmt, parse_expr
from ..model import AnalysisError
from ..x_syncnorm import normalized

NORM_MODULES = ("tornado/locks.py", "tornado/queues.py", "tornado/gen.py", "tornado/concurrent.py", "tornado/ioloop.py", "tornado/platform/asyncio.py")
from ..x_sync import allowed_closure, resolve_callable_name, with_nullness, check_outcome_reads, check_none_tests, own_walk, guard_models, aug_delta, node_counts, method_call_on, container_uses, exit_states, reaches, lambda_or_func_body_calls, own_find, own_settle_sites

TECHNIQUE = "typestate over the CFG (permit accounting), exhaustive guard folding, settle-discipline and who-may-touch lint"
EXPLANATION = (
    "Permit accounting typestate (net delta of _value, number of grants, number of enqueues, popped-live-waiter pending) over "
    "every normal path of Semaphore.acquire/release; the guards of the decrement/enqueue/bounded release folded over all small "
    "integer values; SETTLE rule (not done() guard or fresh future) at every settle of a waiter; every use of _waiters classified "
    "(append/popleft only); _garbage_collect keeps exactly the not-done waiters in order; on_timeout can only fail the waiter; "
    "BoundedSemaphore.release raises at the bound with a class Lock.release translates."
)
NOT_DECIDED = (
    "the quantifier over schedules (timer expiries / cancellations interleaved with acquire/release against a sequential model); "
    "asyncio's own guarantee that done-callbacks and timers do not run re-entrantly inside release()/acquire()"
)
LEVEL_NOTE = "trusted: asyncio.Future semantics (set_result on a not-done future cannot fail; callbacks run later via call_soon)"

L = "tornado/locks.py"
VAL = "self._value"
WAIT = "self._waiters"
SEM_FAMILY = ("_TimeoutGarbageCollector", "Semaphore", "BoundedSemaphore")
DOM = range(-2, 5)

FIFO_IN = {"append"}
FIFO_OUT = {"popleft"}
ORDER_BREAKING = {"pop", "appendleft", "insert", "remove", "extendleft", "rotate", "reverse", "clear", "extend", "sort", "__delitem__"}
ANY_IN = FIFO_IN | {"appendleft", "insert"}
ANY_OUT = FIFO_OUT | {"pop"}
PURE_CONTAINER = {"copy", "count", "index", "__len__"}


def _is_grant(c: ast.AST) -> bool:
    """A settle that completes a waiter *successfully* (= hands out a permit)."""
    if not isinstance(c, ast.Call):
        return False
    if isinstance(c.func, ast.Attribute) and c.func.attr == "set_result" and q.dotted(c.func.value):
        return True
    return q.call_attr(c) == "future_set_result_unless_cancelled" and bool(c.args) and q.dotted(c.args[0]) is not None


def _grant_target(c: ast.Call) -> str:
    if isinstance(c.func, ast.Attribute) and c.func.attr == "set_result":
        return q.dotted(c.func.value)
    return q.dotted(c.args[0])


def _grant_value(c: ast.Call):
    if isinstance(c.func, ast.Attribute) and c.func.attr == "set_result":
        return c.args[0] if c.args else None
    return c.args[1] if len(c.args) > 1 else None


def _deltas(fi):
    out = {}
    for n in fi.cfg.stmt_nodes(lambda n: n.kind == "stmt"):
        d = aug_delta(n.ast, VAL)
        if d is not None:
            out[n.id] = d
    return out


def _cap(x, lo=-2, hi=2):
    return max(lo, min(hi, x))


def _timeout_param(fi):
    ps = [p for p in fi.params() if p != "self"]
    if len(ps) != 1:
        raise AnalysisError("%s: expected exactly one (timeout) parameter, got %r" % (fi.qualname, ps))
    return ps[0]


# ---------------------------------------------------------------------------


def wrong_timer_api(ck, rule, fi, tparam) -> bool:
    """The caller's timeout (a number = absolute deadline on the loop's clock, or a timedelta = relative) keeps its
    documented meaning only when it is handed to ``add_timeout`` unchanged.  A timer armed with ``call_later`` /
    ``call_at`` from that value (directly or after re-binding the parameter) is positive evidence of a changed
    deadline semantics: reported as a violation.  Returns True if something was reported."""
    hit = False
    for nd, c in own_find(fi, lambda x: isinstance(x, ast.Call) and q.call_attr(x) in ("call_later", "call_at") and isinstance(x.func, ast.Attribute)):
        a0 = q.arg(c, 0, "delay") or q.arg(c, 0, "when")
        if a0 is not None and any(isinstance(n, ast.Name) and n.id == tparam for n in ast.walk(a0)):
            hit = True
            ck.ob(rule, fi, c, False, "the waiter's timer is armed with add_timeout(timeout, ...): a numeric timeout is an absolute deadline and a timedelta a delay; %s(...) gives the caller's value a different meaning" % q.call_attr(c))
    return hit


def check_acquire(ck, fi):
    cfg = fi.cfg
    deltas = _deltas(fi)
    grants = own_find(fi, _is_grant)
    enqs = own_find(fi, lambda x: method_call_on(x, WAIT, *ANY_IN))
    ck.floor("C33.acquire-ts", len(grants), 1, "direct grant sites in acquire")
    ck.floor("C33.acquire-ts", len(enqs), 1, "enqueue sites in acquire")
    tparam = _timeout_param(fi)
    tmo = own_find(fi, lambda x: isinstance(x, ast.Call) and q.call_attr(x) == "add_timeout")
    gcount, ecount, tcount = {}, {}, {}
    for n, _ in grants:
        gcount[n.id] = gcount.get(n.id, 0) + 1
    for n, _ in enqs:
        ecount[n.id] = ecount.get(n.id, 0) + 1
    for n, _ in tmo:
        tcount[n.id] = tcount.get(n.id, 0) + 1

    def transfer(n, val):
        d, g, e, t = val
        return (_cap(d + deltas.get(n.id, 0)), min(2, g + gcount.get(n.id, 0)), min(2, e + ecount.get(n.id, 0)), min(2, t + tcount.get(n.id, 0)))

    tfact = "%s is None" % tparam
    normal, _ = exit_states(cfg, (0, 0, 0, 0), transfer, track=lambda t: t == tfact)
    ck.floor("C33.acquire-ts", len(normal), 2, "normal exit states of acquire")
    for facts, (d, g, e, t) in normal:
        ok = (d, g, e) in ((-1, 1, 0), (0, 0, 1))
        ck.ob("C33.acquire-ts", fi, fi.node, ok,
              "acquire ends either with one permit taken and one grant, or with no change and one enqueue (delta=%d grants=%d enqueued=%d)" % (d, g, e),
              construct="exit delta=%d grants=%d enqueued=%d" % (d, g, e))
        if e == 1 and (tfact, True) not in facts:
            if not tmo and wrong_timer_api(ck, "C33.timeout", fi, tparam):
                continue
            if not tmo and any(isinstance(c, ast.Call) and tparam in {q.dotted(a) for a in c.args} for c in q.calls(fi.node)):
                raise AnalysisError("%s: no add_timeout call but the timeout is handed to a helper; registration idiom unknown" % fi.site())
            ck.ob("C33.timeout", fi, fi.node, t == 1, "an enqueued acquire with a timeout registers exactly one timer (timers=%d)" % t,
                  construct="exit enqueued timers=%d" % t)
        if (tfact, True) in facts:
            ck.ob("C33.timeout", fi, fi.node, t == 0, "no timer without a timeout (timers=%d)" % t, construct="exit no-timeout timers=%d" % t)

    # guards, folded exhaustively over small integers
    facts = must_facts(cfg)
    for n in cfg.stmt_nodes(lambda n: n.id in deltas):
        ms = guard_models(facts[n.id], [VAL], DOM)
        ck.ob("C33.grant-guard", fi, n.ast, deltas[n.id] == -1 and all(v > 0 for (v,) in ms),
              "a permit is taken in acquire only by 1 and only when _value > 0 (guard admits _value in %s)" % sorted(v for (v,) in ms))
    for n, c in enqs:
        ms = guard_models(facts[n.id], [VAL], DOM)
        ck.ob("C33.grant-guard", fi, c, all(v <= 0 for (v,) in ms),
              "a waiter is queued only when no permit is available (guard admits _value in %s)" % sorted(v for (v,) in ms))

    # identity: the future that is granted / queued / returned is the fresh one
    names = {_grant_target(c) for _, c in grants} | {q.dotted(c.args[0]) if c.args else None for _, c in enqs}
    rets = [r for r in own_walk(fi.node) if isinstance(r, ast.Return)]
    names |= {q.dotted(r.value) if r.value is not None else None for r in rets}
    ck.ob("C33.acquire-ts", fi, fi.node, len(names) == 1 and None not in names and len(rets) >= 1,
          "the future granted, queued and returned by acquire is one and the same local (%s)" % sorted(map(str, names)), construct="waiter identity")
    waiter = next(iter(names)) if len(names) == 1 else None
    return waiter, tmo, tparam


def check_release(ck, fi):
    cfg = fi.cfg
    deltas = _deltas(fi)
    grants = own_find(fi, _is_grant)
    pops = own_find(fi, lambda x: method_call_on(x, WAIT, *ANY_OUT))
    ck.floor("C33.release-ts", len(grants), 1, "grant sites in release")
    ck.floor("C33.release-ts", len(pops), 1, "waiter removal sites in release")
    # the popped waiter variable
    popvars = set()
    for n, c in pops:
        if n.kind == "stmt" and isinstance(n.ast, ast.Assign) and n.ast.value is c and len(n.ast.targets) == 1 and isinstance(n.ast.targets[0], ast.Name):
            popvars.add(n.ast.targets[0].id)
        else:
            raise AnalysisError("%s: popleft() result not bound to a local" % fi.site(c))
    if len(popvars) != 1:
        raise AnalysisError("%s: several popped-waiter locals %r" % (fi.site(), popvars))
    w = next(iter(popvars))
    for n, c in grants:
        ck.ob("C33.release-ts", fi, c, _grant_target(c) == w, "release grants the waiter it just popped (%s)" % w)
    gcount = {}
    for n, _ in grants:
        gcount[n.id] = gcount.get(n.id, 0) + 1
    pop_ids = {n.id for n, _ in pops}
    donefact = "%s.done()" % w

    def transfer(n, val):
        d, g, pending, dropped = val
        if n.id in pop_ids:
            if pending:
                dropped = True
            pending = True
        if n.id in gcount:
            g = min(2, g + gcount[n.id])
            pending = False
        return (_cap(d + deltas.get(n.id, 0)), g, pending, dropped)

    def edge(n, kind, val):
        d, g, pending, dropped = val
        if n.kind == "test" and kind in ("true", "false"):
            t, pol = canon_fact(n.ast, kind == "true")
            if t == donefact and pol:
                pending = False  # legitimately skipped: timed out / cancelled
        return (d, g, pending, dropped)

    z_, tr_, ed_ = with_nullness((0, 0, False, False), transfer, edge)
    normal, _ = exit_states(cfg, z_, tr_, track=lambda t: t == WAIT, edge_transfer=ed_)
    normal = sorted({(f_, v_[0]) for f_, v_ in normal}, key=repr)
    ck.floor("C33.release-ts", len(normal), 2, "normal exit states of release")
    for facts, (d, g, pending, dropped) in normal:
        empty = (WAIT, False) in facts
        if g == 0:
            ok = d == 1 and empty and not pending and not dropped
            what = "release without a grant adds exactly one permit and only after the queue was found empty"
        else:
            ok = g == 1 and d == 0 and not pending and not dropped
            what = "release that grants hands the permit to exactly one waiter (net _value change 0)"
        ck.ob("C33.release-ts", fi, fi.node, ok, "%s (delta=%d grants=%d queue-empty=%s live-waiter-dropped=%s)" % (what, d, g, empty, pending or dropped),
              construct="exit delta=%d grants=%d empty=%s dropped=%s" % (d, g, empty, pending or dropped))
    return w


def check_fifo(ck, R="C33.fifo", family=SEM_FAMILY):
    uses = container_uses(ck.repo, L, family, "_waiters")
    n_in = n_out = 0
    for u in uses:
        if u.kind == "method":
            if u.name in FIFO_IN:
                n_in += 1
                ck.ob(R, u.fi, u.call, True, "waiters enter the queue at the tail (append)")
            elif u.name in FIFO_OUT:
                n_out += 1
                ck.ob(R, u.fi, u.call, True, "waiters leave the queue at the head (popleft)")
            elif u.name in ORDER_BREAKING:
                n_in += u.name in ANY_IN
                n_out += u.name in ANY_OUT
                ck.ob(R, u.fi, u.call, False, "only append/popleft may modify the waiter queue (arrival order); found .%s()" % u.name)
            elif u.name in PURE_CONTAINER:
                ck.ob(R, u.fi, u.call, True, "read-only use of the waiter queue")
            else:
                raise AnalysisError("%s: unknown method %s on %s" % (u.fi.site(u.node), u.name, WAIT))
        elif u.kind == "store":
            ok = u.fi.qualname in ("_TimeoutGarbageCollector.__init__", "_TimeoutGarbageCollector._garbage_collect")
            ck.ob(R, u.fi, u.node, ok, "the waiter queue is rebound only by the constructor and the garbage collector")
    ck.floor(R, n_in, 1, "insertion sites")
    ck.floor(R, n_out, 1, "removal sites")


def check_gc(ck, R="C33.gc-live", val=VAL):
    """_garbage_collect rebinds the queue to exactly its not-done members, in order."""
    fi = ck.func(L, "_TimeoutGarbageCollector._garbage_collect")
    stores = q.stores_to(fi.node, WAIT)
    ck.floor(R, len(stores), 1, "rebinding of _waiters in _garbage_collect")
    for st in stores:
        v = getattr(st, "value", None)
        comp = None
        if isinstance(v, ast.Call) and q.call_attr(v) in ("deque", "list") and len(v.args) == 1 and isinstance(v.args[0], (ast.GeneratorExp, ast.ListComp)):
            comp = v.args[0]
        elif isinstance(v, (ast.ListComp,)):
            comp = v
        if comp is None or len(comp.generators) != 1:
            raise AnalysisError("%s: unrecognised rebuild of the waiter queue" % fi.site(st))
        g = comp.generators[0]
        if not isinstance(g.target, ast.Name):
            raise AnalysisError("%s: unrecognised comprehension target" % fi.site(st))
        x = g.target.id
        ok = q.dotted(g.iter) == WAIT and isinstance(comp.elt, ast.Name) and comp.elt.id == x
        ck.ob(R, fi, st, ok, "the rebuilt queue enumerates the old queue in order and keeps the elements themselves")
        # filter: exactly `not x.done()`
        live_kept = True  # every not-done element passes all conditions
        only_live = False  # at least one condition removes done elements
        for cond in g.ifs:
            t, pol = canon_fact(cond, True)
            if t == "%s.done()" % x and pol is False:
                only_live = True
            else:
                live_kept = False
        ck.ob(R, fi, st, live_kept, "no live (not done) waiter is discarded by the garbage collector", construct="gc keeps live: " + q.normalize_construct(comp))
        ck.ob(R, fi, st, only_live or not g.ifs, "the collector's filter is `not w.done()`", construct="gc filter: " + q.normalize_construct(comp))
    # collecting does not touch the permit count
    if val:
        ck.ob(R, fi, fi.node, not q.stores_to(fi.node, val), "the garbage collector does not change _value", construct="gc stores _value")


def _is_fail(c, expect):
    """The settle ``c`` is the timeout outcome: an exception (expect='exc') or the
    constant result False (expect='false')."""
    if expect == "exc":
        return (isinstance(c.func, ast.Attribute) and c.func.attr == "set_exception") or q.call_attr(c) in ("future_set_exception_unless_cancelled", "future_set_exc_info")
    v = _grant_value(c) if _is_grant(c) else None
    return v is not None and q.is_const(v, False)


def check_timeout_cb(ck, acq, waiter, tmo, tparam, R="C33.timeout", RS="C33.settle", expect="exc", val=VAL, safe_ok=False):
    """The timer armed in ``acq`` (a waiting operation) calls a nested function
    that gives the waiter its timeout outcome exactly once when it is still
    live, nothing else."""
    nested = {nf.name: nf for nf in ck.repo.nested(acq) if nf.parent is acq}
    n = 0
    for node, c in tmo:
        a0 = q.arg(c, 0, "deadline")
        a1 = q.arg(c, 1, "callback")
        ck.ob(R, acq, c, isinstance(a0, ast.Name) and a0.id == tparam, "the timer is armed with the caller's timeout")
        cbf = resolve_callable_name(ck.repo, acq, a1.id) if isinstance(a1, ast.Name) else None
        if cbf is None:
            raise AnalysisError("%s: timeout callback is not a function visible from %s" % (acq.site(c), acq.qualname))
        cb = ck.use(cbf)
        n += 1
        ss = settle_sites(cb)
        fails = [s for s in ss if _is_fail(s[1], expect)]
        ck.ob(R, cb, cb.node, len(fails) >= 1 and all(s[2] == waiter for s in ss), "the timeout callback settles the waiter of this call (%s) with the timeout outcome" % waiter, construct="on_timeout settles waiter")
        for s in ss:
            if expect == "exc":
                ck.ob(R, cb, s[1], not _is_grant(s[1]), "a timed-out waiter never obtains a permit (no successful completion in the timeout callback)")
            else:
                ck.ob(R, cb, s[1], _is_fail(s[1], expect), "a timed-out wait resolves False, never as notified")
        if expect == "exc":
            for f in fails:
                ex = f[1].args[-1] if f[1].args else None
                ck.ob(R, cb, f[1], isinstance(ex, ast.Call) and (q.dotted(ex.func) or "").split(".")[-1] == "TimeoutError", "the waiter fails with TimeoutError")
        if val:
            ck.ob(R, cb, cb.node, not q.stores_to(cb.node, val), "the timeout callback does not change _value", construct="on_timeout stores _value")
        # every normal path of the callback on which the waiter is live settles it
        fail_ids = node_counts(cb, lambda x: any(x is f[1] for f in fails))
        donef = "%s.done()" % waiter
        normal, _ = exit_states(cb.cfg, 0, lambda nd, v: min(2, v + fail_ids.get(nd.id, 0)), track=lambda t: t == donef)
        for facts, cnt in normal:
            live = (donef, True) not in facts
            ck.ob(R, cb, cb.node, cnt == (1 if live else 0), "timer expiry settles a live waiter exactly once and leaves a finished one alone (live=%s settles=%d)" % (live, cnt),
                  construct="on_timeout exit live=%s settles=%d" % (live, cnt))
        check_settles(ck, RS, cb, allow_safe_unguarded=safe_ok)
    if tmo:
        ck.floor(R, n, 1, "timeout callbacks")


def check_bounded(ck):
    fi = ck.func(L, "BoundedSemaphore.release")
    cfg = fi.cfg
    sup = own_find(fi, lambda x: isinstance(x, ast.Call) and isinstance(x.func, ast.Attribute) and x.func.attr == "release" and isinstance(x.func.value, ast.Call) and q.call_attr(x.func.value) == "super")
    ck.floor("C33.bounded", len(sup), 1, "super().release() calls")
    # the bound: the other path mentioned in the guard tests
    bound = set()
    for n in cfg.stmt_nodes(lambda n: n.kind == "test"):
        ps = {p for p in q.paths_in(n.ast) if p.startswith("self.") and p != VAL}
        if VAL in q.paths_in(n.ast):
            bound |= ps
    if len(bound) != 1:
        raise AnalysisError("%s: cannot identify the bound compared with _value (%r)" % (fi.site(), sorted(bound)))
    B = next(iter(bound))
    facts = must_facts(cfg)
    for n, c in sup:
        ms = guard_models(facts[n.id], [VAL, B], range(0, 4))
        bad = sorted(m for m in ms if not m[0] < m[1])
        ck.ob("C33.bounded", fi, c, not bad, "the permit is returned only while _value < %s (guard admits (value,bound) %s)" % (B, bad[:4]))
    cnt = {}
    for n, _ in sup:
        cnt[n.id] = cnt.get(n.id, 0) + 1
    normal, _ = exit_states(cfg, 0, lambda nd, v: min(2, v + cnt.get(nd.id, 0)))
    for _f, k in normal:
        ck.ob("C33.bounded", fi, fi.node, k == 1, "every normal return of BoundedSemaphore.release released exactly once (count=%d)" % k, construct="exit releases=%d" % k)
    raises = [r for r in own_walk(fi.node) if isinstance(r, ast.Raise)]
    ck.ob("C33.bounded", fi, fi.node, len(raises) >= 1, "BoundedSemaphore.release raises at the bound", construct="raises at bound")
    raised = []
    for r in raises:
        e = r.exc.func if isinstance(r.exc, ast.Call) else r.exc
        nm = q.dotted(e) if e is not None else None
        if nm is None:
            raise AnalysisError("%s: unrecognised raise" % fi.site(r))
        raised.append(nm)
    # the bound is the constructor's initial value and never changes
    init = ck.func(L, "BoundedSemaphore.__init__")
    attr = B.split(".", 1)[1]
    writers = [(f, st) for f in ck.repo.methods(L, "BoundedSemaphore") + ck.repo.methods(L, "Semaphore") + ck.repo.methods(L, "_TimeoutGarbageCollector") for st in q.stores_to(f.node, B)]
    ck.ob("C33.bounded", init, init.node, len(writers) >= 1 and all(f is init for f, _ in writers), "%s is written only by BoundedSemaphore.__init__" % B, construct="writers of " + attr)
    supinit = [c for c in q.calls(init.node) if isinstance(c.func, ast.Attribute) and c.func.attr == "__init__" and isinstance(c.func.value, ast.Call) and q.call_attr(c.func.value) == "super"]
    if len(supinit) != 1:
        raise AnalysisError("%s: expected one super().__init__ call" % init.site())
    passed = q.arg(supinit[0], 0, "value")
    for f, st in writers:
        if f is init:
            ck.ob("C33.bounded", init, st, isinstance(passed, ast.Name) and isinstance(getattr(st, "value", None), ast.Name) and st.value.id == passed.id,
                  "the bound equals the initial number of permits handed to Semaphore.__init__")
    return raised


def check_lock(ck, raised):
    rel = ck.func(L, "Lock.release")
    init = ck.func(L, "Lock.__init__")
    acq = ck.func(L, "Lock.acquire")
    # the inner primitive
    st = [s for s in own_walk(init.node) if isinstance(s, (ast.Assign, ast.AnnAssign)) and isinstance(s.value, ast.Call) and q.dotted(s.value.func) in ("BoundedSemaphore", "Semaphore")]
    if len(st) != 1:
        raise AnalysisError("%s: Lock does not wrap a semaphore in a recognised way" % init.site())
    inner = sorted(q.assigned_paths(st[0]))[0]
    c = st[0].value
    v = q.arg(c, 0, "value")
    ck.ob("C33.lock", init, st[0], q.dotted(c.func) == "BoundedSemaphore" and (v is None or q.is_const(v, 1)), "a Lock is a BoundedSemaphore with exactly one permit")
    # acquire delegates with the timeout
    tparam = _timeout_param(acq)
    dels = [c for c in q.calls(acq.node) if method_call_on(c, inner, "acquire")]
    rets = [r for r in own_walk(acq.node) if isinstance(r, ast.Return)]
    ok = len(dels) == 1 and len(rets) == 1 and rets[0].value is dels[0] and isinstance(q.arg(dels[0], 0, "timeout"), ast.Name) and q.arg(dels[0], 0, "timeout").id == tparam
    ck.ob("C33.lock", acq, acq.node, ok, "Lock.acquire returns the inner acquire(timeout)", construct="acquire delegation")
    # release: the inner release's bound error is translated, never swallowed
    cfg = rel.cfg
    calls = own_find(rel, lambda x: method_call_on(x, inner, "release"))
    ck.floor("C33.lock", len(calls), 1, "inner release calls in Lock.release")
    pm = q.parent_map(rel.node)
    for n, c in calls:
        for exc in raised:
            h = q.protected_by(pm, c, exc)
            if h is None:
                ck.ob("C33.lock", rel, c, True, "%s from the inner release propagates (release of an unlocked lock raises)" % exc)
                continue
            hn = [x for x in cfg.nodes if x.kind == "handler" and x.ast is h]
            falls = any(reaches(cfg, x, cfg.exit) for x in hn)
            ck.ob("C33.lock", rel, h, not falls, "the handler for %s re-raises on every path (release of an unlocked lock raises)" % exc,
                  construct="handler %s falls through=%s" % (exc, falls))
    cnt = {}
    for n, _ in calls:
        cnt[n.id] = cnt.get(n.id, 0) + 1
    normal, _ = exit_states(cfg, 0, lambda nd, v: min(2, v + cnt.get(nd.id, 0)))
    for _f, k in normal:
        ck.ob("C33.lock", rel, rel.node, k == 1, "Lock.release releases the inner semaphore exactly once on every normal return (count=%d)" % k, construct="exit releases=%d" % k)


def check_ctx(ck, grants):
    """The value a grant resolves to releases the same semaphore exactly once on exit."""
    classes = set()
    for fi, c in grants:
        v = _grant_value(c)
        ok = isinstance(v, ast.Call) and isinstance(v.func, ast.Name) and len(v.args) == 1 and q.dotted(v.args[0]) == "self"
        ck.ob("C33.ctx", fi, c, ok, "a grant resolves to a releasing context manager bound to this semaphore")
        if ok:
            classes.add(v.func.id)
    for cls in sorted(classes):
        init = ck.func(L, cls + ".__init__")
        ex = ck.func(L, cls + ".__exit__")
        p = [x for x in init.params() if x != "self"]
        stores = [s for s in own_walk(init.node) if isinstance(s, ast.Assign) and isinstance(s.value, ast.Name) and p and s.value.id == p[0]]
        if len(stores) != 1:
            raise AnalysisError("%s: constructor does not store its argument" % init.site())
        held = sorted(q.assigned_paths(stores[0]))[0]
        rc = node_counts(ex, lambda x: method_call_on(x, held, "release"))
        normal, _ = exit_states(ex.cfg, 0, lambda nd, v: min(2, v + rc.get(nd.id, 0)))
        for _f, k in normal:
            ck.ob("C33.ctx", ex, ex.node, k == 1, "%s.__exit__ releases the held semaphore exactly once, whatever the exit reason (count=%d)" % (cls, k), construct="exit releases=%d" % k)
    for cls in ("Semaphore", "Lock"):
        ae = ck.func(L, cls + ".__aenter__")
        aw = [a for a in own_walk(ae.node) if isinstance(a, ast.Await) and method_call_on(a.value, "self", "acquire")]
        bare = [c for c in own_walk(ae.node) if method_call_on(c, "self", "acquire") and not any(a.value is c for a in aw)]
        ok = len(aw) == 1 and not bare and ae.cfg.postdominates(ae.cfg.nodes_for(aw[0])[0], ae.cfg.entry)
        ck.ob("C33.ctx", ae, ae.node, ok, "%s.__aenter__ awaits self.acquire() on every path (the block is entered only with a permit)" % cls, construct="aenter awaits acquire")
        ax = ck.func(L, cls + ".__aexit__")
        rc = node_counts(ax, lambda x: method_call_on(x, "self", "release"))
        normal, _ = exit_states(ax.cfg, 0, lambda nd, v: min(2, v + rc.get(nd.id, 0)))
        for _f, k in normal:
            ck.ob("C33.ctx", ax, ax.node, k == 1, "%s.__aexit__ releases exactly once, whatever the exit reason (count=%d)" % (cls, k), construct="exit releases=%d" % k)


RELEASE_CALLERS = {"Semaphore.__aexit__", "Lock.__aexit__", "BoundedSemaphore.release", "Lock.release", "_ReleasingContextManager.__exit__"}


def check_who_releases(ck):
    """A permit is given back only by its holder: inside locks.py ``release`` is referenced only by the
    context-manager exits and the wrappers that *are* release (BoundedSemaphore/Lock).  The waiting machinery
    (acquire, its timeout and done callbacks, the garbage collector) never releases: a waiter that timed out or
    was cancelled held no permit."""
    n = 0
    m = ck.repo.module(L)
    for fi in m.funcs.values():
        if not isinstance(fi.node, q.FuncNode):
            continue
        for x in ast.walk(fi.node):
            if isinstance(x, ast.Attribute) and x.attr == "release" and isinstance(x.ctx, ast.Load):
                # attribute of which function's own scope?  nested defs are visited as their own FuncInfo
                owner_ok = True
                for nf in ck.repo.nested(fi):
                    if any(x is y for y in ast.walk(nf.node)):
                        owner_ok = False
                if not owner_ok:
                    continue
                top = fi
                while top.parent is not None:
                    top = top.parent
                n += 1
                rel_ok = allowed_closure(ck._orig_repo, L, RELEASE_CALLERS)
                ck.ob("C33.who-releases", fi, x, (top.qualname in RELEASE_CALLERS and fi is top) or (top.qualname in rel_ok and top.qualname not in RELEASE_CALLERS),
                      "release is referenced only by the holder-side exits (%s); the semaphore's own waiting/timeout/cancellation machinery never gives a permit back" % ", ".join(sorted(RELEASE_CALLERS)))
    ck.floor("C33.who-releases", n, 4, "references to release in locks.py")


def run(ck):
    ck._orig_repo = getattr(ck, "_orig_repo", None) or ck.repo
    ck.repo = normalized(ck.repo, NORM_MODULES, only=('tornado/locks.py',))  # alias / named-boolean / temporary / setter-helper normalisation (vt/x_syncnorm.py)
    ck.rule("C33.acquire-ts", "Semaphore.acquire: every normal path either takes one permit and grants the fresh future, or leaves _value alone and queues that future; the same future is returned")
    ck.rule("C33.release-ts", "Semaphore.release: every normal path either hands the permit to exactly one popped live waiter (net 0) or adds one permit after finding the queue empty; a popped waiter is dropped only if done()")
    ck.rule("C33.grant-guard", "acquire takes a permit only under _value > 0 and queues only under _value <= 0 (guards folded over all small integers)")
    ck.rule("C33.settle", "every settle of a waiter future is under `not F.done()` or on a future created in the same function (no *_unless_cancelled shortcut: a permit given to a cancelled waiter is lost)")
    ck.rule("C33.fifo", "the waiter queue is modified only by append (tail) and popleft (head); it is rebound only by the constructor and the garbage collector")
    ck.rule("C33.gc-live", "_garbage_collect keeps exactly the not-done waiters, in order, and does not touch _value")
    ck.rule("C33.timeout", "a queued acquire with a timeout arms one timer with that timeout; its callback fails a live waiter with TimeoutError exactly once, never grants, never changes _value")
    ck.rule("C33.none-test", "acquire's timeout is compared with None by identity (timeout=0 is a legal, immediate timeout)")
    ck.rule("C33.who-releases", "inside locks.py `release` is referenced only by __aexit__, the releasing context manager and the BoundedSemaphore/Lock wrappers — never by acquire, its callbacks or the garbage collector (a waiter that gave up held no permit)")
    ck.rule("C33.cancel-aware", "any result()/exception() read of a waiter future is cancel-aware (a cancelled waiter must not raise CancelledError out of unrelated operations)")
    ck.rule("C33.bounded", "BoundedSemaphore.release returns the permit only while _value < initial value, otherwise raises; the bound is fixed at construction")
    ck.rule("C33.lock", "Lock wraps BoundedSemaphore(1); release translates (never swallows) the bound error; acquire delegates with the timeout")
    ck.rule("C33.ctx", "the context manager a grant resolves to, and __aexit__, release the same primitive exactly once")

    acq = ck.func(L, "Semaphore.acquire")
    rel = ck.func(L, "Semaphore.release")
    waiter, tmo, tparam = check_acquire(ck, acq)
    check_release(ck, rel)
    n = check_settles(ck, "C33.settle", acq, allow_safe_unguarded=False) + check_settles(ck, "C33.settle", rel, allow_safe_unguarded=False)
    ck.floor("C33.settle", n, 2, "settle sites in acquire/release")
    check_fifo(ck)
    check_gc(ck)
    if waiter is not None:
        check_timeout_cb(ck, acq, waiter, tmo, tparam)
    # nobody else hands out permits or changes the count
    # helpers all of whose callers may write/grant may do so too (their effect is analysed inlined at the call sites)
    may_write = allowed_closure(ck._orig_repo, L, ("Semaphore.acquire", "Semaphore.release", "Semaphore.__init__"))
    for cls in SEM_FAMILY:
        for fi in ck.repo.methods(L, cls):
            top = fi
            while top.parent is not None:
                top = top.parent
            if fi.qualname in ("Semaphore.acquire", "Semaphore.release", "Semaphore.__init__") or (top.qualname in may_write and top.qualname not in ("Semaphore.acquire", "Semaphore.release", "Semaphore.__init__")):
                continue
            for st in q.stores_to(fi.node, VAL):
                ck.ob("C33.grant-guard", fi, st, False, "_value is written only by Semaphore.__init__/acquire/release")
            if fi.qualname.startswith("Semaphore.acquire.<locals>."):
                continue
            for _n, c in own_find(fi, _is_grant):
                ck.ob("C33.grant-guard", fi, c, False, "waiters are granted only by Semaphore.acquire/release")
    n = check_none_tests(ck, "C33.none-test", acq, only=[tparam])
    ck.floor("C33.none-test", n, 1, "tests of the timeout in acquire")
    si = ck.func(L, "Semaphore.__init__")
    vp = [x for x in si.params() if x != "self"][0]
    sts = q.stores_to(si.node, VAL)
    ck.ob("C33.grant-guard", si, si.node, len(sts) == 1 and q.dotted(getattr(sts[0], "value", None)) == vp, "the initial number of permits is the constructor's value", construct="initial permits")
    facts_i = must_facts(si.cfg)
    rs = [nd for nd in si.cfg.stmt_nodes(lambda nd: nd.kind == "stmt" and isinstance(nd.ast, ast.Raise))]
    ok = any(guard_models(facts_i[nd.id], [vp], range(-3, 4)) == {(-3,), (-2,), (-1,)} for nd in rs)
    ck.ob("C33.grant-guard", si, si.node, ok, "a negative initial value (and only that) is rejected", construct="rejects negative initial value")
    check_who_releases(ck)
    for cls in SEM_FAMILY + ("Lock", "_ReleasingContextManager"):
        for fi in ck.repo.methods(L, cls):
            if isinstance(fi.node, q.FuncNode):
                check_outcome_reads(ck, "C33.cancel-aware", fi)
    raised = check_bounded(ck)
    check_lock(ck, raised)
    check_ctx(ck, [(acq, c) for _n, c in own_find(acq, _is_grant)] + [(rel, c) for _n, c in own_find(rel, _is_grant)])


# ---------------------------------------------------------------------------
# mutants


def _in(qn, edit, rel=L):
    return lambda repo: mutate(repo, rel, qn, edit)


def _is_aug(st, path, op):
    return isinstance(st, ast.AugAssign) and q.dotted(st.target) == path and isinstance(st.op, op)


def _attr_call(name):
    return lambda n: isinstance(n, ast.Call) and isinstance(n.func, ast.Attribute) and n.func.attr == name


def _rename_attr(old, new):
    def f(n):
        n.func.attr = new
        return n
    return replace_expr(_attr_call(old), f)


def _cmp_op(old, new, mentions=None):
    def pred(n):
        return isinstance(n, ast.Compare) and len(n.ops) == 1 and isinstance(n.ops[0], old) and (mentions is None or mentions in ast.unparse(n))

    def f(n):
        n.ops = [new()]
        return n
    return replace_expr(pred, f)


def _drop_done_test(root):
    """`if not waiter.done(): BODY` -> BODY"""
    for node in ast.walk(root):
        for fld in ("body", "orelse"):
            body = getattr(node, fld, None)
            if isinstance(body, list):
                for i, st in enumerate(body):
                    if isinstance(st, ast.If) and "done()" in ast.unparse(st.test) and not st.orelse:
                        body[i:i + 1] = st.body
                        return True
    return False


MUTANTS = [
    ("acquire arms its timer with call_later(timeout) (absolute deadlines never fire)", _in("Semaphore.acquire", replace_expr(lambda n: isinstance(n, ast.Call) and q.call_attr(n) == "add_timeout", lambda n: ast.Call(func=ast.Attribute(value=n.func.value, attr="call_later", ctx=ast.Load()), args=n.args, keywords=[]))), "C33.timeout"),
    ("a cancelled queued waiter gives back a permit it never held (seeded C33-adv3)", _in("Semaphore.acquire", replace_stmt(lambda st: isinstance(st, ast.Expr) and "_waiters.append" in ast.unparse(st), lambda st: [st, parse_stmt("waiter.add_done_callback(lambda f: self.release() if f.cancelled() else None)")])), "C33.who-releases"),
    ("the timeout callback releases", _in("Semaphore.acquire.<locals>.on_timeout", replace_stmt(lambda st: "_garbage_collect" in ast.unparse(st), lambda st: [parse_stmt("self.release()"), st])), "C33.who-releases"),
    ("async with enters without waiting for the permit (__aenter__ does not await)", _in("Semaphore.__aenter__", replace_stmt(lambda st: isinstance(st, ast.Expr) and isinstance(st.value, ast.Await), lambda st: [ast.Expr(value=st.value.value)])), "C33.ctx"),
    ("Semaphore(0) rejected / Semaphore(-1) off by one (value <= 0)", _in("Semaphore.__init__", _cmp_op(ast.Lt, ast.LtE)), "C33.grant-guard"),
    ("acquire(timeout=0) waits forever (`if timeout:`)", _in("Semaphore.acquire", replace_expr(lambda n: isinstance(n, ast.Compare) and isinstance(n.ops[0], ast.IsNot) and ast.unparse(n.left) == "timeout", lambda n: n.left)), ("C33.none-test", "C33.timeout")),
    ("release grants without taking the permit back", _in("Semaphore.release", remove_stmts(lambda st: _is_aug(st, VAL, ast.Sub))), "C33.release-ts"),
    ("release serves the newest waiter (pop instead of popleft)", _in("Semaphore.release", _rename_attr("popleft", "pop")), ("C33.fifo", "C33.release-ts")),
    ("release grants a popped waiter without the done() test", _in("Semaphore.release", _drop_done_test), ("C33.settle", "C33.release-ts")),
    ("release keeps granting after the first waiter (break removed)", _in("Semaphore.release", remove_stmts(lambda st: isinstance(st, ast.Break))), "C33.release-ts"),
    ("release skips only cancelled waiters (timed-out ones are granted)", _in("Semaphore.release", _rename_attr("done", "cancelled")), ("C33.settle", "C33.release-ts")),
    ("acquire grants at _value >= 0", _in("Semaphore.acquire", _cmp_op(ast.Gt, ast.GtE, "_value")), "C33.grant-guard"),
    ("acquire grants without decrementing", _in("Semaphore.acquire", remove_stmts(lambda st: _is_aug(st, VAL, ast.Sub))), "C33.acquire-ts"),
    ("acquire queues at the head (appendleft)", _in("Semaphore.acquire", _rename_attr("append", "appendleft")), ("C33.fifo", "C33.acquire-ts")),
    ("timeout callback fires on a finished waiter (guard removed)", _in("Semaphore.acquire.<locals>.on_timeout", _drop_done_test), ("C33.settle", "C33.timeout")),
    ("timeout callback gives the permit back although none was taken", _in("Semaphore.acquire.<locals>.on_timeout", replace_stmt(lambda st: "_garbage_collect" in ast.unparse(st), lambda st: [parse_stmt("self._value += 1"), st])), ("C33.timeout", "C33.grant-guard")),
    ("garbage collector keeps the finished and drops the live waiters", _in("_TimeoutGarbageCollector._garbage_collect", replace_expr(lambda n: isinstance(n, ast.UnaryOp) and isinstance(n.op, ast.Not) and "done" in ast.unparse(n), lambda n: n.operand)), "C33.gc-live"),
    ("garbage collector reverses the queue", _in("_TimeoutGarbageCollector._garbage_collect", replace_expr(lambda n: isinstance(n, ast.comprehension), lambda n: ast.comprehension(target=n.target, iter=parse_expr("reversed(self._waiters)"), ifs=n.ifs, is_async=0))), ("C33.gc-live", "C33.fifo")),
    ("bounded release allows one extra (>= -> >)", _in("BoundedSemaphore.release", _cmp_op(ast.GtE, ast.Gt)), "C33.bounded"),
    ("bounded release forgets to return after complaining (raise -> log)", _in("BoundedSemaphore.release", replace_stmt(lambda st: isinstance(st, ast.Raise), lambda st: [parse_stmt("pass")])), "C33.bounded"),
    ("Lock.release swallows the error of an unlocked lock", _in("Lock.release", replace_stmt(lambda st: isinstance(st, ast.Raise), lambda st: [parse_stmt("pass")])), "C33.lock"),
    ("Lock built on an unbounded Semaphore", _in("Lock.__init__", replace_expr(lambda n: isinstance(n, ast.Name) and n.id == "BoundedSemaphore", lambda n: ast.Name(id="Semaphore", ctx=ast.Load()))), "C33.lock"),
    ("releasing context manager skips release when the body raised", _in("_ReleasingContextManager.__exit__", replace_stmt(lambda st: "release" in ast.unparse(st), lambda st: [ast.If(test=parse_expr("exc_type is None"), body=[st], orelse=[])])), "C33.ctx"),
    ("queued acquire with a timeout arms no timer", _in("Semaphore.acquire", replace_stmt(lambda st: isinstance(st, ast.Assign) and "add_timeout" in ast.unparse(st), lambda st: [parse_stmt("timeout_handle = None")])), "C33.timeout"),
]
