"""C25 — outgoing cookies are emitted exactly as set.

Decided statically:

* TAINT (flow-sensitive, regex guards decided on automata): every text value
  stored into the cookie morsel by ``RequestHandler.set_cookie`` — and the
  cookie name — is covered by a check that detects ``;`` (the character that
  would start an extra attribute / cookie for the request-side parser), is a
  constant, comes from ``format_timestamp`` or is ``str()`` of an int-typed
  parameter;
* the separator the request-side ``parse_cookie`` splits on is one the
  attribute check detects (writer/reader agreement);
* last-wins: an existing morsel of the same name is deleted before the new
  value is stored (``SimpleCookie`` would otherwise keep the old attributes);
* serialization: on the first flush every morsel is emitted once through
  ``add_header("Set-Cookie", morsel.OutputString(None))`` before the header
  block is written;
* funnel: only ``set_cookie`` writes the cookie jar; ``clear_cookie`` and
  ``set_signed_cookie`` go through it (``clear_cookie`` with an empty value and
  an expiry in the past).

Not decided: the quoting round trip of cookie *values* through
``http.cookies`` and ``parse_cookie``; the legality checks http.cookies applies
to names and attribute keys (trusted).
"""
from __future__ import annotations

import ast

from .. import q
from ..cfg import explore
from ..rules import call_sites, node_calls
from ..mutate import mutate, remove_stmts, replace_expr, replace_stmt, parse_stmt, parse_expr
from ..model import AnalysisError
from ..x_cookie import analyse, JAR, text_params
from ..x_taint import detects_all, expr_tainted, raise_after_mutation
from ..x_flow import resolve_local, expand_locals
from ..x_sites import method_calls

from ..x_http import norm_func
from ..x_objalias import subst_object_aliases, inline_constants, through_local

# private helpers that the rules model by name (sanitisers / summarised effects) and therefore must stay calls
KEEP_CALLS = {"_format_chunk", "_convert_header_value", "_clear_representation_headers", "_can_keep_alive", "_compressible_type",
              "_on_write_complete", "_finish_request", "_clear_callbacks"}


def F(ck, relpath, qualname):
    """The anchored function with its private same-file helpers inlined (function splitting is followed, depth 3)."""
    fi = ck.func(relpath, qualname)
    try:
        return inline_constants(subst_object_aliases(norm_func(ck.repo, fi, depth=3, no_inline=KEEP_CALLS)))
    except AnalysisError:
        raise
    except Exception as e:  # the normaliser must never turn into a verdict
        raise AnalysisError("cannot normalise %s: %r" % (qualname, e))


def fully_inlined(fi, keep=()):
    """No call of a private method of ``self`` is left in the normalised function (other than the ones the rules
    model by name): only then may the *absence* of an effect be reported as a violation."""
    for c in q.calls(fi.node):
        if isinstance(c.func, ast.Attribute) and q.dotted(c.func.value) in ("self", "cls") and c.func.attr.startswith("_") and not c.func.attr.startswith("__") and c.func.attr not in KEEP_CALLS and c.func.attr not in keep:
            return False
    return True


def absent(fi, what, keep=()):
    """Verdict for 'the required effect was not found': False (a violation) only when the function was fully
    recognised; otherwise the analysis fails closed."""
    if not fully_inlined(fi, keep):
        raise AnalysisError("%s: %s not found, and private helpers remain that could not be inlined" % (fi.qualname, what))
    return False


def OB(ck, env, rule, fi, node, ok, what, construct=None):
    """ck.ob for verdicts derived from a partial evaluation: a failing verdict reached through a test that involves a
    fixed input but could not be decided is not positive evidence — fail closed instead of reporting it."""
    if not ok and env is not None and env.get("@partial"):
        raise AnalysisError("%s: not decidable here - the evaluation went through the test '%s', which involves a fixed input but could not be folded" % (fi.qualname, env["@partial"]))
    return ck.ob(rule, fi, node, ok, what, construct=construct)


TECHNIQUE = "flow-sensitive taint to the morsel stores with automaton-decided regex guards; typestate for delete-before-set and emit-before-write; who-may-write on the cookie jar"
EXPLANATION = (
    "RequestHandler.set_cookie is analysed with a path-sensitive forward taint from its text-typed parameters to every store into the "
    "SimpleCookie/morsel; the validation loop over the literal (label, parameter) list is recognised and its regex is compiled to a DFA "
    "to decide that ';' is detected.  flush() and the sibling APIs are checked structurally on their CFGs."
)
NOT_DECIDED = "exceptions raised implicitly after the cookie was stored (http.cookies rejecting an unknown attribute key, format_timestamp rejecting an expires value of the wrong type) - only explicit raise statements and calls of raising tornado helpers are ordered against the jar mutation; read-back equality of cookie values through http.cookies quoting and parse_cookie unquoting; http.cookies' own legality checks on names and attribute keys; browser behaviour"
LEVEL_NOTE = "http.cookies.SimpleCookie/Morsel semantics (setitem reuses an existing morsel, OutputString(None) emits all attributes) are taken from the CPython documentation"

WEB = "tornado/web.py"
HU = "tornado/httputil.py"
RH = "RequestHandler"
SEMI = 0x3B
FORBIDDEN = (SEMI,)
SANITIZERS = ("format_timestamp",)


def check_set_cookie(ck):
    fi, sinks, loops = analyse(ck.repo, FORBIDDEN, SANITIZERS)
    ck.use(fi)
    ck.floor("C25.attr-validated", len(sinks), 6, "stores into the cookie jar / morsel")
    n_attr = 0
    for s in sinks:
        if s.kind == "cookie":
            ck.ob("C25.attr-validated", fi, s.stmt, not s.key_tainted, "the cookie name is covered by a check detecting ';' before it is stored",
                  construct="cookie name unchecked: " + q.normalize_construct(s.stmt, q.local_names(fi.node)))
        else:
            n_attr += 1
            construct = None
            kw = fi.node.args.kwarg.arg if fi.node.args.kwarg else None
            if isinstance(s.value, ast.Name) and kw:
                for lp in q.walk_body(fi.node):
                    if isinstance(lp, ast.For) and kw in q.names_in(lp.iter) and s.value.id in q.names_in(lp.target) and any(s.stmt is x for x in ast.walk(lp)):
                        construct = "morsel[key] = value for key, value in **%s" % kw
            ck.ob("C25.attr-validated", fi, s.stmt, not s.value_tainted,
                  "a morsel attribute value is a constant, a formatted timestamp, str(<int parameter>) or a parameter covered by a check detecting ';'", construct=construct)
    ck.floor("C25.attr-validated", n_attr, 5, "morsel attribute stores")
    if not loops:
        ck.note("no loop in set_cookie was proven to validate its whole (label, parameter) list for ';'")
    for l in loops:
        for g in l.guards:
            ok = g.clean_for("true", FORBIDDEN) or g.clean_for("false", FORBIDDEN)
            ck.ob("C25.attr-validated", fi, g.node, ok, "the attribute regex, as used (%s), decides the presence of ';' anywhere in the value" % g.mode)
        ck.note("set_cookie validation loop covers parameters %s%s" % (", ".join(l.params), " and **%s" % l.covers_kwargs if l.covers_kwargs else ""))
    return fi, loops


def check_separator_agreement(ck, loops):
    pc = F(ck, HU, "parse_cookie")
    ps = pc.params()
    if not ps:
        raise AnalysisError("parse_cookie has no parameter")
    seps = []
    for c in q.calls(pc.node):
        if isinstance(c.func, ast.Attribute) and c.func.attr in ("split", "partition") and q.dotted(c.func.value) == ps[0] and c.args and isinstance(c.args[0], ast.Constant) and isinstance(c.args[0].value, str):
            seps.append((c, c.args[0].value))
    ck.floor("C25.separator-agreement", len(seps), 1, "top-level separators in parse_cookie")
    listed = {p for l in loops for p in l.params}
    for c, sep in seps:
        fi, sinks, sloops = analyse(ck.repo, [ord(ch) for ch in sep], SANITIZERS)
        textp = set(text_params(fi))
        covered = [s for s in sinks if s.kind == "attr" and isinstance(s.value, ast.Name) and (s.value.id in listed or (not listed and s.value.id in textp))]
        ok = bool(covered) and not any(s.value_tainted for s in covered)
        ck.ob("C25.separator-agreement", pc, c, ok, "the separator %r the request-side parser splits cookies on is detected by set_cookie's attribute check (for the %d listed text attributes)" % (sep, len(covered)))


def check_last_wins(ck, fi):
    cfg = fi.cfg
    stores = cfg.stmt_nodes(lambda n: n.kind == "stmt" and isinstance(n.ast, ast.Assign) and any(isinstance(t, ast.Subscript) and q.dotted(t.value) == JAR for t in n.ast.targets))
    ck.floor("C25.last-wins", len(stores), 1, "stores into self._new_cookie")
    for s in stores:
        key = [t.slice for t in s.ast.targets if isinstance(t, ast.Subscript) and q.dotted(t.value) == JAR][0]
        ktxt = q.unparse(key)
        member = "%s in %s" % (ktxt, JAR)
        dels = {n.id for n in cfg.stmt_nodes(lambda n: n.kind == "stmt" and isinstance(n.ast, ast.Delete) and any(isinstance(t, ast.Subscript) and q.dotted(t.value) == JAR and q.unparse(t.slice) == ktxt for t in n.ast.targets))}
        pops = {n.id for n in cfg.stmt_nodes(lambda n: n.kind == "stmt" and any(q.is_call(c, JAR + ".pop") and c.args and q.unparse(c.args[0]) == ktxt for c in q.calls(n.ast)))}
        fresh = {n.id for n in cfg.stmt_nodes(lambda n: n.kind == "stmt" and isinstance(n.ast, (ast.Assign, ast.AnnAssign)) and JAR in q.assigned_paths(n.ast))}

        def transfer(n, val, dels=dels, pops=pops, fresh=fresh):
            if n.id in dels or n.id in pops or n.id in fresh:
                return True
            return val

        seen = explore(cfg, False, transfer, lambda t, member=member: t == member, follow_exc=False)
        sts = seen.get(s.id, set())
        if not sts:
            raise AnalysisError("store into the cookie jar is unreachable")
        for facts, removed in sorted(sts, key=repr):
            ok = removed or (member, False) in facts
            ck.ob("C25.last-wins", fi, s.ast, ok, "when the name is already in the jar its morsel (with its old attributes) is removed before the new value is stored",
                  construct="re-set without delete: " + q.normalize_construct(s.ast, q.local_names(fi.node)))


def _jar_aliases(fi):
    out = set()
    for n in q.walk_body(fi.node):
        if isinstance(n, ast.Assign) and isinstance(n.value, ast.Subscript) and q.dotted(n.value.value) == JAR:
            out |= {t.id for t in n.targets if isinstance(t, ast.Name)}
    return out


def jar_mutation(fi):
    """Node predicate: the statement changes what the jar holds for some name
    (store / delete / pop / clear / update on the jar or on a morsel taken from
    it, or rebinding the jar when one may already exist)."""
    aliases = _jar_aliases(fi)
    conts = {JAR} | aliases

    def pred(n):
        if n.kind != "stmt":
            return False
        st = n.ast
        if isinstance(st, (ast.Assign, ast.AugAssign, ast.AnnAssign)):
            tgts = st.targets if isinstance(st, ast.Assign) else [st.target]
            for t in tgts:
                if isinstance(t, ast.Subscript) and q.dotted(t.value) in conts:
                    return True
        if isinstance(st, ast.Delete):
            for t in st.targets:
                if (isinstance(t, ast.Subscript) and q.dotted(t.value) in conts) or q.dotted(t) == JAR:
                    return True
        for c in q.calls(st):
            if isinstance(c.func, ast.Attribute) and q.dotted(c.func.value) in conts and c.func.attr in ("pop", "popitem", "clear", "update", "setdefault", "load", "set", "__delitem__", "__setitem__"):
                return True
        return False

    return pred


def check_refuse_before_mutate(ck, fi):
    """A set_cookie call that is going to be rejected must not have touched the
    jar: otherwise a failing call damages the cookie an earlier, successful call
    queued (the response then no longer carries what that call was promised)."""
    cfg = fi.cfg
    mut = jar_mutation(fi)
    n_mut = len(cfg.stmt_nodes(mut))
    ck.floor("C25.refuse-before-mutate", n_mut, 3, "jar/morsel mutations in set_cookie")
    def rejecting_helper(c):
        """a call of a RequestHandler method / web.py function whose own body raises"""
        h = None
        if isinstance(c.func, ast.Attribute) and q.dotted(c.func.value) == "self" and ck.repo.has_func(WEB, RH + "." + c.func.attr):
            h = ck.repo.func(WEB, RH + "." + c.func.attr)
        elif isinstance(c.func, ast.Name) and ck.repo.has_func(WEB, c.func.id):
            h = ck.repo.func(WEB, c.func.id)
        return h is not None and h is not fi and any(isinstance(x, ast.Raise) for x in q.walk_body(h.node))

    is_rejection = lambda n: n.kind in ("stmt", "test") and n.ast is not None and (isinstance(n.ast, ast.Raise) or any(rejecting_helper(c) for c in q.calls(n.ast)))
    raises = cfg.stmt_nodes(is_rejection)
    ck.floor("C25.refuse-before-mutate", len(raises), 1, "rejections (raise / validating helper) in set_cookie")
    bad = {r.id: m for r, m in raise_after_mutation(cfg, mut, is_rejection)}
    for r in raises:
        m = bad.get(r.id)
        ck.ob("C25.refuse-before-mutate", fi, r.ast, m is None,
              "every rejection of set_cookie's arguments happens before the jar is touched%s" % ("" if m is None else " (reachable after '%s')" % q.unparse(m.ast).split("\n")[0][:60]),
              construct="raise reachable after the jar was modified: " + q.normalize_construct(r.ast.exc if isinstance(r.ast, ast.Raise) and r.ast.exc is not None else r.ast, q.local_names(fi.node))[:120])
    # the same for the argument checks of the sibling APIs that delegate to set_cookie
    is_raise = lambda n: n.kind == "stmt" and isinstance(n.ast, ast.Raise)
    delegating = lambda n: n.kind == "stmt" and any(q.is_call(c, "self.set_cookie", "self.clear_cookie") for c in q.calls(n.ast))
    for nm in ("clear_cookie", "set_signed_cookie", "clear_all_cookies"):
        sib = F(ck, WEB, RH + "." + nm)
        late = {r.id for r, _m in raise_after_mutation(sib.cfg, delegating, is_raise)}
        for r in sib.cfg.stmt_nodes(is_raise):
            ck.ob("C25.refuse-before-mutate", sib, r.ast, r.id not in late, "%s rejects its arguments before it starts setting cookies" % nm)
    # the jar itself is created once: rebinding it would drop every cookie queued so far
    from ..cfg import must_facts, holds
    facts = must_facts(cfg)
    for n in cfg.stmt_nodes(lambda n: n.kind == "stmt" and isinstance(n.ast, (ast.Assign, ast.AnnAssign)) and JAR in q.assigned_paths(n.ast)):
        ck.ob("C25.refuse-before-mutate", fi, n.ast, holds(facts[n.id], "hasattr(self, '_new_cookie')", False), "the cookie jar is (re)created only when none exists yet", construct="jar rebound although it may exist")


def check_attr_table(ck, fi):
    """Exhaustive concrete evaluation of set_cookie over present/absent values of
    every documented attribute parameter: the attributes stored in the morsel are
    exactly the requested ones, each with the requested value (documented
    precedence: an explicit ``expires`` wins over ``expires_days``)."""
    import itertools
    from ..x_peval import UNK, peval, try_fold, make_resolver, pure_self_methods

    a = fi.node.args
    names = [x.arg for x in a.posonlyargs + a.args + a.kwonlyargs if x.arg != "self"]
    need = ["name", "value", "domain", "expires", "path", "expires_days", "max_age", "httponly", "secure", "samesite"]
    if [n for n in need if n not in names]:
        raise AnalysisError("set_cookie signature changed: missing %s" % [n for n in need if n not in names])
    kw = a.kwarg.arg if a.kwarg else None
    aliases = _jar_aliases(fi)
    params = set(names)

    def origins(e, env):
        """Parameters an unfoldable expression draws on: named directly, or through locals that carry an origin marker."""
        out = set()
        for nm in q.names_in(e):
            v = env.get(nm)
            if isinstance(v, str) and v.startswith("<derived from ") and v.endswith(">"):
                out |= {x for x in v[len("<derived from "):-1].split(",") if x}
            elif nm in params:
                out.add(nm)
        return out

    def hook(n, env):
        if n.kind != "stmt" or not isinstance(n.ast, (ast.Assign, ast.AnnAssign)) or n.ast.value is None:
            return None
        st = n.ast
        tgts = st.targets if isinstance(st, ast.Assign) else [st.target]
        for t in tgts:
            if isinstance(t, ast.Subscript) and q.dotted(t.value) in aliases:
                key = try_fold(t.slice, env)
                if key is UNK or not isinstance(key, str):
                    env["@attr:?"] = "?"
                    continue
                v = st.value
                def sym(e):
                    r = try_fold(e, env)
                    if r is UNK:
                        src = sorted(origins(e, env))
                        r = ("<derived from %s>" % ",".join(src)) if src else UNK
                    return r

                if isinstance(v, ast.Call) and q.call_attr(v) == "format_timestamp" and q.arg(v, 0, "ts") is not None:
                    val = ("timestamp", sym(q.arg(v, 0, "ts")))
                else:
                    val = sym(v)
                env["@attr:" + key.lower()] = "?" if val is UNK or (isinstance(val, tuple) and val[1] is UNK) else val
            elif isinstance(t, ast.Subscript) and q.dotted(t.value) == JAR:
                env["@cookie"] = (try_fold(t.slice, env, "?"), try_fold(st.value, env, "?"))
            elif isinstance(t, ast.Name) and try_fold(st.value, env) is UNK:
                # a value computed from parameters (directly or through explaining locals) that cannot be folded:
                # keep a truthy symbolic value that names the parameters it originates from
                src = origins(st.value, env) - {t.id}
                if src or t.id in params:
                    env[t.id] = "<derived from %s>" % ",".join(sorted(src))
                    return True
        return None

    known = {m: None for m in pure_self_methods(ck.repo, WEB, RH)}
    resolver = make_resolver(ck.repo, WEB, RH)
    from ..x_taint import resolve_pattern

    def rx_of(expr, fi=fi):
        try:
            return resolve_pattern(ck.repo, fi, expr)
        except AnalysisError:
            return None

    exit_id = fi.cfg.exit.id
    from ..x_peval import module_constants, class_constants
    consts = module_constants(fi)
    consts.update(class_constants(ck.repo, WEB, RH))
    n_val = 0
    EXPL = 1700000000
    for domain, expires, days, max_age, httponly, secure, samesite in itertools.product((None, "d.example"), (None, EXPL), (None, 0, 7), (None, 60), (False, True), (False, True), (None, "lax")):
        n_val += 1
        init = dict(consts)
        init.update({"name": "n", "value": "v", "domain": domain, "expires": expires, "path": "/p", "expires_days": days, "max_age": max_age,
                "httponly": httponly, "secure": secure, "samesite": samesite, "@resolve": resolver, "@rx": rx_of})
        if kw:
            init[kw] = ()
        states = peval(fi.cfg, init, hook=hook, known_self_methods=known, track=lambda t: True)
        exits = states.get(exit_id, [])
        if not exits:
            raise AnalysisError("set_cookie has no normal exit for a valid cookie")
        want = {"path": "/p"}
        if domain:
            want["domain"] = domain
        if expires:
            want["expires"] = ("timestamp", expires)
        elif days is not None:
            want["expires"] = ("timestamp", "<derived from expires_days>")
        if max_age:
            want["max-age"] = str(max_age)
        if httponly:
            want["httponly"] = True
        if secure:
            want["secure"] = True
        if samesite:
            want["samesite"] = samesite
        label = "domain=%r expires=%r expires_days=%r max_age=%r httponly=%s secure=%s samesite=%r" % (domain, expires, days, max_age, httponly, secure, samesite)
        seen = set()
        for _f, env in exits:
            got = {k[6:]: v for k, v in env.items() if k.startswith("@attr:")}
            if "?" in got or any(v == "?" for v in got.values()):
                raise AnalysisError("set_cookie: a morsel attribute could not be evaluated under " + label)
            key = repr(sorted(got.items(), key=repr)) + repr(env.get("@cookie"))
            if key in seen:
                continue
            seen.add(key)
            OB(ck, env, "C25.attr-table", fi, fi.node, env.get("@cookie") == ("n", "v"), "the cookie is stored under the given name with the given value (%s)" % label, construct="cookie stored as %r" % (env.get("@cookie"),))
            diff = sorted(k for k in set(got) | set(want) if got.get(k, "<absent>") != want.get(k, "<absent>"))
            OB(ck, env, "C25.attr-table", fi, fi.node, not diff, "the morsel carries exactly the requested attributes with the requested values (%s)%s" % (label, "" if not diff else "; differs in %s: stored %r, requested %r" % (diff, {k: got.get(k, "<absent>") for k in diff}, {k: want.get(k, "<absent>") for k in diff})),
                  construct="attribute mismatch: %s" % ",".join(diff))
    ck.floor("C25.attr-table", n_val, 192, "valuations of set_cookie")


def check_emit(ck):
    fl = F(ck, WEB, RH + ".flush")
    cfg = fl.cfg
    def jar_view(e):
        """``e`` with locals looked through and ``getattr(self, "_new_cookie", <default>)`` read as the attribute"""
        e = expand_locals(fl, e)

        class G(ast.NodeTransformer):
            def visit_Call(self, c):
                c = self.generic_visit(c)
                if q.dotted(c.func) == "getattr" and len(c.args) >= 2 and q.dotted(c.args[0]) == "self" and isinstance(c.args[1], ast.Constant) and c.args[1].value == "_new_cookie":
                    return ast.copy_location(ast.Attribute(value=ast.Name(id="self", ctx=ast.Load()), attr="_new_cookie", ctx=ast.Load()), c)
                return c

        return G().visit(e)

    loops = cfg.stmt_nodes(lambda n: n.kind == "for" and JAR in q.paths_in(jar_view(n.ast.iter)))
    ck.floor("C25.emit", len(loops), 1, "loops over self._new_cookie in flush")
    for l in loops:
        it = jar_view(l.ast.iter)
        ck.ob("C25.emit", fl, l.ast.iter, q.is_call(it, JAR + ".values") and not it.args, "flush iterates over every morsel of the jar (self._new_cookie.values())")
        tgt = l.ast.target.id if isinstance(l.ast.target, ast.Name) else None
        emits = [c for st in l.ast.body for c in q.calls(st) if isinstance(c.func, ast.Attribute) and q.dotted(c.func.value) == "self" and c.func.attr in ("add_header", "set_header")]
        if not emits:
            other = [c for st in l.ast.body for c in q.calls(st) if q.call_attr(c) not in ("OutputString", "output", "values")]
            if other:
                raise AnalysisError("RequestHandler.flush: the cookie loop emits through %s: unknown idiom" % q.unparse(other[0].func))
        ck.ob("C25.emit", fl, l.ast.iter, len(emits) == 1, "exactly one header is emitted per morsel", construct="emits per morsel: %d" % len(emits))
        for c in emits:
            ck.ob("C25.emit", fl, c, c.func.attr == "add_header" and isinstance(q.arg(c, 0, "name"), ast.Constant) and q.arg(c, 0, "name").value == "Set-Cookie",
                  "each morsel becomes its own Set-Cookie line (add_header, not set_header which would keep only the last)")
            v = resolve_local(fl, q.arg(c, 1, "value")) if q.arg(c, 1, "value") is not None else None
            ok = isinstance(v, ast.Call) and isinstance(v.func, ast.Attribute) and v.func.attr == "OutputString" and q.dotted(v.func.value) == tgt and (
                (not v.args and not v.keywords) or (isinstance(q.arg(v, 0, "attrs"), ast.Constant) and q.arg(v, 0, "attrs").value is None and len(v.args) + len(v.keywords) == 1))
            ck.ob("C25.emit", fl, c, ok, "the header value is morsel.OutputString(None): name=value with all (and only) the stored attributes")
    # emitted before the header block is written, whenever a jar exists
    wh = method_calls(fl, "write_headers", "self.request.connection")
    ck.floor("C25.emit", len(wh), 1, "write_headers calls in flush")
    loop_ids = {l.id for l in loops}
    has = "hasattr(self, '_new_cookie')"

    def transfer(n, val):
        return True if n.id in loop_ids else val

    def absent_fact(text, pol):
        """a branch fact saying that no cookie jar exists: hasattr(..) false, or <the jar read with a None default> is None"""
        if text == has:
            return not pol
        try:
            e = ast.parse(text, mode="eval").body
        except SyntaxError:
            return False
        if isinstance(e, ast.Compare) and len(e.ops) == 1 and isinstance(e.ops[0], ast.Is) and isinstance(e.comparators[0], ast.Constant) and e.comparators[0].value is None:
            return pol and q.dotted(jar_view(e.left)) == JAR
        return False

    def tracked(text):
        return text == has or absent_fact(text, True)

    seen = explore(cfg, False, transfer, tracked, follow_exc=False)
    for node, c in wh:
        for facts, emitted in sorted(seen.get(node.id, ()), key=repr):
            ok = emitted or any(absent_fact(t_, p_) for t_, p_ in facts)
            ck.ob("C25.emit", fl, c, ok, "on every path to write_headers the cookies were emitted, unless no cookie was ever set", construct="header block written before the cookies are emitted")


def _only_reached_from_set_cookie(ck, fi, depth=3) -> bool:
    """fi is set_cookie, or a private method all of whose uses in web.py are calls from such functions."""
    from ..rules import callers_of, references_to

    if fi.name == "set_cookie" and fi.qualname == RH + ".set_cookie":
        return True
    if depth <= 0 or not fi.name.startswith("_") or fi.name.startswith("__"):
        return False
    calls = callers_of(ck.repo, fi.name, [WEB])
    refs = references_to(ck.repo, fi.name, [WEB])
    if not calls or len(refs) != len(calls):
        return False  # unused, or handed around as a callback
    return all(cfi.qualname != fi.qualname and _only_reached_from_set_cookie(ck, cfi, depth - 1) for cfi, _c in calls)


def check_funnel(ck):
    n = 0
    for fi0 in ck.repo.methods(WEB, RH):
        fi = subst_object_aliases(fi0)
        writes = [st for st in q.walk_body(fi.node) if isinstance(st, (ast.Assign, ast.AnnAssign, ast.AugAssign, ast.Delete)) and any(p.rstrip("[]") == JAR for p in q.assigned_paths(st))]
        for st in writes:
            n += 1
            ck.ob("C25.funnel", fi, st, _only_reached_from_set_cookie(ck, fi), "the cookie jar is written only by set_cookie or a private helper that nothing but set_cookie calls (so every cookie passes its validation)")
    ck.floor("C25.funnel", n, 1, "writes to self._new_cookie")
    for nm in ("clear_cookie", "set_signed_cookie"):
        fi = F(ck, WEB, RH + "." + nm)
        ps = [p for p in fi.params() if p != "self"]
        kw = fi.node.args.kwarg.arg if fi.node.args.kwarg else None
        cs = call_sites(fi, "self.set_cookie")
        ck.ob("C25.funnel", fi, fi.node, len(cs) == 1, "%s delegates to set_cookie exactly once" % nm, construct="%s: %d set_cookie calls" % (nm, len(cs)))
        for _n, c in cs:
            name_ok = q.arg(c, 0, "name") is not None and q.dotted(q.arg(c, 0, "name")) == ps[0]
            kw_ok = kw is None or any(k.arg is None and q.dotted(k.value) == kw for k in c.keywords)
            ck.ob("C25.funnel", fi, c, name_ok and kw_ok, "%s passes the cookie name and all keyword attributes on to set_cookie" % nm)
            if nm == "clear_cookie":
                val = q.arg(c, 1, "value")
                ck.ob("C25.funnel", fi, c, isinstance(val, ast.Constant) and val.value == "", "clear_cookie stores an empty value")
                exp = q.kwarg(c, "expires")
                e = exp
                if isinstance(e, ast.Name):
                    defs = [st for st in q.walk_body(fi.node) if isinstance(st, ast.Assign) and e.id in q.assigned_paths(st)]
                    e = defs[0].value if len(defs) == 1 else None
                past = False
                if isinstance(e, ast.BinOp) and isinstance(e.op, ast.Sub) and q.is_call(e.left, "datetime.datetime.now", "datetime.datetime.utcnow") and q.is_call(e.right, "datetime.timedelta"):
                    try:
                        amounts = [q.fold(k.value, {}) for k in e.right.keywords] + [q.fold(a, {}) for a in e.right.args]
                        past = bool(amounts) and all(isinstance(a, (int, float)) and a > 0 for a in amounts)
                    except q.NotFoldable:
                        past = False
                ck.ob("C25.funnel", fi, c, past, "clear_cookie expires the cookie in the past (now minus a positive timedelta)", construct="clear_cookie expiry not in the past")


def run(ck):
    ck.rule("C25.attr-validated", "set_cookie: the cookie name and every text value stored into the morsel are covered by a check that detects ';' (or are constants / formatted timestamps / str of an int parameter)")
    ck.rule("C25.separator-agreement", "the separator parse_cookie splits on is detected by set_cookie's attribute check")
    ck.rule("C25.last-wins", "set_cookie removes an existing morsel of the same name before storing the new value")
    ck.rule("C25.refuse-before-mutate", "set_cookie (and the APIs delegating to it) raise for rejected arguments only before the cookie jar or a morsel was modified, so a rejected call cannot damage an earlier cookie")
    ck.rule("C25.attr-table", "set_cookie stores exactly the requested attributes with the requested values for every present/absent combination of its attribute parameters (explicit expires wins over expires_days)")
    ck.rule("C25.emit", "flush emits every morsel exactly once as its own Set-Cookie line (add_header + OutputString(None)) before write_headers")
    ck.rule("C25.funnel", "only set_cookie writes the jar; clear_cookie/set_signed_cookie delegate to it with the name and all keyword attributes; clear_cookie uses an empty value and a past expiry")
    fi, loops = check_set_cookie(ck)
    check_separator_agreement(ck, loops)
    check_last_wins(ck, fi)
    check_refuse_before_mutate(ck, fi)
    check_attr_table(ck, fi)
    check_emit(ck)
    check_funnel(ck)



def _in(rel, qn, edit):
    return lambda repo: mutate(repo, rel, qn, edit)


def _u(n):
    return ast.unparse(n)


def _is_validation_loop(st):
    return isinstance(st, ast.For) and isinstance(st.iter, ast.List) and "samesite" in _u(st.iter)


def _drop_pair(label):
    def edit(root):
        for n in ast.walk(root):
            if _is_validation_loop(n):
                before = len(n.iter.elts)
                n.iter.elts = [e for e in n.iter.elts if not (isinstance(e, ast.Tuple) and isinstance(e.elts[0], ast.Constant) and e.elts[0].value == label)]
                return len(n.iter.elts) < before
        return False

    return edit


def _wrong_pair(root):
    for n in ast.walk(root):
        if _is_validation_loop(n):
            for e in n.iter.elts:
                if isinstance(e, ast.Tuple) and isinstance(e.elts[0], ast.Constant) and e.elts[0].value == "samesite":
                    e.elts[1] = ast.Name(id="path", ctx=ast.Load())
                    return True
    return False


def _validation_last(root):
    body = root.body
    for i, st in enumerate(body):
        if _is_validation_loop(st):
            body.append(body.pop(i))
            return True
    return False


def _regex(old_part, new_part):
    return replace_expr(lambda n: isinstance(n, ast.Constant) and isinstance(n.value, str) and old_part in n.value and "\\x00-\\x20" in n.value and "\\x7f" in n.value,
                        lambda n: ast.Constant(value=n.value.replace(old_part, new_part)))


def _search_to_match(root):
    for n in ast.walk(root):
        if _is_validation_loop(n):
            for c in ast.walk(n):
                if isinstance(c, ast.Call) and q.dotted(c.func) == "re.search":
                    c.func.attr = "match"
                    return True
    return False


def _emit_only_when_finishing(root):
    for n in ast.walk(root):
        if isinstance(n, ast.If) and "hasattr" in _u(n.test) and "_new_cookie" in _u(n.test):
            n.test = ast.BoolOp(op=ast.And(), values=[n.test, ast.Name(id="include_footers", ctx=ast.Load())])
            return True
    return False


MUTANTS = [
    ("'path' removed from the validated attribute list", _in(WEB, RH + ".set_cookie", _drop_pair("path")), "C25.attr-validated"),
    ("deprecated **kwargs attributes no longer validated (F18 re-introduced)", _in(WEB, RH + ".set_cookie", lambda root: _drop_star(root)), "C25.attr-validated"),
    ("'samesite' label paired with the wrong parameter", _in(WEB, RH + ".set_cookie", _wrong_pair), "C25.attr-validated"),
    ("attribute regex no longer contains ';'", _in(WEB, RH + ".set_cookie", _regex("\\x3b", "")), ("C25.attr-validated", "C25.separator-agreement")),
    ("attribute check uses re.match (first character only)", _in(WEB, RH + ".set_cookie", _search_to_match), "C25.attr-validated"),
    ("validation loop moved behind the morsel stores", _in(WEB, RH + ".set_cookie", _validation_last), "C25.attr-validated"),
    ("jar creation and removal of the old cookie hoisted above the validation (seeded C25-adv1)", _in(WEB, RH + ".set_cookie", lambda root: _hoist_jar_ops(root)), "C25.refuse-before-mutate"),
    ("cookie stored before the attribute validation runs", _in(WEB, RH + ".set_cookie", lambda root: _store_before_validation(root)), ("C25.refuse-before-mutate", "C25.attr-validated")),
    ("clear_cookie checks its excluded arguments after clearing", _in(WEB, RH + ".clear_cookie", lambda root: _check_last(root)), "C25.refuse-before-mutate"),
    ("a new jar is created on every set_cookie", _in(WEB, RH + ".set_cookie", replace_expr(lambda n: isinstance(n, ast.UnaryOp) and "hasattr" in _u(n) and "_new_cookie" in _u(n), lambda n: ast.Constant(value=True))), "C25.refuse-before-mutate"),
    ("expires_days tested by truthiness (0 days no longer expires the cookie)", _in(WEB, RH + ".set_cookie", replace_expr(lambda n: isinstance(n, ast.Compare) and _u(n) == "expires_days is not None", lambda n: ast.Name(id="expires_days", ctx=ast.Load()))), "C25.attr-table"),
    ("expires_days overrides an explicit expires", _in(WEB, RH + ".set_cookie", replace_expr(lambda n: isinstance(n, ast.BoolOp) and "expires_days is not None" in _u(n) and "not expires" in _u(n), lambda n: n.values[0])), "C25.attr-table"),
    ("max-age taken from expires_days", _in(WEB, RH + ".set_cookie", replace_expr(lambda n: q.is_call(n, "str") and _u(n) == "str(max_age)", lambda n: parse_expr("str(expires_days)"))), "C25.attr-table"),
    ("samesite stored only for secure cookies", _in(WEB, RH + ".set_cookie", replace_expr(lambda n: isinstance(n, ast.Name) and n.id == "samesite" and isinstance(n.ctx, ast.Load) and False, lambda n: n) if False else (lambda root: _samesite_needs_secure(root))), "C25.attr-table"),
    ("only str attributes validated, bytes attributes decoded and stored (seeded C25-adv3)", _in(WEB, RH + ".set_cookie", lambda root: _bytes_bypass(root)), "C25.attr-validated"),
    ("existing morsel not deleted before re-set", _in(WEB, RH + ".set_cookie", remove_stmts(lambda st: isinstance(st, ast.If) and "in self._new_cookie" in _u(st.test) and not isinstance(st.test, ast.UnaryOp))), "C25.last-wins"),
    ("delete-before-set only for secure cookies", _in(WEB, RH + ".set_cookie", replace_expr(lambda n: isinstance(n, ast.Compare) and _u(n) == "name in self._new_cookie", lambda n: parse_expr("name in self._new_cookie and secure"))), "C25.last-wins"),
    ("Set-Cookie emitted with set_header (only the last cookie survives)", _in(WEB, RH + ".flush", replace_expr(lambda n: isinstance(n, ast.Attribute) and n.attr == "add_header", lambda n: ast.Attribute(value=n.value, attr="set_header", ctx=ast.Load()))), "C25.emit"),
    ("OutputString restricted to some attributes", _in(WEB, RH + ".flush", replace_expr(lambda n: isinstance(n, ast.Call) and q.call_attr(n) == "OutputString", lambda n: ast.Call(func=n.func, args=[parse_expr("['path', 'domain', 'expires']")], keywords=[]))), "C25.emit"),
    ("cookies emitted only on the finishing flush", _in(WEB, RH + ".flush", _emit_only_when_finishing), "C25.emit"),
    ("clear_cookie expiry in the future", _in(WEB, RH + ".clear_cookie", replace_expr(lambda n: isinstance(n, ast.BinOp) and isinstance(n.op, ast.Sub) and "timedelta" in _u(n), lambda n: ast.BinOp(left=n.left, op=ast.Add(), right=n.right))), "C25.funnel"),
    ("set_signed_cookie drops the keyword attributes", _in(WEB, RH + ".set_signed_cookie", lambda root: _drop_kwargs(root)), "C25.funnel"),
    ("clear_all_cookies edits the jar directly", _in(WEB, RH + ".clear_all_cookies", replace_stmt(lambda st: "clear_cookie" in _u(st) and isinstance(st, ast.Expr), lambda st: [parse_stmt("self._new_cookie[name] = ''")])), "C25.funnel"),
]


def _drop_kwargs(root):
    for c in ast.walk(root):
        if isinstance(c, ast.Call) and q.dotted(c.func) == "self.set_cookie":
            before = len(c.keywords)
            c.keywords = [k for k in c.keywords if k.arg is not None]
            return len(c.keywords) < before
    return False


def _drop_star(root):
    for n in ast.walk(root):
        if _is_validation_loop(n):
            before = len(n.iter.elts)
            n.iter.elts = [e for e in n.iter.elts if not isinstance(e, ast.Starred)]
            return len(n.iter.elts) < before
    return False


def _hoist_jar_ops(root):
    body = root.body
    moved = []
    for st in list(body):
        if isinstance(st, ast.If) and "_new_cookie" in _u(st.test) and ("hasattr" in _u(st.test) or " in self._new_cookie" in _u(st.test)):
            body.remove(st)
            moved.append(st)
    if len(moved) < 2:
        return False
    # after the docstring and the two native_str conversions
    idx = 0
    for i, st in enumerate(body):
        if isinstance(st, ast.Assign) and "native_str" in _u(st.value):
            idx = i + 1
    body[idx:idx] = moved
    return True


def _store_before_validation(root):
    body = root.body
    store = None
    for st in body:
        if isinstance(st, ast.Assign) and any(isinstance(t, ast.Subscript) and q.dotted(t.value) == JAR for t in st.targets):
            store = st
    jar = [st for st in body if isinstance(st, ast.If) and "hasattr" in _u(st.test) and "_new_cookie" in _u(st.test)]
    if store is None or not jar:
        return False
    for i, st in enumerate(body):
        if _is_validation_loop(st):
            body.remove(store)
            body.remove(jar[0])
            j = body.index(st)
            body[j:j] = [jar[0], store]
            return True
    return False


def _check_last(root):
    body = root.body
    for i, st in enumerate(body):
        if isinstance(st, ast.For) and any(isinstance(x, ast.Raise) for x in ast.walk(st)):
            body.append(body.pop(i))
            return True
    return False


def _samesite_needs_secure(root):
    for st in ast.walk(root):
        if isinstance(st, ast.If) and isinstance(st.test, ast.Name) and st.test.id == "samesite":
            st.test = parse_expr("samesite and secure")
            return True
    return False


def _bytes_bypass(root):
    ok1 = replace_expr(lambda n: isinstance(n, ast.Compare) and _u(n) == "attr_value is not None", lambda n: parse_expr("isinstance(attr_value, str)"))(root)
    ok2 = replace_stmt(lambda st: isinstance(st, ast.Assign) and _u(st) == "morsel['domain'] = domain", lambda st: [parse_stmt("morsel['domain'] = escape.native_str(domain)")])(root)
    return bool(ok1 and ok2)
