"""C32 -- proxy headers yield a valid client IP and never leak between requests.

Decided (tornado/httpserver.py _HTTPRequestContext / _ProxyAdapter / start_request, netutil.is_valid_ip,
httputil.HTTPServerRequest.__init__):
* remote_ip is overwritten from header text only with the very value that netutil.is_valid_ip accepted;
  protocol only with a value known to be in a literal set within {http, https};
* is_valid_ip: empty/NUL rejected before getaddrinfo, getaddrinfo is numeric-only (AI_NUMERICHOST), every
  error path answers False;
* precedence: the validated candidate is headers.get('X-Real-Ip', <X-Forwarded-For candidate>), the XFF
  candidate is chosen by a right-to-left scan that stops at the first entry not in trusted_downstream,
  defaulting to the current (socket) address;
* no leak: every field _apply_xheaders writes is restored by _unapply_xheaders from a snapshot taken once in
  __init__ after the field's initialisation; _ProxyAdapter applies before forwarding headers_received and
  un-applies on every normal path of both terminal methods, on the same context object; the adapter is what
  start_request returns when xheaders is set; the request object copies ip/protocol at construction.

Not decided: which list entry is 'right' for malformed lists; exception paths of the wrapped delegate.
"""
from __future__ import annotations

import ast

from .. import q
from ..cfg import must_facts, holds, explore
from ..mutate import mutate, remove_stmts, replace_expr, replace_stmt, parse_stmt, parse_expr
from ..model import AnalysisError
from ..rules import callers_of
from ..x_valuewalk import single_assignment, own_nodes, const_collection, branch_flag, alias_expand

TECHNIQUE = "guard-dominance (branch outcome survives uses, dies on rebinding) at every field store + writer/reader agreement tables + post-dominance of cleanup + reaching-definition shape of the candidate"
EXPLANATION = (
    "_apply_xheaders: every store to self.<field> is enumerated; for remote_ip the stored name must be the argument of a netutil.is_valid_ip(...) test "
    "whose true branch dominates the store with no rebinding in between; for protocol a membership test in a literal collection inside {http, https}.  "
    "The candidate's last definition before validation must be headers.get('X-Real-Ip', candidate); the X-Forwarded-For loop must iterate reversed(split(',')) "
    "and break under `not in self.trusted_downstream`.  Snapshot attributes are derived from __init__ (self._orig_X = self.X), written nowhere else, and "
    "paired field-by-field with _unapply_xheaders.  _ProxyAdapter: dominance of apply over the forwarded headers_received, post-dominance of cleanup in "
    "finish/on_connection_close.  is_valid_ip: must-facts at the getaddrinfo call, flag expression contains socket.AI_NUMERICHOST, returns classified."
)
NOT_DECIDED = "choice of the list entry for malformed/all-trusted X-Forwarded-For values; X-Scheme vs X-Forwarded-Proto precedence; what happens when the wrapped delegate raises (connection is closed by http1connection); getaddrinfo itself"

HS = "tornado/httpserver.py"
NU = "tornado/netutil.py"
HU = "tornado/httputil.py"
CTX = "_HTTPRequestContext"


def _self_field_stores(fi):
    out = []
    for n in fi.cfg.stmt_nodes(lambda n: n.kind == "stmt" and isinstance(n.ast, (ast.Assign, ast.AugAssign, ast.AnnAssign))):
        for p in q.assigned_paths(n.ast):
            if p.startswith("self.") and p.count(".") == 1:
                out.append((n, p.split(".", 1)[1]))
    return out


def rule_validated(ck):
    ap = ck.func(HS, CTX + "._apply_xheaders")
    cfg = ap.cfg
    flags = bookkeeping_flags(ck)
    stores = [(n, f) for n, f in _self_field_stores(ap) if f not in flags]
    fields = sorted({f for _, f in stores})
    ck.floor("C32.ip-validated", len([1 for _, f in stores if f == "remote_ip"]), 1, "stores to self.remote_ip")
    ck.floor("C32.proto-validated", len([1 for _, f in stores if f == "protocol"]), 1, "stores to self.protocol")
    tests = [n for n in cfg.stmt_nodes(lambda n: n.kind == "test")]
    for n, f in stores:
        v = n.ast.value
        if f == "remote_ip":
            rid = "C32.ip-validated"
            if not isinstance(v, ast.Name):
                ck.ob(rid, ap, n.ast, False, "remote_ip is overwritten with a plain local that was validated (found expression %s)" % q.unparse(v))
                continue
            ok = False
            for t in tests:
                e = t.ast
                if isinstance(e, ast.Call) and q.call_attr(e) == "is_valid_ip" and len(e.args) == 1 and q.dotted(e.args[0]) == v.id and q.dotted(e.func) in ("netutil.is_valid_ip", "is_valid_ip", "tornado.netutil.is_valid_ip"):
                    bf = branch_flag(cfg, q.unparse(e), True, [v.id])
                    ok = ok or bf.get(n.id, False)
            ck.ob(rid, ap, n.ast, ok, "self.remote_ip = %s only where netutil.is_valid_ip(%s) was true and %s unchanged since" % (v.id, v.id, v.id))
        elif f == "protocol":
            rid = "C32.proto-validated"
            if not isinstance(v, ast.Name):
                ck.ob(rid, ap, n.ast, False, "protocol is overwritten with a plain local that was checked (found expression %s)" % q.unparse(v))
                continue
            ok = False
            seen_sets = []
            for t in tests:
                e = t.ast
                if isinstance(e, ast.Compare) and len(e.ops) == 1 and q.dotted(e.left) == v.id:
                    coll = None
                    if isinstance(e.ops[0], (ast.In, ast.NotIn)):
                        coll = const_collection(e.comparators[0])
                    elif isinstance(e.ops[0], (ast.Eq, ast.NotEq)) and isinstance(e.comparators[0], ast.Constant):
                        coll = {e.comparators[0].value}
                    if coll is None:
                        continue
                    bf = branch_flag(cfg, q.unparse(e), isinstance(e.ops[0], (ast.In, ast.Eq)), [v.id])
                    if bf.get(n.id, False):
                        seen_sets.append(sorted(coll))
                        ok = ok or coll <= {"http", "https"}
            ck.ob(rid, ap, n.ast, ok, "self.protocol = %s only where %s is known to be in a literal set within {http, https} (guards seen: %s)" % (v.id, v.id, seen_sets))
        else:
            ck.ob("C32.restore", ap, n.ast, f in _restored_fields(ck), "field %s written by _apply_xheaders is restored by _unapply_xheaders" % f)
    return fields


def bookkeeping_flags(ck):
    """Attributes of the context class whose every store, anywhere in the class, is a boolean constant: they
    carry no request data (e.g. an 'applied' marker) and are exempt from snapshot/restore pairing."""
    vals = {}
    for f in ck.repo.methods(HS, CTX):
        for n, fld in _self_field_stores(f):
            v = getattr(n.ast, "value", None)
            vals.setdefault(fld, []).append(isinstance(n.ast, (ast.Assign, ast.AnnAssign)) and isinstance(v, ast.Constant) and isinstance(v.value, bool))
    return {fld for fld, bs in vals.items() if bs and all(bs)}


def _restored_fields(ck):
    un = ck.func(HS, CTX + "._unapply_xheaders")
    return {f for _, f in _self_field_stores(un)}


def rule_restore(ck, fields):
    rid = "C32.restore"
    init = ck.func(HS, CTX + ".__init__")
    un = ck.func(HS, CTX + "._unapply_xheaders")
    # snapshots: self.S = self.X in __init__
    snaps = {}
    for n, f in _self_field_stores(init):
        v = n.ast.value
        d = q.dotted(v)
        if d and d.startswith("self.") and d.split(".", 1)[1] in fields:
            snaps[d.split(".", 1)[1]] = (f, n)
    for x in fields:
        ck.ob(rid, init, init.node, x in snaps, "__init__ snapshots the connection-level value of %s" % x, construct="snapshot of %s" % x)
    icfg = init.cfg
    for x, (s, sn) in sorted(snaps.items()):
        later = [n for n, f in _self_field_stores(init) if f == x and _reaches(icfg, sn, n)]
        ck.ob(rid, init, sn.ast, not later, "the snapshot self.%s is taken after the last initialisation of self.%s" % (s, x))
        before = [n for n, f in _self_field_stores(init) if f == x]
        ck.ob(rid, init, sn.ast, bool(before) and _all_paths_assign(icfg, [b for b in before if b.id != sn.id], sn), "self.%s is initialised on every path before the snapshot" % x)
        # written only in __init__
        writers = []
        for f in ck.repo.all_funcs():
            if f.file != HS:
                continue
            for st in q.walk_body(f.node):
                if isinstance(st, (ast.Assign, ast.AugAssign, ast.AnnAssign, ast.Delete)) and any(p.endswith("." + s) for p in q.assigned_paths(st)) and f is not init:
                    writers.append(f.qualname)
        ck.ob(rid, init, sn.ast, not writers, "the snapshot self.%s is written nowhere else (others: %s)" % (s, sorted(set(writers))), construct="writers of %s: %s" % (s, sorted(set(writers))))
    # unapply restores field <- its own snapshot, on every normal path
    ucfg = un.cfg
    restored = {}
    for n, f in _self_field_stores(un):
        d = q.dotted(n.ast.value)
        restored[f] = (d, n)
    for x in fields:
        if x not in restored:
            ck.ob(rid, un, un.node, False, "_unapply_xheaders restores %s" % x, construct="restore of %s missing" % x)
            continue
        d, n = restored[x]
        want = "self." + snaps[x][0] if x in snaps else None
        ck.ob(rid, un, n.ast, want is not None and d == want, "self.%s is restored from its own snapshot (%s)" % (x, want))
        if ucfg.postdominates(n, ucfg.entry):
            ck.ob(rid, un, n.ast, True, "the restore of %s happens on every path of _unapply_xheaders" % x)
        else:
            _conditional_restore(ck, un, n, x, snaps)


def _conditional_restore(ck, un, n, x, snaps):
    """The restore of field x is skipped on some path.  Accepted: skipped only when x still equals its snapshot,
    or gated by a boolean marker that _apply_xheaders sets on every path on which it writes x."""
    rid = "C32.restore"
    ucfg = un.cfg
    ap = ck.func(HS, CTX + "._apply_xheaders")
    flags = bookkeeping_flags(ck)
    guards = []
    for t in ucfg.stmt_nodes(lambda t: t.kind == "test"):
        for pol in (True, False):
            if branch_flag(ucfg, q.unparse(t.ast), pol, []).get(n.id, False):
                guards.append((t.ast, pol))
    if not guards:
        raise AnalysisError("_unapply_xheaders: restore of %s is conditional in a way that is not a dominating guard" % x)
    for e, pol in guards:
        d = q.dotted(e)
        if d and d.startswith("self.") and d.split(".", 1)[1] in flags and pol:
            flag = d.split(".", 1)[1]

            def transfer(node, val, flag=flag):
                wrote, marked = val
                if node.kind == "stmt" and isinstance(node.ast, (ast.Assign, ast.AugAssign, ast.AnnAssign)):
                    ap_ = q.assigned_paths(node.ast)
                    if "self." + x in ap_:
                        wrote = True
                    if "self." + flag in ap_:
                        marked = isinstance(node.ast.value, ast.Constant) and node.ast.value.value is True
                return (wrote, marked)

            seen = explore(ap.cfg, (False, False), transfer, lambda t: False, follow_exc=False)
            states = seen.get(ap.cfg.exit.id, set())
            bad = [v for _f, v in states if v[0] and not v[1]]
            ck.ob(rid, ap, ap.node, bool(states) and not bad, "restore of %s is gated by self.%s: _apply_xheaders must set self.%s = True on every path on which it writes self.%s" % (x, flag, flag, x),
                  construct="write of %s without marking %s" % (x, flag))
            continue
        # `self.x != self._orig_x` (restore only when changed)
        if isinstance(e, ast.Compare) and len(e.ops) == 1 and isinstance(e.ops[0], (ast.Eq, ast.NotEq, ast.Is, ast.IsNot)):
            sides = {q.dotted(e.left), q.dotted(e.comparators[0])}
            changed = pol == isinstance(e.ops[0], (ast.NotEq, ast.IsNot))
            pairs = {("self." + fld, "self." + snaps[fld][0]) for fld in snaps}
            hit = [fld for fld in snaps if sides == {"self." + fld, "self." + snaps[fld][0]}]
            if hit and changed:
                ck.ob(rid, un, n.ast, hit[0] == x, "restore of %s may be skipped only when %s itself is unchanged (guard compares %s with its snapshot)" % (x, x, hit[0]), construct="restore of %s guarded by change of %s" % (x, hit[0]))
                continue
        raise AnalysisError("_unapply_xheaders: guard %s of the restore of %s is not a recognised idiom" % (q.unparse(e), x))


def _reaches(cfg, a, b):
    seen = set()
    st = [s for s, k in cfg.succ[a.id] if k != "exc"]
    while st:
        x = st.pop()
        if x in seen:
            continue
        seen.add(x)
        st.extend(s for s, k in cfg.succ[x] if k != "exc")
    return b.id in seen


def _all_paths_assign(cfg, assigns, target):
    """every path from entry to target passes one of the assign nodes"""
    ids = {a.id for a in assigns}
    seen = set()
    st = [cfg.entry.id]
    while st:
        x = st.pop()
        if x in seen or x in ids:
            continue
        seen.add(x)
        if x == target.id:
            return False
        st.extend(s for s, k in cfg.succ[x] if k != "exc")
    return True


def rule_adapter(ck):
    rid = "C32.adapter"
    hr = ck.func(HS, "_ProxyAdapter.headers_received")
    cfg = hr.cfg
    hp = hr.params()
    applies = [(n, c) for n, c in cfg.find(lambda x: isinstance(x, ast.Call) and q.call_attr(x) == "_apply_xheaders")]
    fwd = [(n, c) for n, c in cfg.find(lambda x: isinstance(x, ast.Call) and isinstance(x.func, ast.Attribute) and x.func.attr == "headers_received" and (q.dotted(x.func.value) or "").startswith("self."))]
    ck.floor(rid, len(applies), 1, "_apply_xheaders call")
    ck.floor(rid, len(fwd), 1, "forwarded headers_received")
    hdr = hp[2] if len(hp) > 2 else None
    ctx_expr = None
    for n, c in applies:
        ck.ob(rid, hr, c, len(c.args) == 1 and q.dotted(c.args[0]) == hdr, "the headers of this request are applied")
        ctx_expr = q.dotted(c.func.value)
    for n, c in fwd:
        ck.ob(rid, hr, c, all(cfg.dominates(a, n) for a, _ in applies), "the proxy headers are applied before the request reaches the wrapped delegate (which builds the request object)")
        ck.ob(rid, hr, c, len(c.args) == 2 and q.dotted(c.args[0]) == hp[1] and q.dotted(c.args[1]) == hdr, "the wrapped delegate sees the same start line and headers")
    # cleanup on every normal path of both terminal methods
    cl = ck.func(HS, "_ProxyAdapter._cleanup") if ck.repo.has_func(HS, "_ProxyAdapter._cleanup") else None

    def unapply_calls(fi):
        return [(n, c) for n, c in fi.cfg.find(lambda x: isinstance(x, ast.Call) and q.call_attr(x) == "_unapply_xheaders")]

    helper_ok = False
    if cl is not None:
        uc = unapply_calls(cl)
        helper_ok = len(uc) >= 1 and any(cl.cfg.postdominates(n, cl.cfg.entry) for n, _ in uc)
        ck.ob(rid, cl, uc[0][1] if uc else cl.node, helper_ok, "_cleanup un-applies the proxy headers on every path")
        for n, c in uc:
            ck.ob(rid, cl, c, q.dotted(c.func.value) == ctx_expr, "on the same context object the headers were applied to (%s)" % ctx_expr)
    for term in ("finish", "on_connection_close"):
        f = ck.func(HS, "_ProxyAdapter." + term)
        sites = [n for n, c in unapply_calls(f) if q.dotted(c.func.value) == ctx_expr]
        if cl is not None and helper_ok:
            sites += [n for n, c in f.cfg.find(lambda x: isinstance(x, ast.Call) and q.dotted(x.func) == "self." + cl.name)]
        ok = any(f.cfg.postdominates(n, f.cfg.entry) for n in sites)
        ck.ob(rid, f, f.node, ok, "_ProxyAdapter.%s un-applies the proxy headers on every normal path" % term, construct="%s cleanup" % term)
    # only the adapter drives apply/unapply
    for name, allowed in (("_apply_xheaders", {"_ProxyAdapter.headers_received"}), ("_unapply_xheaders", {"_ProxyAdapter._cleanup", "_ProxyAdapter.finish", "_ProxyAdapter.on_connection_close"})):
        others = sorted({f.qualname for f, c in callers_of(ck.repo, name) if f.qualname not in allowed})
        ck.ob(rid, None, ck.repo.cls(HS, "_ProxyAdapter"), not others, "%s is driven only by the proxy adapter (other callers: %s)" % (name, others), construct="callers of %s: %s" % (name, others), file=HS)
    # start_request installs the adapter when xheaders is set
    sr = ck.func(HS, "HTTPServer.start_request")
    cons = [(n, c) for n, c in sr.cfg.find(lambda x: q.is_call(x, "_ProxyAdapter"))]
    ck.floor(rid, len(cons), 1, "_ProxyAdapter construction")
    on = branch_flag(sr.cfg, "self.xheaders", True, [])
    off = branch_flag(sr.cfg, "self.xheaders", False, [])
    rets = sr.cfg.stmt_nodes(lambda n: n.kind == "stmt" and isinstance(n.ast, ast.Return))
    for n, c in cons:
        ck.ob(rid, sr, c, not off.get(n.id, False), "the adapter is installed on the xheaders-enabled path")
        tgt = q.assigned_paths(n.ast) if isinstance(n.ast, ast.Assign) else set()
        ok = any(q.dotted(r.ast.value) in tgt for r in rets) or any(r.ast.value is c for r in rets)
        ck.ob(rid, sr, c, ok, "and it is the delegate that start_request returns")
        inner = c.args[0] if c.args else None
        ck.ob(rid, sr, c, inner is not None and len(c.args) >= 2 and q.dotted(c.args[1]) == sr.params()[2], "it wraps the application's delegate for this request connection")
    # paths with xheaders true must pass a construction
    tests = [t for t in sr.cfg.stmt_nodes(lambda n: n.kind == "test") if q.unparse(t.ast) == "self.xheaders"]
    ck.ob(rid, sr, sr.node, len(tests) >= 1 and all(any(_reaches(sr.cfg, t, n) for n, _ in cons) for t in tests), "xheaders is consulted when a request starts", construct="xheaders test")


def rule_request_copy(ck):
    rid = "C32.request-copy"
    f = ck.func(HU, "HTTPServerRequest.__init__")
    ctxv = None
    for st in own_nodes(f.node):
        if isinstance(st, ast.Assign) and q.is_call(st.value, "getattr") and len(st.value.args) >= 2 and q.is_const(st.value.args[1], "context") and q.dotted(st.value.args[0]) == "connection":
            ctxv = q.dotted(st.targets[0])
    if ctxv is None:
        raise AnalysisError("HTTPServerRequest.__init__: connection context lookup not found")
    for field in ("remote_ip", "protocol"):
        st = q.stores_to(f.node, "self." + field)
        ok = False
        if len(st) == 1:
            v = st[0].value
            ok = (q.is_call(v, "getattr") and len(v.args) >= 2 and q.dotted(v.args[0]) == ctxv and q.is_const(v.args[1], field)) or q.dotted(v) == "%s.%s" % (ctxv, field)
        ck.ob(rid, f, st[0] if st else f.node, ok, "the request copies %s from the connection context at construction (later context changes do not affect it)" % field, construct="self.%s <- context.%s" % (field, field))


def rule_valid_ip(ck):
    rid = "C32.valid-ip"
    f = ck.func(NU, "is_valid_ip")
    p = f.params()[0]
    cfg = f.cfg
    gai = [(n, c) for n, c in cfg.find(lambda x: q.is_call(x, "socket.getaddrinfo"))]
    ck.floor(rid, len(gai), 1, "getaddrinfo call")
    nonempty = branch_flag(cfg, p, True, [p])
    nonul = branch_flag(cfg, "'\\x00' in %s" % p, False, [p])
    pm = q.parent_map(f.node)
    for n, c in gai:
        ck.ob(rid, f, c, nonempty.get(n.id, False), "the empty string never reaches getaddrinfo (it would resolve to localhost)")
        ck.ob(rid, f, c, nonul.get(n.id, False), "text containing NUL never reaches getaddrinfo (it would be truncated)")
        fl = q.kwarg(c, "flags") or (c.args[5] if len(c.args) > 5 else None)
        ok = fl is not None and any(q.dotted(x) == "socket.AI_NUMERICHOST" for x in ast.walk(fl))
        ck.ob(rid, f, c, ok, "getaddrinfo is asked for numeric addresses only (AI_NUMERICHOST): host names are not 'valid IPs' and nothing is resolved")
        ck.ob(rid, f, c, c.args and q.dotted(c.args[0]) == p, "the candidate itself is examined")
        ck.ob(rid, f, c, q.protected_by(pm, c, "socket.gaierror") is not None and q.protected_by(pm, c, "UnicodeError") is not None, "getaddrinfo's gaierror / UnicodeError are handled")
    res = [q.dotted(st.targets[0]) for st in own_nodes(f.node) if isinstance(st, ast.Assign) and any(st.value is c for _, c in gai)]
    rets = cfg.stmt_nodes(lambda n: n.kind == "stmt" and isinstance(n.ast, ast.Return))
    n_true = 0
    for r in rets:
        v = r.ast.value
        in_handler = any(isinstance(a, ast.ExceptHandler) for a in q.ancestors(pm, r.ast))
        after_call = all(cfg.dominates(n, r) for n, _ in gai) and not in_handler
        is_false = isinstance(v, ast.Constant) and v.value is False
        if after_call:
            ve = alias_expand(f.node, v)
            gtxt = {q.unparse(c_) for _, c_ in gai}

            def is_lookup(e_):
                return q.unparse(e_) in gtxt

            if isinstance(ve, ast.Constant):
                ok = ve.value is True
            elif is_lookup(ve) or (q.is_call(ve, "bool") and len(ve.args) == 1 and is_lookup(ve.args[0])):
                ok = True
            elif isinstance(ve, ast.Compare) and len(ve.ops) == 1 and q.is_call(ve.left, "len") and is_lookup(ve.left.args[0]) and isinstance(ve.comparators[0], ast.Constant) and ve.comparators[0].value == 0:
                ok = isinstance(ve.ops[0], (ast.Gt, ast.NotEq))
            elif isinstance(ve, ast.UnaryOp) and isinstance(ve.op, ast.Not) and (is_lookup(ve.operand) or (q.is_call(ve.operand, "bool") and is_lookup(ve.operand.args[0]))):
                ok = False
            else:
                raise AnalysisError("is_valid_ip: value returned after the lookup is not understood: %s" % q.unparse(v))
            n_true += 1
            ck.ob(rid, f, r.ast, bool(ok), "after a successful numeric lookup the answer is the lookup's result")
        else:
            ck.ob(rid, f, r.ast, is_false, "every other exit (empty/NUL input, lookup error) answers False")
    ck.floor(rid, n_true, 1, "positive exits")



def _either32(a, b):
    return {k: a.get(k, False) or b.get(k, False) for k in set(a) | set(b)}


def _alias_member_flag(ap, cfg, scanv):
    """`scanv not in T` where T is a local alias of self.trusted_downstream"""
    out = {}
    for t in cfg.stmt_nodes(lambda t: t.kind == "test"):
        e = t.ast
        if isinstance(e, ast.Compare) and len(e.ops) == 1 and isinstance(e.ops[0], (ast.In, ast.NotIn)) and q.dotted(e.left) == scanv and isinstance(e.comparators[0], ast.Name) and q.dotted(alias_expand(ap.node, e.comparators[0])) == "self.trusted_downstream":
            out = _either32(out, branch_flag(cfg, q.unparse(e), isinstance(e.ops[0], ast.NotIn), [scanv]))
    return out


def _tail_scan(ck, rid, ap, cfg, last, sub, hdr_get):
    """The X-Forwarded-For candidate is the last element ``L[-1]`` of a list from which trusted hops are removed at the
    right-hand end.  The removal has to repeat until the last entry is not trusted: it must sit in a loop whose
    condition tests ``L[-1] in self.trusted_downstream``; a removal guarded by a plain ``if`` takes off one hop only."""
    L = sub.value.id
    try:
        idx = q.fold(sub.slice, {})
    except q.NotFoldable:
        raise AnalysisError("_apply_xheaders: index of the X-Forwarded-For candidate not understood: %s" % q.unparse(sub))
    if idx != -1:
        if idx == 0:
            ck.ob(rid, ap, last.ast, False, "the X-Forwarded-For candidate is taken from the right-hand end of the list (closest proxy first), found index 0")
            return
        raise AnalysisError("_apply_xheaders: index of the X-Forwarded-For candidate not understood: %s" % q.unparse(sub))
    ldef = single_assignment(ap.node, L)
    if ldef is None:
        raise AnalysisError("_apply_xheaders: the list %s is not bound exactly once" % L)
    it = alias_expand(ap.node, ldef)
    bounded = [c for c in ast.walk(it) if isinstance(c, ast.Call) and isinstance(c.func, ast.Attribute) and c.func.attr in ("split", "rsplit") and c.args and q.is_const(c.args[0], ",") and (len(c.args) > 1 or q.kwarg(c, "maxsplit") is not None)]
    if bounded:
        ck.ob(rid, ap, ldef, False, "the candidates are the complete comma-split of X-Forwarded-For: a bounded split (%s) leaves an unsplit remainder that the scan can reach when trusted addresses repeat" % q.unparse(bounded[0])[:60], construct="bounded split of X-Forwarded-For")
        return
    splits = [c for c in ast.walk(it) if isinstance(c, ast.Call) and isinstance(c.func, ast.Attribute) and c.func.attr in ("split", "rsplit") and len(c.args) == 1 and not c.keywords and q.is_const(c.args[0], ",")]
    if len(splits) != 1:
        raise AnalysisError("_apply_xheaders: construction of the list %s not understood: %s" % (L, q.unparse(ldef)))
    rev = [c for c in ast.walk(it) if q.is_call(c, "reversed") or (isinstance(c, ast.Subscript) and isinstance(c.slice, ast.Slice) and c.slice.step is not None)]
    if rev:
        raise AnalysisError("_apply_xheaders: reversed list combined with a tail index is not understood")
    ck.ob(rid, ap, ldef, any(isinstance(c, ast.Call) and isinstance(c.func, ast.Attribute) and c.func.attr == "strip" for c in ast.walk(it)), "entries are stripped of blanks before they are compared/validated")
    g2 = hdr_get(alias_expand(ap.node, splits[0].func.value))
    ck.ob(rid, ap, ldef, g2 is not None and g2[0] == "x-forwarded-for", "the scanned list is the X-Forwarded-For header")
    if g2 is not None:
        ck.ob(rid, ap, ldef, q.dotted(g2[1]) == "self.remote_ip", "without X-Forwarded-For the candidate is the current (socket) address")
    # removals at the right-hand end
    pm = q.parent_map(ap.node)

    def is_removal(st):
        if isinstance(st, ast.Expr) and isinstance(st.value, ast.Call) and q.dotted(st.value.func) == L + ".pop":
            a = st.value.args
            return not a or (len(a) == 1 and q.unparse(a[0]) == "-1")
        if isinstance(st, ast.Delete) and len(st.targets) == 1 and q.unparse(st.targets[0]) == L + "[-1]":
            return True
        if isinstance(st, ast.Assign) and q.dotted(st.targets[0]) == L and q.unparse(st.value) == L + "[:-1]":
            return True
        return False

    removals = [n for n in cfg.stmt_nodes(lambda n: n.kind == "stmt" and is_removal(n.ast))]
    other_mut = [n for n in cfg.stmt_nodes(lambda n: n.kind == "stmt" and not is_removal(n.ast) and (L in q.assigned_paths(n.ast) or (L + "[]") in q.assigned_paths(n.ast) or any(isinstance(c, ast.Call) and isinstance(c.func, ast.Attribute) and q.dotted(c.func.value) == L and c.func.attr in ("pop", "remove", "insert", "append", "extend", "reverse", "sort", "clear") for c in q.calls(n.ast)))) if n.ast is not None and not (isinstance(n.ast, ast.Assign) and n.ast.value is ldef)]
    if other_mut:
        raise AnalysisError("_apply_xheaders: the list %s is modified in a way that is not understood: %s" % (L, q.unparse(other_mut[0].ast)[:80]))

    def trusted_test(e):
        """polarity-free: does ``e`` test membership of L[-1] in the trusted set?"""
        for x in ast.walk(e):
            if isinstance(x, ast.Compare) and len(x.ops) == 1 and isinstance(x.ops[0], (ast.In, ast.NotIn)) and q.unparse(x.left) == L + "[-1]" and q.dotted(alias_expand(ap.node, x.comparators[0])) == "self.trusted_downstream":
                return x
        return None

    if not removals:
        mentions = any(q.dotted(x) == "self.trusted_downstream" for x in ast.walk(ap.node))
        if mentions:
            raise AnalysisError("_apply_xheaders: how trusted hops are skipped in %s is not recognised" % L)
        ck.ob(rid, ap, last.ast, False, "trusted downstream proxies at the right-hand end of X-Forwarded-For are skipped: %s[-1] is used and trusted_downstream is never consulted" % L, construct="no trusted-hop removal")
        return
    for n in removals:
        ck.ob(rid, ap, n.ast, cfg.dominates(n, last) or _reaches(cfg, n, last), "trusted hops are removed before the candidate is read")
        loops_ = [a for a in q.ancestors(pm, n.ast) if isinstance(a, (ast.While, ast.For))]
        guarded = branch_flag(cfg, "%s[-1] in self.trusted_downstream" % L, True, [L])
        alias_guard = False
        for t in cfg.stmt_nodes(lambda t: t.kind == "test"):
            x = trusted_test(t.ast)
            if x is not None and branch_flag(cfg, q.unparse(t.ast), isinstance(x.ops[0], ast.In) if t.ast is x else True, []).get(n.id, False):
                alias_guard = True
        if not (guarded.get(n.id, False) or alias_guard):
            raise AnalysisError("_apply_xheaders: removal %s is not guarded by a recognisable `%s[-1] in self.trusted_downstream` test" % (q.unparse(n.ast), L))
        in_while = [a for a in loops_ if isinstance(a, ast.While) and trusted_test(a.test) is not None]
        if in_while:
            ck.ob(rid, ap, n.ast, True, "trusted hops are removed repeatedly (while the last entry is a trusted downstream proxy)")
        elif loops_:
            raise AnalysisError("_apply_xheaders: loop around the removal of trusted hops is not understood")
        else:
            ck.ob(rid, ap, n.ast, False, "the scan stops exactly at the first entry that is not a trusted downstream proxy: the removal of a trusted hop is guarded by a plain `if`, so only one hop is skipped (it has to repeat until the last entry is untrusted)", construct="single conditional removal of a trusted hop")


def rule_precedence(ck):
    rid = "C32.precedence"
    ap = ck.func(HS, CTX + "._apply_xheaders")
    cfg = ap.cfg
    hp = ap.params()[1]
    # the validated candidate
    cand = None
    vt = None
    for t in cfg.stmt_nodes(lambda n: n.kind == "test"):
        e = t.ast
        if isinstance(e, ast.Call) and q.call_attr(e) == "is_valid_ip" and len(e.args) == 1 and isinstance(e.args[0], ast.Name):
            cand, vt = e.args[0].id, t
    if cand is None:
        ck.ob(rid, ap, ap.node, False, "the candidate address is validated with is_valid_ip", construct="no validation")
        return
    defs = cfg.stmt_nodes(lambda n: (n.kind == "stmt" and cand in q.assigned_paths(n.ast)) or (n.kind == "for" and cand in {x.id for x in ast.walk(n.ast.target) if isinstance(x, ast.Name)}))
    dom_defs = [d for d in defs if cfg.dominates(d, vt)]
    dom_defs.sort(key=lambda d: len(cfg.dominators()[d.id]))
    if not dom_defs:
        raise AnalysisError("_apply_xheaders: no definition of the candidate dominates its validation")
    last = dom_defs[-1]
    between = [d for d in defs if d is not last and _reaches(cfg, last, d) and _reaches(cfg, d, vt)]

    def hdr_get(v):
        if isinstance(v, ast.Call) and isinstance(v.func, ast.Attribute) and v.func.attr == "get" and q.dotted(v.func.value) == hp and v.args and isinstance(v.args[0], ast.Constant) and isinstance(v.args[0].value, str):
            dflt = v.args[1] if len(v.args) == 2 else q.kwarg(v, "default")
            if dflt is not None:
                return v.args[0].value.lower(), dflt
        return None

    g = hdr_get(last.ast.value) if last.kind == "stmt" and isinstance(last.ast, ast.Assign) else None
    if g is None or g[0] != "x-real-ip":
        # conditional forms: `if K in headers: cand = headers[K]` / try: cand = headers[K] except KeyError
        def real_ip_read(v):
            if isinstance(v, ast.Subscript) and q.dotted(v.value) == hp and isinstance(v.slice, ast.Constant) and isinstance(v.slice.value, str) and v.slice.value.lower() == "x-real-ip":
                return True
            return False

        cond_defs = [d for d in defs if d.kind == "stmt" and isinstance(d.ast, ast.Assign) and real_ip_read(d.ast.value)]
        mentions = [c_ for c_ in ast.walk(ap.node) if isinstance(c_, ast.Constant) and isinstance(c_.value, str) and c_.value.lower() == "x-real-ip"]
        if len(cond_defs) == 1:
            rd_ = cond_defs[0]
            pm_ = q.parent_map(ap.node)
            guarded = any(branch_flag(cfg, q.unparse(t.ast), isinstance(t.ast.ops[0], ast.In), []).get(rd_.id, False) for t in cfg.stmt_nodes(lambda t: t.kind == "test") if isinstance(t.ast, ast.Compare) and len(t.ast.ops) == 1 and isinstance(t.ast.ops[0], (ast.In, ast.NotIn)) and isinstance(t.ast.left, ast.Constant) and str(t.ast.left.value).lower() == "x-real-ip" and q.dotted(t.ast.comparators[0]) == hp) or q.protected_by(pm_, rd_.ast.value, "KeyError") is not None
            if not guarded:
                raise AnalysisError("_apply_xheaders: X-Real-Ip read %s is neither guarded by a membership test nor by a KeyError handler" % q.unparse(rd_.ast))
            later = [d for d in defs if d is not rd_ and _reaches(cfg, rd_, d) and _reaches(cfg, d, vt)]
            ck.ob(rid, ap, rd_.ast, not later and _reaches(cfg, rd_, vt), "the value that gets validated is X-Real-Ip when present (it is assigned last, so it takes precedence)")
            scan_defs = [d for d in defs if d is not rd_]
            if not scan_defs:
                raise AnalysisError("_apply_xheaders: no X-Forwarded-For candidate precedes the X-Real-Ip read")
            last = rd_
            g = ("x-real-ip", ast.Name(id=cand, ctx=ast.Load()))
            defs = scan_defs
        elif [d for d in defs if d.kind == "stmt" and isinstance(d.ast, ast.Assign) and (hdr_get(d.ast.value) or ("", None))[0] == "x-real-ip"]:
            # positively established: X-Real-Ip is read into the candidate, and the candidate is re-bound afterwards
            gd = [d for d in defs if d.kind == "stmt" and isinstance(d.ast, ast.Assign) and (hdr_get(d.ast.value) or ("", None))[0] == "x-real-ip"][0]
            over = [d for d in defs if d is not gd and _reaches(cfg, gd, d) and _reaches(cfg, d, vt)]
            if not over:
                raise AnalysisError("_apply_xheaders: the way X-Real-Ip is consulted is not recognised")
            ck.ob(rid, ap, gd.ast, False, "the value that gets validated is X-Real-Ip when present: it is looked up, but the candidate is re-bound afterwards (%s), so X-Real-Ip does not take precedence" % q.unparse(over[0].ast if over[0].kind == "stmt" else over[0].ast.target)[:60])
            return
        elif mentions:
            raise AnalysisError("_apply_xheaders: the way X-Real-Ip is consulted is not recognised")
        else:
            ck.ob(rid, ap, vt.ast, False, "the value that gets validated is X-Real-Ip when present: the header is never consulted", construct="X-Real-Ip never read")
            return
    else:
        ck.ob(rid, ap, last.ast, not between, "the value that gets validated is X-Real-Ip when present (it is looked up last, so it takes precedence)")
    if isinstance(g[1], ast.Subscript) and isinstance(g[1].value, ast.Name) and isinstance(g[1].slice, (ast.Constant, ast.UnaryOp)):
        return _tail_scan(ck, rid, ap, cfg, last, g[1], hdr_get)
    if not isinstance(g[1], ast.Name):
        if (q.dotted(g[1]) or "").startswith("self.") or isinstance(g[1], ast.Constant):
            ck.ob(rid, ap, last.ast, False, "without X-Real-Ip the X-Forwarded-For candidate is used (default of the X-Real-Ip lookup is %s)" % q.unparse(g[1]))
            return
        raise AnalysisError("_apply_xheaders: default of the X-Real-Ip lookup is not a local name: %s" % q.unparse(g[1]))
    scanv = g[1].id  # the X-Forwarded-For candidate: default of the X-Real-Ip lookup
    for _hop in range(4):
        # `ip = found` copies (left by an inlined helper's return value): follow them to the variable the scan binds
        binds_loop = any(n.kind == "for" and scanv in {x.id for x in ast.walk(n.ast.target) if isinstance(x, ast.Name)} for n in cfg.nodes if n.id in cfg.reachable())
        copies = [d for d in cfg.stmt_nodes(lambda n: n.kind == "stmt" and isinstance(n.ast, ast.Assign) and scanv in q.assigned_paths(n.ast)) if d is not last and isinstance(d.ast.value, ast.Name) and cfg.dominates(d, last)]
        others = [d for d in cfg.stmt_nodes(lambda n: n.kind == "stmt" and scanv in q.assigned_paths(n.ast)) if d is not last and d not in copies]
        if binds_loop or len(copies) != 1 or others:
            break
        scanv = copies[0].ast.value.id
    # XFF scan: the loop that binds that candidate
    loops = [n for n in cfg.nodes if n.kind == "for" and n.id in cfg.reachable() and scanv in {x.id for x in ast.walk(n.ast.target) if isinstance(x, ast.Name)}]
    nexts = [d for d in cfg.stmt_nodes(lambda n: n.kind == "stmt" and isinstance(n.ast, ast.Assign) and scanv in q.assigned_paths(n.ast)) if d is not last and q.is_call(d.ast.value, "next") and d.ast.value.args and isinstance(d.ast.value.args[0], ast.GeneratorExp) and cfg.dominates(d, last)]
    lp = None
    if len(loops) == 1 and not nexts:
        lp = loops[0]
        site = lp.ast.iter
        ck.ob(rid, ap, site, cfg.dominates(lp, last), "the X-Forwarded-For scan comes before the X-Real-Ip lookup")
        it = alias_expand(ap.node, lp.ast.iter)
        body_strip = any(isinstance(c, ast.Call) and isinstance(c.func, ast.Attribute) and c.func.attr == "strip" and scanv in q.names_in(c) for st in lp.ast.body for c in ast.walk(st))
    elif len(nexts) == 1 and not loops:
        # `next((c for c in <list> if c not in trusted), <default>)`: a generator consumed up to its first element is the scan loop
        ge = nexts[0].ast.value.args[0]
        site = nexts[0].ast.value
        gen0 = ge.generators[0]
        if len(ge.generators) != 1 or not isinstance(gen0.target, ast.Name) or q.dotted(ge.elt) != gen0.target.id:
            raise AnalysisError("_apply_xheaders: scan generator not understood: %s" % q.unparse(ge))
        it = alias_expand(ap.node, gen0.iter)
        body_strip = False
        conds = [alias_expand(ap.node, c_) for c_ in gen0.ifs]
        ok_c = len(conds) == 1 and isinstance(conds[0], ast.Compare) and len(conds[0].ops) == 1 and isinstance(conds[0].ops[0], ast.NotIn) and q.dotted(conds[0].left) == gen0.target.id and q.dotted(conds[0].comparators[0]) == "self.trusted_downstream"
        if not ok_c and not (len(conds) == 1 and any(q.dotted(x) == "self.trusted_downstream" for x in ast.walk(conds[0]))):
            raise AnalysisError("_apply_xheaders: scan condition not understood: %s" % [q.unparse(c_) for c_ in conds])
        ck.ob(rid, ap, site, ok_c, "the scan stops exactly at the first entry that is not a trusted downstream proxy")
    else:
        # not a loop variable: is it established that it is something else?
        defs_ = [d for d in cfg.stmt_nodes(lambda n: n.kind == "stmt" and scanv in q.assigned_paths(n.ast)) if d is not last]
        if defs_ and all(isinstance(d.ast, ast.Assign) and (q.dotted(d.ast.value) or "").startswith("self.") for d in defs_):
            ck.ob(rid, ap, last.ast, False, "without X-Real-Ip the X-Forwarded-For candidate is used (default of the X-Real-Ip lookup is %s)" % sorted({q.dotted(d.ast.value) for d in defs_}))
            return
        raise AnalysisError("_apply_xheaders: X-Forwarded-For scan loop for %s not found" % scanv)
    bounded = [c for c in ast.walk(it) if isinstance(c, ast.Call) and isinstance(c.func, ast.Attribute) and c.func.attr in ("split", "rsplit") and c.args and q.is_const(c.args[0], ",") and (len(c.args) > 1 or q.kwarg(c, "maxsplit") is not None)]
    if bounded:
        ck.ob(rid, ap, site, False, "the candidates are the complete comma-split of X-Forwarded-For: a bounded split (%s) leaves an unsplit remainder that the scan can reach when trusted addresses repeat" % q.unparse(bounded[0])[:60], construct="bounded split of X-Forwarded-For")
        return
    splits = [c for c in ast.walk(it) if isinstance(c, ast.Call) and isinstance(c.func, ast.Attribute) and c.func.attr in ("split", "rsplit") and len(c.args) == 1 and not c.keywords and q.is_const(c.args[0], ",")]
    if len(splits) != 1:
        raise AnalysisError("_apply_xheaders: scan iterable not understood: %s" % q.unparse(it))
    rev = [c for c in ast.walk(it) if q.is_call(c, "reversed") and any(x is splits[0] for x in ast.walk(c))]
    neg = [s_ for s_ in ast.walk(it) if isinstance(s_, ast.Subscript) and isinstance(s_.slice, ast.Slice) and s_.slice.step is not None and q.unparse(s_.slice.step) == "-1" and any(x is splits[0] for x in ast.walk(s_))]
    ck.ob(rid, ap, site, (len(rev) + len(neg)) == 1, "the list is scanned from the right (closest proxy first)")
    ck.ob(rid, ap, site, any(isinstance(c, ast.Call) and isinstance(c.func, ast.Attribute) and c.func.attr == "strip" for c in ast.walk(it)) or body_strip, "entries are stripped of blanks before they are compared/validated")
    recv = splits[0].func.value
    g2 = hdr_get(recv)
    anchor_node = lp if lp is not None else nexts[0]
    if g2 is None:
        src = q.dotted(recv)
        sd = [d for d in cfg.stmt_nodes(lambda n: n.kind == "stmt" and src is not None and src in q.assigned_paths(n.ast)) if d is not anchor_node and cfg.dominates(d, anchor_node)]
        if not sd:
            raise AnalysisError("_apply_xheaders: source of the scanned list not understood: %s" % q.unparse(recv))
        g2 = hdr_get(sd[-1].ast.value) if isinstance(sd[-1].ast, ast.Assign) else None
        site = sd[-1].ast
    ck.ob(rid, ap, site, g2 is not None and g2[0] == "x-forwarded-for", "the scanned list is the X-Forwarded-For header")
    if g2 is not None:
        ck.ob(rid, ap, site, q.dotted(g2[1]) == "self.remote_ip", "without X-Forwarded-For the candidate is the current (socket) address")
    if lp is not None:
        brk = [n for n in cfg.stmt_nodes(lambda n: n.kind == "stmt" and isinstance(n.ast, ast.Break)) if any(n.ast is x for x in ast.walk(lp.ast))]
        untrusted = _either32(branch_flag(cfg, "%s in self.trusted_downstream" % scanv, False, [scanv]), _alias_member_flag(ap, cfg, scanv))
        ck.ob(rid, ap, lp.ast.iter, len(brk) >= 1, "the scan stops at an entry", construct="break in scan: %d" % len(brk))
        for b_ in brk:
            ck.ob(rid, ap, b_.ast, untrusted.get(b_.id, False), "the scan stops exactly at the first entry that is not a trusted downstream proxy")
    # trusted_downstream is the configured set
    init = ck.func(HS, CTX + ".__init__")
    st = q.stores_to(init.node, "self.trusted_downstream")
    ck.ob(rid, init, st[0] if st else init.node, len(st) == 1 and "trusted_downstream" in q.names_in(st[0].value), "trusted_downstream comes from the server configuration")
    hs = ck.func(HS, "HTTPServer.handle_stream")
    ip_ = [p_ for p_ in init.params() if p_ != "self"]
    cons = [c for c in q.calls(hs.node) if q.is_call(c, CTX)]
    ck.floor(rid, len(cons), 1, "context construction in handle_stream")
    for c in cons:
        b = {ip_[i]: a for i, a in enumerate(c.args) if i < len(ip_)}
        b.update({k.arg: k.value for k in c.keywords})
        ck.ob(rid, hs, c, q.dotted(b.get("trusted_downstream")) == "self.trusted_downstream", "each connection's context receives the server's trusted_downstream list")
        ck.ob(rid, hs, c, q.dotted(b.get("address")) == hs.params()[2], "and the peer address of its socket")
    ini = ck.func(HS, "HTTPServer.initialize")
    st2 = q.stores_to(ini.node, "self.trusted_downstream")
    ck.ob(rid, ini, st2[0] if st2 else ini.node, len(st2) == 1 and q.dotted(st2[0].value) == "trusted_downstream", "the server keeps the configured trusted_downstream")


def rule_socket_address(ck):
    """Without proxy headers remote_ip is the socket peer's address: for both IP families the context starts
    with address[0]; only other socket kinds get the placeholder."""
    rid = "C32.socket-address"
    init = ck.func(HS, CTX + ".__init__")
    cfg = init.cfg
    addr = [p_ for p_ in init.params() if p_ == "address"]
    if not addr:
        raise AnalysisError("_HTTPRequestContext.__init__ has no address parameter")
    stores = [(n, f) for n, f in _self_field_stores(init) if f == "remote_ip"]
    real = [n for n, _ in stores if isinstance(n.ast.value, ast.Subscript) and q.dotted(n.ast.value.value) == "address" and q.is_const(n.ast.value.slice, 0)]
    fake = [n for n, _ in stores if isinstance(n.ast.value, ast.Constant)]
    ck.ob(rid, init, init.node, len(real) == 1 and len(real) + len(fake) == len(stores), "remote_ip starts as address[0] (or a constant placeholder for non-IP sockets)", construct="remote_ip initialisers real=%d fake=%d other=%d" % (len(real), len(fake), len(stores) - len(real) - len(fake)))
    fams = None
    for t in cfg.stmt_nodes(lambda t: t.kind == "test"):
        e = t.ast
        if isinstance(e, ast.Compare) and len(e.ops) == 1 and isinstance(e.ops[0], ast.In) and q.dotted(e.left) == "self.address_family" and isinstance(e.comparators[0], (ast.Tuple, ast.List, ast.Set)):
            fams = ({q.dotted(x) for x in e.comparators[0].elts}, e)
    if fams is None:
        raise AnalysisError("_HTTPRequestContext.__init__: address-family test not found")
    ck.ob(rid, init, fams[1], {"socket.AF_INET", "socket.AF_INET6"} <= fams[0], "both IPv4 and IPv6 sockets use their peer address")
    bf = branch_flag(cfg, q.unparse(fams[1]), True, [])
    nf = branch_flag(cfg, q.unparse(fams[1]), False, [])
    for n in real:
        ck.ob(rid, init, n.ast, bf.get(n.id, False), "address[0] is used for IP sockets")
    for n in fake:
        ck.ob(rid, init, n.ast, not bf.get(n.id, False), "the placeholder is used only when the socket is not an IP socket (or has no address)")
    fam_st = q.stores_to(init.node, "self.address_family")
    ck.ob(rid, init, fam_st[0] if fam_st else init.node, any(q.dotted(s_.value) == "stream.socket.family" for s_ in fam_st), "the family is the accepted socket's family")


def run(ck):
    from ..x_valuewalk import guard_obligations, canonical

    ck.repo = canonical(ck.repo, ["tornado/httpserver.py", "tornado/netutil.py", "tornado/httputil.py"], keep_names=('_DEFAULT_AUTOESCAPE',))

    from ..x_valuewalk import expand_result_variable

    ck.repo = expand_result_variable(ck.repo, "tornado/netutil.py", ['is_valid_ip'])
    guard_obligations(ck, ['_apply_xheaders', '_unapply_xheaders', '_cleanup', '_parse_body', '_find_groups'])
    ck.rule("C32.ip-validated", "_apply_xheaders stores into self.remote_ip only the local that netutil.is_valid_ip accepted (true branch dominates, no rebinding since)")
    ck.rule("C32.proto-validated", "_apply_xheaders stores into self.protocol only a local known to be in a literal set within {http, https}")
    ck.rule("C32.restore", "every field written by _apply_xheaders is snapshotted once in __init__ (after its initialisation, written nowhere else) and restored from that snapshot on every path of _unapply_xheaders")
    ck.rule("C32.adapter", "_ProxyAdapter applies the headers before forwarding headers_received, un-applies on every normal path of finish and on_connection_close on the same context; nobody else calls apply/unapply; start_request returns the adapter when xheaders is set")
    ck.rule("C32.request-copy", "HTTPServerRequest copies remote_ip and protocol from the connection context at construction")
    ck.rule("C32.valid-ip", "is_valid_ip: empty and NUL-containing text rejected before a numeric-only getaddrinfo; errors and guards answer False")
    ck.rule("C32.socket-address", "the context's initial remote_ip is address[0] for AF_INET and AF_INET6 sockets (the value restored after each request and used when no proxy header applies)")
    ck.rule("C32.precedence", "validated candidate = headers.get('X-Real-Ip', XFF candidate); XFF candidate = right-to-left scan of the stripped list stopping at the first entry not in trusted_downstream, default the socket address")
    # function splitting: single-use private helpers of the governed modules are inlined first (vt.x_wsnorm),
    # so that the rules see `_apply_xheaders` etc. with their helpers' statements in place
    from .. import x_wsnorm

    for rel, keep in ((HS, {"_apply_xheaders", "_unapply_xheaders", "_cleanup"}), (NU, {"is_valid_ip"})):
        try:
            ck.repo = x_wsnorm.normalize(ck.repo, rel, keep=keep)
        except (SyntaxError, RecursionError, ValueError) as e:
            raise AnalysisError("normalisation of %s failed: %s" % (rel, e))
    fields = rule_validated(ck)
    rule_restore(ck, fields)
    rule_adapter(ck)
    rule_request_copy(ck)
    rule_valid_ip(ck)
    rule_precedence(ck)
    rule_socket_address(ck)


def _in(rel, qn, edit):
    return lambda repo: mutate(repo, rel, qn, edit)


def _u(n):
    return ast.unparse(n)


AP = CTX + "._apply_xheaders"


def _assign_before_validation(fn):
    # self.remote_ip = ip is hoisted out of the is_valid_ip() test
    for n in ast.walk(fn):
        body = getattr(n, "body", None)
        if isinstance(body, list):
            for i, st in enumerate(body):
                if isinstance(st, ast.If) and "is_valid_ip" in _u(st.test):
                    body[i:i + 1] = st.body + [ast.If(test=ast.UnaryOp(op=ast.Not(), operand=st.test), body=[parse_stmt("self.remote_ip = self._orig_remote_ip")], orelse=[])]
                    return True
    return False


def _validate_then_strip(fn):
    # the validated text is post-processed before it is stored
    return replace_stmt(lambda st: isinstance(st, ast.Assign) and _u(st) == "self.remote_ip = ip", lambda st: [parse_stmt("ip = ip.split('%')[0]"), st])(fn)


def _swap_lookup_order(fn):
    # X-Real-Ip looked up first, X-Forwarded-For overrides it
    body = fn.body
    i_xff = [i for i, st in enumerate(body) if isinstance(st, ast.Assign) and "X-Forwarded-For" in _u(st)]
    i_real = [i for i, st in enumerate(body) if isinstance(st, ast.Assign) and "X-Real-Ip" in _u(st)]
    if not i_xff or not i_real:
        return False
    body[i_xff[0]] = parse_stmt("ip = headers.get('X-Real-Ip', self.remote_ip)")
    body[i_real[0]] = parse_stmt("pass")
    for j, st in enumerate(body):
        if isinstance(st, ast.For):
            body.insert(j, parse_stmt("ip = headers.get('X-Forwarded-For', ip)"))
            break
    return True


def _seed_flag(tree, both):
    cls = [c for c in tree.body if isinstance(c, ast.ClassDef) and c.name == CTX][0]
    fns = {f.name: f for f in cls.body if isinstance(f, ast.FunctionDef)}
    fns["__init__"].body.append(parse_stmt("self._xheaders_applied = False"))
    n = 0
    for node in ast.walk(fns["_apply_xheaders"]):
        if isinstance(node, ast.If):
            for st in list(node.body):
                if isinstance(st, ast.Assign) and _u(st.targets[0]) in (("self.remote_ip", "self.protocol") if both else ("self.remote_ip",)):
                    node.body.append(parse_stmt("self._xheaders_applied = True"))
                    n += 1
    u = fns["_unapply_xheaders"]
    doc = [st for st in u.body if isinstance(st, ast.Expr) and isinstance(st.value, ast.Constant)]
    rest = [st for st in u.body if st not in doc]
    u.body = doc + [parse_stmt("if not self._xheaders_applied:\n    return"), parse_stmt("self._xheaders_applied = False")] + rest
    return n > 0


def _seed_single_pop(fn):
    body = fn.body
    i_xff = [i for i, st in enumerate(body) if isinstance(st, ast.Assign) and "X-Forwarded-For" in _u(st)]
    i_for = [i for i, st in enumerate(body) if isinstance(st, ast.For)]
    i_real = [i for i, st in enumerate(body) if isinstance(st, ast.Assign) and "X-Real-Ip" in _u(st)]
    if not (i_xff and i_for and i_real):
        return False
    body[i_xff[0]] = parse_stmt("forwarded = [cand.strip() for cand in headers.get('X-Forwarded-For', self.remote_ip).split(',')]")
    body[i_for[0]] = parse_stmt("if len(forwarded) > 1 and forwarded[-1] in self.trusted_downstream:\n    forwarded.pop()")
    body[i_real[0]] = parse_stmt("ip = headers.get('X-Real-Ip', forwarded[-1])")
    return True


MUTANTS = [
    ("remote_ip assigned before it is validated (reset afterwards if invalid)", _in(HS, AP, _assign_before_validation), "C32.ip-validated"),
    ("a different variable is validated", _in(HS, AP, replace_expr(lambda n: isinstance(n, ast.Call) and q.call_attr(n) == "is_valid_ip", lambda n: parse_expr("netutil.is_valid_ip(self.remote_ip)"))), "C32.ip-validated"),
    ("validated text is modified before it is stored", _in(HS, AP, _validate_then_strip), "C32.ip-validated"),
    ("validation only when X-Real-Ip is absent", _in(HS, AP, replace_expr(lambda n: isinstance(n, ast.Call) and q.call_attr(n) == "is_valid_ip", lambda n: parse_expr("'X-Real-Ip' in headers or netutil.is_valid_ip(ip)"))), "C32.ip-validated"),
    ("protocol set widened to ws/wss", _in(HS, AP, replace_expr(lambda n: isinstance(n, ast.Tuple) and _u(n) == "('http', 'https')", lambda n: parse_expr("('http', 'https', 'ws', 'wss')"))), "C32.proto-validated"),
    ("protocol test becomes a prefix test", _in(HS, AP, replace_expr(lambda n: isinstance(n, ast.Compare) and _u(n) == "proto_header in ('http', 'https')", lambda n: parse_expr("proto_header and proto_header.startswith('http')"))), "C32.proto-validated"),
    ("first proto entry is tested, last entry is stored", _in(HS, AP, lambda fn: (replace_expr(lambda n: isinstance(n, ast.Compare) and _u(n) == "proto_header in ('http', 'https')", lambda n: parse_expr("proto_header.split(',')[0].strip() in ('http', 'https')"))(fn) and remove_stmts(lambda st: isinstance(st, ast.If) and _u(st.test) == "proto_header")(fn) and replace_stmt(lambda st: isinstance(st, ast.Assign) and _u(st) == "self.protocol = proto_header", lambda st: [parse_stmt("self.protocol = proto_header.split(',')[-1].strip()")])(fn))), "C32.proto-validated"),
    ("only remote_ip restored", _in(HS, CTX + "._unapply_xheaders", remove_stmts(lambda st: isinstance(st, ast.Assign) and _u(st.targets[0]) == "self.protocol")), "C32.restore"),
    ("restore crosses the snapshots", _in(HS, CTX + "._unapply_xheaders", replace_expr(lambda n: _u(n) == "self._orig_remote_ip", lambda n: parse_expr("self.address[0]"))), "C32.restore"),
    ("snapshot refreshed on every request (leaks the previous request's value)", _in(HS, AP, lambda fn: (fn.body.insert(1, parse_stmt("self._orig_remote_ip = self.remote_ip")) or True)), "C32.restore"),
    ("snapshot taken before the protocol is decided", lambda repo: mutate(repo, HS, CTX + ".__init__", lambda fn: (lambda idx: (fn.body.insert(1, fn.body.pop(idx[0])) or True) if idx else False)([i for i, st in enumerate(fn.body) if isinstance(st, ast.Assign) and _u(st.targets[0]) == "self._orig_protocol"])), "C32.restore"),
    ("restore only when the ip changed", _in(HS, CTX + "._unapply_xheaders", replace_stmt(lambda st: isinstance(st, ast.Assign) and _u(st.targets[0]) == "self.protocol", lambda st: [ast.If(test=parse_expr("self.remote_ip != self._orig_remote_ip"), body=[st], orelse=[])])), "C32.restore"),
    ("seeded C32-adv1: 'applied' marker gates the restore but is set only in the remote_ip branch", _in(HS, None, lambda tree: _seed_flag(tree, both=False)), "C32.restore"),
    ("restore of the protocol skipped when the *ip* is unchanged", _in(HS, CTX + "._unapply_xheaders", replace_stmt(lambda st: isinstance(st, ast.Assign) and _u(st.targets[0]) == "self.protocol", lambda st: [ast.If(test=parse_expr("self.remote_ip != self._orig_remote_ip"), body=[st], orelse=[])])), "C32.restore"),
    ("no cleanup when the connection closes mid-request", _in(HS, "_ProxyAdapter.on_connection_close", remove_stmts(lambda st: "_cleanup" in _u(st))), "C32.adapter"),
    ("cleanup skipped for bodiless requests", _in(HS, "_ProxyAdapter.finish", replace_stmt(lambda st: "_cleanup" in _u(st), lambda st: [ast.If(test=parse_expr("getattr(self.delegate, '_chunks', True)"), body=[st], orelse=[])])), "C32.adapter"),
    ("headers applied after the request object was built", _in(HS, "_ProxyAdapter.headers_received", lambda fn: (fn.body.__setitem__(slice(0, len(fn.body)), [parse_stmt("result = self.delegate.headers_received(start_line, headers)"), [st for st in fn.body if "_apply_xheaders" in _u(st)][0], parse_stmt("return result")]) or True)), "C32.adapter"),
    ("cleanup un-applies on a different object", _in(HS, "_ProxyAdapter._cleanup", replace_expr(lambda n: _u(n) == "self.connection.context", lambda n: parse_expr("self.delegate.connection.context"))), "C32.adapter"),
    ("adapter built but not returned", _in(HS, "HTTPServer.start_request", replace_stmt(lambda st: isinstance(st, ast.Assign) and "_ProxyAdapter" in _u(st), lambda st: [parse_stmt("proxied = _ProxyAdapter(delegate, request_conn)")])), "C32.adapter"),
    ("request reads the ip from the socket address", _in(HU, "HTTPServerRequest.__init__", replace_expr(lambda n: isinstance(n, ast.Call) and _u(n) == "getattr(context, 'remote_ip', None)", lambda n: parse_expr("getattr(context, '_orig_remote_ip', None)"))), "C32.request-copy"),
    ("IPv6 connections start with the placeholder address", _in(HS, CTX + ".__init__", replace_expr(lambda n: isinstance(n, ast.Tuple) and _u(n) == "(socket.AF_INET, socket.AF_INET6)", lambda n: parse_expr("(socket.AF_INET,)"))), "C32.socket-address"),
    ("initial remote_ip is the peer port", _in(HS, CTX + ".__init__", replace_expr(lambda n: isinstance(n, ast.Subscript) and _u(n) == "address[0]", lambda n: parse_expr("address[1]"))), "C32.socket-address"),
    ("host names count as valid IPs (no AI_NUMERICHOST)", _in(NU, "is_valid_ip", replace_expr(lambda n: _u(n) == "socket.AI_NUMERICHOST", lambda n: ast.Constant(value=0))), "C32.valid-ip"),
    ("NUL check dropped", _in(NU, "is_valid_ip", replace_expr(lambda n: isinstance(n, ast.BoolOp) and "\\x00" in _u(n), lambda n: n.values[0])), "C32.valid-ip"),
    ("lookup errors other than NONAME answer True", _in(NU, "is_valid_ip", replace_stmt(lambda st: isinstance(st, ast.Raise) and st.exc is None, lambda st: [parse_stmt("return True")])), "C32.valid-ip"),
    ("over-long input is 'valid'", _in(NU, "is_valid_ip", lambda fn: (lambda hs: (hs[0].body.__setitem__(slice(0, len(hs[0].body)), [parse_stmt("return True")]) or True) if hs else False)([h for h in ast.walk(fn) if isinstance(h, ast.ExceptHandler) and "UnicodeError" in _u(h.type)])), "C32.valid-ip"),
    ("connections are created without the trusted proxy list", _in(HS, "HTTPServer.handle_stream", replace_expr(lambda n: isinstance(n, ast.Attribute) and _u(n) == "self.trusted_downstream", lambda n: ast.Constant(value=None))), "C32.precedence"),
    ("seeded C32-adv6: X-Forwarded-For split bounded by the number of trusted proxies", _in(HS, AP, replace_expr(lambda n: isinstance(n, ast.Call) and isinstance(n.func, ast.Attribute) and n.func.attr == "split" and _u(n.func.value) == "ip", lambda n: parse_expr("ip.rsplit(',', len(self.trusted_downstream) + 1)"))), "C32.precedence"),
    ("seeded C32-adv5: trusted-hop scan rewritten as a single conditional pop", _in(HS, AP, lambda fn: _seed_single_pop(fn)), "C32.precedence"),
    ("X-Forwarded-For overrides X-Real-Ip", _in(HS, AP, _swap_lookup_order), "C32.precedence"),
    ("list scanned from the left", _in(HS, AP, replace_expr(lambda n: isinstance(n, ast.Call) and _u(n.func) == "reversed", lambda n: n.args[0])), "C32.precedence"),
    ("scan stops at the first *trusted* entry", _in(HS, AP, replace_expr(lambda n: isinstance(n, ast.Compare) and isinstance(n.ops[0], ast.NotIn) and "trusted_downstream" in _u(n), lambda n: ast.Compare(left=n.left, ops=[ast.In()], comparators=n.comparators))), "C32.precedence"),
    ("X-Real-Ip lookup falls back to the socket address, discarding X-Forwarded-For", _in(HS, AP, replace_expr(lambda n: isinstance(n, ast.Call) and _u(n) == "headers.get('X-Real-Ip', ip)", lambda n: parse_expr("headers.get('X-Real-Ip', self._orig_remote_ip)"))), "C32.precedence"),
]
