"""C21 -- escaping and encoding helpers are safe and invertible (tornado/escape.py).

The inverse/safety laws themselves are properties of the stdlib functions (html, json, urllib.parse,
codecs) and are the trusted base.  Decided here is the glue, which is all tornado adds:

* html: xhtml_escape/unescape wrap html.escape (quotes on) / html.unescape over the whole decoded argument;
* json: every return of json_encode is json.dumps(value) passed through a '</' -> JSON-equivalent,
  '</'-free replacement; json_decode is json.loads of the argument;
* url: the (plus, encoding) case table of url_escape / url_unescape, evaluated per case by folding the
  tests: plus -> quote_plus/unquote_plus, not plus -> quote/unquote; bytes mode replaces '+' before
  unquote_to_bytes exactly when plus; the caller's encoding is forwarded;
* query strings: one and the same single-byte total codec (latin-1) on decode, parse and re-encode, every
  value re-encoded, options forwarded;
* utf8/to_unicode: pass-through type sets, TypeError for everything else, utf-8 on both sides, aliases;
  recursive_unicode recurses into dict keys+values, lists, tuples (type preserved) and decodes bytes.
"""
from __future__ import annotations

import ast

from .. import q
from ..cfg import must_facts, holds
from ..mutate import mutate, remove_stmts, replace_expr, replace_stmt, parse_stmt, parse_expr
from ..model import AnalysisError
from ..x_valuewalk import walk, single_assignment, branch_flag, alias_expand
from ..rules import tainted_names

TECHNIQUE = "case-table evaluation by constant folding of the mode tests + guard-dominance facts + codec/agreement tables"
EXPLANATION = (
    "tornado/escape.py: each helper's returns are enumerated; for the url helpers the function is walked once per (plus, encoding) case with the "
    "tests folded, and the stdlib callee reached in each case (resolved through the module's imports and local conditional bindings) is compared with "
    "the reference table; replace('+',' ') must have been applied to the argument of unquote_to_bytes exactly in the plus case.  json_encode: every "
    "returned value flows through .replace('</', R) with R '</'-free and JSON-equal.  parse_qs_bytes: the three codec literals agree and are latin-1.  "
    "utf8/to_unicode: must-facts at every return/raise (isinstance guards), type tuples resolved through module constants and imports."
)
NOT_DECIDED = "the inverse and safety laws of html.escape/unescape, urllib.parse.quote*/unquote*, json.dumps/loads and the codecs themselves (stdlib, trusted base); surrogate handling"

E = "tornado/escape.py"
LATIN1 = {"latin1", "latin-1", "latin_1", "iso-8859-1", "iso8859-1", "8859", "cp819", "l1", "iso_8859_1"}
UTF8 = {"utf-8", "utf8", "utf_8", "u8"}


def imports(m):
    """local name -> fully qualified dotted name, for the module's imports."""
    out = {}
    for st in m.tree.body:
        if isinstance(st, ast.Import):
            for a in st.names:
                if a.asname:
                    out[a.asname] = a.name
                else:
                    out[a.name.split(".")[0]] = a.name.split(".")[0]
        elif isinstance(st, ast.ImportFrom) and st.module:
            for a in st.names:
                out[a.asname or a.name] = st.module + "." + a.name
    return out


def qualify(m, e):
    """Fully qualified name of a dotted expression (through imports and module-level aliases)."""
    d = q.dotted(e)
    if d is None:
        return None
    imp = imports(m)
    head, _, rest = d.partition(".")
    seen = set()
    while head in m.assigns and head not in seen and not rest:
        seen.add(head)
        d2 = q.dotted(m.assigns[head])
        if d2 is None:
            break
        d = d2
        head, _, rest = d.partition(".")
    if head in imp:
        return imp[head] + ("." + rest if rest else "")
    return d


def type_name(ck, m, e, depth=0):
    """Canonical builtin type name for a type expression: bytes, str, NoneType (through aliases/imports)."""
    if isinstance(e, ast.Call) and isinstance(e.func, ast.Name) and e.func.id == "type" and len(e.args) == 1 and isinstance(e.args[0], ast.Constant) and e.args[0].value is None:
        return "NoneType"
    d = q.dotted(e)
    if d in ("bytes", "str", "dict", "list", "tuple", "int"):
        return d
    if d is None or depth > 4:
        return None
    if d in m.assigns:
        return type_name(ck, m, m.assigns[d], depth + 1)
    fq = qualify(m, e)
    if fq and fq.startswith("tornado."):
        mod, _, name = fq.rpartition(".")
        rel = mod.replace(".", "/") + ".py"
        try:
            m2 = ck.repo.module(rel)
        except AnalysisError:
            return None
        if name in m2.assigns:
            return type_name(ck, m2, m2.assigns[name], depth + 1)
    return None


def type_set(ck, m, e):
    """Set of canonical type names for the second argument of isinstance()."""
    d = q.dotted(e)
    if d is not None and d in m.assigns and isinstance(m.assigns[d], ast.Tuple):
        e = m.assigns[d]
    if isinstance(e, ast.Tuple):
        out = set()
        for x in e.elts:
            t = type_name(ck, m, x)
            if t is None:
                return None
            out.add(t)
        return out
    t = type_name(ck, m, e)
    return {t} if t else None


def isinstance_facts(ck, m, facts, var):
    """[(type set, polarity)] for the must-facts of the form isinstance(var, T)."""
    out = []
    for t, pol in facts:
        try:
            e = ast.parse(t, mode="eval").body
        except SyntaxError:
            continue
        if q.is_call(e, "isinstance") and len(e.args) == 2 and q.dotted(e.args[0]) == var:
            ts = type_set(ck, m, e.args[1])
            if ts is not None:
                out.append((frozenset(ts), pol))
    return out


def const_of(m, e):
    """Value of a constant expression, following module-level names bound to constants."""
    hops = 0
    while isinstance(e, ast.Name) and e.id in m.assigns and hops < 4:
        e = m.assigns[e.id]
        hops += 1
    return e.value if isinstance(e, ast.Constant) else None


JSON_OUTSIDE_STRINGS = set(" \t\n\r{}[]:,\"0123456789+-.eEtrufalsnN IynTyi")  # structure, numbers, true/false/null, NaN/Infinity


def json_text_equivalent(a: str, b: str):
    """Does rewriting the text ``a`` to ``b`` inside a JSON document preserve the decoded value?  True/False when ``a``
    can only occur within a string literal; None when it might also match structural text.  The two constants
    are decoded as JSON string content (constant folding with the stdlib decoder as the JSON semantics)."""
    import json as _json

    if not a or all(ch in JSON_OUTSIDE_STRINGS for ch in a):
        return None
    try:
        da = _json.loads('"' + a + '"')
    except ValueError:
        da = None  # `a` ends in the middle of an escape: it still only matches inside strings
    try:
        db = _json.loads('"' + b + '"')
    except ValueError:
        return False  # the replacement is not valid JSON string content
    if da is None:
        return None
    return da == db


def returns(fi):
    return [n for n in fi.cfg.stmt_nodes(lambda n: n.kind == "stmt" and isinstance(n.ast, ast.Return))]


# ---------------------------------------------------------------------------------------------


def rule_html(ck):
    rid = "C21.html"
    m = ck.repo.module(E)
    for fname, target, needs_quote in (("xhtml_escape", "html.escape", True), ("xhtml_unescape", "html.unescape", False)):
        f = ck.func(E, fname)
        p = f.params()[0]
        rs = returns(f)
        ck.floor(rid, len(rs), 1, "returns in %s" % fname)
        for r in rs:
            c = alias_expand(f.node, r.ast.value)
            ok = isinstance(c, ast.Call) and qualify(m, c.func) == target and len(c.args) >= 1
            ck.ob(rid, f, r.ast, ok, "%s returns %s(...)" % (fname, target))
            if not ok:
                continue
            if needs_quote:
                quote = q.kwarg(c, "quote") or (c.args[1] if len(c.args) > 1 else None)
                ck.ob(rid, f, r.ast, quote is None or q.is_const(quote, True), "quotes and apostrophes are escaped too (quote is not switched off)")
            a0 = c.args[0]
            ok0 = isinstance(a0, ast.Call) and qualify(m, a0.func) in ("to_unicode", "tornado.escape.to_unicode") and len(a0.args) == 1 and q.dotted(a0.args[0]) == p
            ck.ob(rid, f, r.ast, ok0, "the whole argument, decoded by to_unicode, is processed (str result for bytes input)")


def rule_json(ck):
    rid = "C21.json"
    m = ck.repo.module(E)
    f = ck.func(E, "json_encode")
    p = f.params()[0]
    rs = returns(f)
    ck.floor(rid, len(rs), 1, "returns in json_encode")
    for r in rs:
        v = r.ast.value
        # peel .replace(a, b) layers
        reps = []
        while isinstance(v, ast.Call) and isinstance(v.func, ast.Attribute) and v.func.attr == "replace" and len(v.args) == 2:
            reps.append(v)
            v = v.func.value
        if isinstance(v, ast.Name):
            src = single_assignment(f.node, v.id)
            while isinstance(src, ast.Call) and isinstance(src.func, ast.Attribute) and src.func.attr == "replace" and len(src.args) == 2:
                reps.append(src)
                src = src.func.value
            v = src if src is not None else v
        base_ok = isinstance(v, ast.Call) and qualify(m, v.func) == "json.dumps" and v.args and q.dotted(v.args[0]) == p
        ck.ob(rid, f, r.ast, base_ok, "json_encode returns (a post-processed) json.dumps(value)")
        good = False
        for rp in reps:
            a, b = rp.args
            av, bv = const_of(m, a), const_of(m, b)
            if av == "</" and isinstance(bv, str):
                good = "</" not in bv and bv.replace("\\/", "/") == "</"
        if not good and isinstance(r.ast.value, ast.Name) and base_ok and absent_at(f.cfg, r, ("</", "<", "/"), {r.ast.value.id}):
            good = True  # fast path: nothing to replace
        ck.ob(rid, f, r.ast, good, "the result passes through .replace('</', R) with R free of '</' and JSON-equivalent ('<\\/'), or is returned where '</' is known to be absent")
        # every textual replacement applied to the JSON document must leave its decoded value unchanged: the
        # replaced text can only occur inside a JSON string (it contains a character that JSON does not use outside
        # strings) and the replacement must be valid JSON string content that decodes to the same characters
        for rp in reps:
            av, bv = const_of(m, rp.args[0]), const_of(m, rp.args[1])
            if not (isinstance(av, str) and isinstance(bv, str)):
                raise AnalysisError("json_encode: replacement arguments are not string constants: %s" % q.unparse(rp))
            verdict = json_text_equivalent(av, bv)
            if verdict is None:
                raise AnalysisError("json_encode: cannot tell whether %r occurs only inside JSON strings" % av)
            ck.ob(rid, f, rp, verdict, "replacing %r by %r keeps the JSON document decoding to the same value (valid escape, same characters)" % (av, bv), construct="json replace %r -> %r" % (av, bv))
            if av != "</":
                ck.ob(rid, f, rp, "</" not in bv and not (bv.endswith("<") or bv.startswith("/")), "no other replacement can re-introduce '</'", construct="json replace %r -> %r reintroduces </" % (av, bv))
    g = ck.func(E, "json_decode")
    for r in returns(g):
        c = r.ast.value
        ck.ob(rid, g, r.ast, isinstance(c, ast.Call) and qualify(m, c.func) == "json.loads" and len(c.args) == 1 and q.dotted(c.args[0]) == g.params()[0] and not c.keywords, "json_decode is json.loads of its argument")


def _case_oracle(env):
    def decide(n):
        e = n.ast
        names = q.paths_in(e)
        if names and names <= set(env):
            try:
                return bool(q.fold(e, env))
            except q.NotFoldable:
                return None
        return None

    return decide


_CFG_CACHE = {}


def _reaching_value(fn, name, env):
    """Value expression of the assignment to local ``name`` that is reached when the tests are folded under ``env``
    (a local bound in both arms of an if/else on the mode parameter); None unless exactly one is reached."""
    from ..cfg import build

    if id(fn) not in _CFG_CACHE:
        if len(_CFG_CACHE) > 64:
            _CFG_CACHE.clear()
        _CFG_CACHE[id(fn)] = (fn, build(fn))
    cfg = _CFG_CACHE[id(fn)][1]
    r = walk(cfg, [(cfg.entry.id, 0)], lambda n, v: v, decide=_case_oracle(env))
    vals = [cfg.nodes[i].ast.value for i in r if cfg.nodes[i].kind == "stmt" and isinstance(cfg.nodes[i].ast, (ast.Assign, ast.AnnAssign)) and name in q.assigned_paths(cfg.nodes[i].ast) and cfg.nodes[i].ast.value is not None]
    return vals[0] if len(vals) == 1 else None


def _resolve_callee(m, fn, call, env):
    """Fully qualified callee of ``call`` under the case ``env``; None if it is a local that cannot be resolved."""
    f = call.func
    hops = 0
    while hops < 6:
        hops += 1
        if isinstance(f, ast.IfExp):
            try:
                f = f.body if q.fold(f.test, env) else f.orelse
            except q.NotFoldable:
                return None
            continue
        if isinstance(f, ast.Name) and f.id in q.local_names(fn) and f.id not in m.funcs:
            src = single_assignment(fn, f.id) or _reaching_value(fn, f.id, env)
            if src is None:
                return None
            f = src
            continue
        break
    return qualify(m, f)


def rule_url(ck):
    rid = "C21.url"
    m = ck.repo.module(E)
    f = ck.func(E, "url_escape")
    ps = f.params()
    if ps[:2] != ["value", "plus"] and len(ps) < 2:
        raise AnalysisError("url_escape signature changed")
    val, plus = ps[0], ps[1]
    WANT_Q = {True: "urllib.parse.quote_plus", False: "urllib.parse.quote"}
    for pv in (True, False):
        env = {plus: pv}
        r = walk(f.cfg, [(f.cfg.entry.id, 0)], lambda n, v: v, decide=_case_oracle(env))
        rets = [f.cfg.nodes[i] for i in r if f.cfg.nodes[i].kind == "stmt" and isinstance(f.cfg.nodes[i].ast, ast.Return)]
        ck.floor(rid, len(rets), 1, "returns of url_escape for plus=%s" % pv)
        for rt in rets:
            c = rt.ast.value
            callee = _resolve_callee(m, f.node, c, env) if isinstance(c, ast.Call) else None
            if isinstance(c, ast.Call) and callee is None:
                raise AnalysisError("url_escape(plus=%s): the function applied to the value is not resolved: %s" % (pv, q.unparse(c.func)))
            ck.ob(rid, f, rt.ast, callee == WANT_Q[pv], "url_escape(plus=%s) uses %s (found %s)" % (pv, WANT_Q[pv], callee), construct="url_escape plus=%s -> %s" % (pv, callee))
            ck.ob(rid, f, rt.ast, isinstance(c, ast.Call) and len(c.args) == 1 and q.dotted(c.args[0]) == val and not c.keywords, "the whole value is quoted with the default safe set", construct="url_escape plus=%s args" % pv)
    dflt = f.node.args.defaults
    ck.ob(rid, f, f.node, len(dflt) == 1 and q.is_const(dflt[0], True), "plus defaults to True (query-string mode) on the escaping side", construct="url_escape plus default")

    # url_unescape: the last definition (after the overload stubs)
    cands = [fi for qn, fi in m.funcs.items() if fi.name == "url_unescape" and not any(q.dotted(d) in ("typing.overload", "overload") for d in fi.node.decorator_list)]
    if len(cands) != 1:
        raise AnalysisError("url_unescape implementation not found")
    g = ck.use(cands[0])
    gp = g.params()
    if len(gp) < 3:
        raise AnalysisError("url_unescape signature changed")
    gval, enc, gplus = gp[0], gp[1], gp[2]
    gd = g.node.args.defaults
    ck.ob(rid, g, g.node, len(gd) == 2 and q.is_const(gd[1], True), "plus defaults to True on the unescaping side as well (same default mode as url_escape)", construct="url_unescape plus default")
    ck.ob(rid, g, g.node, len(gd) == 2 and isinstance(gd[0], ast.Constant) and isinstance(gd[0].value, str) and gd[0].value.lower() in UTF8, "url_unescape decodes as UTF-8 by default, the encoding url_escape's quote() uses", construct="url_unescape encoding default")
    WANT_U = {True: "urllib.parse.unquote_plus", False: "urllib.parse.unquote"}
    derived = tainted_names(g, [gval])
    n_cases = 0
    for ev in (None, "utf-8"):
        for pv in (True, False):
            env = {gplus: pv, enc: ev}

            def transfer(n, flag):
                if n.kind == "stmt" and isinstance(n.ast, (ast.Assign, ast.AnnAssign)):
                    tg = q.assigned_paths(n.ast)
                    v = n.ast.value
                    has = any(isinstance(c, ast.Call) and isinstance(c.func, ast.Attribute) and c.func.attr == "replace" and len(c.args) == 2 and q.is_const(c.args[0], "+") and q.is_const(c.args[1], " ") for c in ast.walk(v))
                    if has:
                        return flag | frozenset(tg)
                    derived = frozenset(t for t in tg if any(x in flag for x in q.names_in(v)))
                    return (flag - frozenset(tg)) | derived
                return flag

            r = walk(g.cfg, [(g.cfg.entry.id, frozenset())], transfer, decide=_case_oracle(env))
            rets = [(g.cfg.nodes[i], r[i]) for i in r if g.cfg.nodes[i].kind == "stmt" and isinstance(g.cfg.nodes[i].ast, ast.Return)]
            ck.floor(rid, len(rets), 1, "returns of url_unescape for encoding=%r plus=%s" % (ev, pv))
            for rt, flags in rets:
                n_cases += 1
                c = rt.ast.value
                callee = _resolve_callee(m, g.node, c, env) if isinstance(c, ast.Call) else None
                case = "url_unescape(encoding=%s, plus=%s)" % ("None" if ev is None else "<codec>", pv)
                if _is_bypass(m, g.node, c, env):
                    _fast_path(ck, rid, g, rt, flags, c, derived, case, pv, ev)
                    continue
                if ev is None:
                    ck.ob(rid, g, rt.ast, callee == "urllib.parse.unquote_to_bytes", "%s returns urllib.parse.unquote_to_bytes(...) (found %s)" % (case, callee), construct="%s -> %s" % (case, callee))
                    if isinstance(c, ast.Call) and c.args:
                        a = c.args[0]
                        inline = any(isinstance(x, ast.Call) and isinstance(x.func, ast.Attribute) and x.func.attr == "replace" and len(x.args) == 2 and q.is_const(x.args[0], "+") and q.is_const(x.args[1], " ") for x in ast.walk(a))
                        replaced = inline or all(len(fl) > 0 and any(nm in fl for nm in q.names_in(a)) for fl in flags)
                        never = not inline and all(not any(nm in fl for nm in q.names_in(a)) for fl in flags)
                        if pv:
                            ck.ob(rid, g, rt.ast, replaced, "%s: '+' is turned into a space in the text *before* it is percent-decoded" % case, construct="%s plus-replace before unquote" % case)
                        else:
                            ck.ob(rid, g, rt.ast, never, "%s: '+' is left alone" % case, construct="%s no plus-replace" % case)
                        ck.ob(rid, g, rt.ast, bool(q.names_in(a) & derived), "%s decodes the caller's value" % case, construct="%s value" % case)
                else:
                    ck.ob(rid, g, rt.ast, callee == WANT_U[pv], "%s uses %s (found %s)" % (case, WANT_U[pv], callee), construct="%s -> %s" % (case, callee))
                    if isinstance(c, ast.Call):
                        e_arg = q.kwarg(c, "encoding") or (c.args[1] if len(c.args) > 1 else None)
                        ck.ob(rid, g, rt.ast, q.dotted(e_arg) == enc, "%s forwards the caller's encoding" % case, construct="%s encoding" % case)
                        ck.ob(rid, g, rt.ast, bool(c.args) and bool(q.names_in(c.args[0]) & derived), "%s decodes the caller's value" % case, construct="%s value" % case)
    ck.floor(rid, n_cases, 4, "url_unescape cases")


DECODERS = ("urllib.parse.unquote", "urllib.parse.unquote_plus", "urllib.parse.unquote_to_bytes")


def _is_bypass(m, fn, c, env):
    """The returned expression contains no call of a percent-decoder."""
    if c is None:
        return True
    for x in ast.walk(c):
        if isinstance(x, ast.Call) and _resolve_callee(m, fn, x, env) in DECODERS:
            return False
    return True


def absent_at(cfg, node, needles, names):
    """A dominating test established that none of ``needles`` occurs in one of ``names`` (``'%' in x`` false /
    ``x.find('%') == -1`` ...) and the name was not rebound since."""
    for t in cfg.stmt_nodes(lambda t: t.kind == "test"):
        e = t.ast
        if isinstance(e, ast.Compare) and len(e.ops) == 1 and isinstance(e.ops[0], (ast.In, ast.NotIn)) and isinstance(e.left, ast.Constant) and e.left.value in needles and q.dotted(e.comparators[0]) in names:
            if branch_flag(cfg, q.unparse(e), isinstance(e.ops[0], ast.NotIn), [q.dotted(e.comparators[0])]).get(node.id, False):
                return True
    return False


def _fast_path(ck, rid, g, rt, flags, c, derived, case, pv, ev):
    """A return that skips the decoder (class: fast path around the normal processing).  It is the identity of
    the normal path only if there is nothing to decode: no '%' in the text, and in plus mode no '+' either
    (or the '+' translation already applied); bytes mode must still return bytes."""
    names = (q.names_in(c) & derived) if c is not None else set()
    if c is None or not names:
        ck.ob(rid, g, rt.ast, False, "%s returns something that is not derived from the decoded value" % case, construct="%s fast path value" % case)
        return
    ck.ob(rid, g, rt.ast, absent_at(g.cfg, rt, ("%", b"%"), names), "%s skips percent-decoding only where '%%' is known to be absent from the text" % case, construct="%s fast path without '%%' test" % case)
    if pv:
        replaced = any(isinstance(x, ast.Call) and isinstance(x.func, ast.Attribute) and x.func.attr == "replace" and len(x.args) == 2 and q.is_const(x.args[0], "+") and q.is_const(x.args[1], " ") for x in ast.walk(c)) or all(len(fl) > 0 and any(nm in fl for nm in names) for fl in flags)
        ck.ob(rid, g, rt.ast, replaced or absent_at(g.cfg, rt, ("+", b"+"), names), "%s: a fast path must still translate '+' to a space (or know that there is none)" % case, construct="%s fast path skips plus handling" % case)
    if ev is None:
        conv = isinstance(c, ast.Call) and (q.call_attr(c) in ("utf8", "encode", "bytes"))
        ck.ob(rid, g, rt.ast, conv, "%s: the bytes-returning form returns bytes on the fast path too" % case, construct="%s fast path type" % case)


def rule_qs(ck):
    rid = "C21.qs"
    m = ck.repo.module(E)
    f = ck.func(E, "parse_qs_bytes")
    ps = f.params()
    qs = ps[0]
    facts = must_facts(f.cfg)
    codecs = {}
    # what reaches parse_qs, by case analysis over the argument's type: bytes must be decoded as latin-1 exactly once,
    # str (the latin-1 decoding of the bytes, per the contract) must arrive unchanged -- no transcoding chain through
    # another codec (class: text encoded with codec A and re-read with codec B)
    def _norm(c_):
        c_ = (c_ or "").lower()
        return "latin1" if c_ in LATIN1 else ("utf8" if c_ in UTF8 else c_)

    def sym(e, env, tau):
        if isinstance(e, ast.Name):
            return env.get(e.id, "?" if e.id != qs else None)
        if isinstance(e, ast.Call) and isinstance(e.func, ast.Attribute) and e.func.attr in ("decode", "encode") and (e.args or q.kwarg(e, "encoding") is not None):
            base = sym(e.func.value, env, tau)
            cod = _norm(const_of(m, e.args[0] if e.args else q.kwarg(e, "encoding")))
            if base is None or base == "?" or not cod:
                return "?"
            if e.func.attr == "decode":
                if base == "B":
                    return ("T", cod)
                if isinstance(base, tuple) and base[0] == "E":
                    return "S" if base[1] == cod else ("M", "encoded as %s, decoded as %s" % (base[1], cod))
                return "?"
            if base == "S":
                return ("E", cod)
            if isinstance(base, tuple) and base[0] == "T":
                return "B" if base[1] == cod else ("M", "decoded as %s, encoded as %s" % (base[1], cod))
            return "?"
        if isinstance(e, ast.Call) and q.call_attr(e) in ("utf8",) and len(e.args) == 1:
            base = sym(e.args[0], env, tau)
            return {"B": "B", "S": ("E", "utf8")}.get(base, "?") if not isinstance(base, tuple) else "?"
        if isinstance(e, ast.Call) and q.call_attr(e) in ("to_unicode", "_unicode", "native_str", "to_basestring") and len(e.args) == 1:
            base = sym(e.args[0], env, tau)
            return {"B": ("T", "utf8"), "S": "S"}.get(base, "?") if not isinstance(base, tuple) else "?"
        if isinstance(e, ast.Call) and q.call_attr(e) == "str" and len(e.args) == 1 and sym(e.args[0], env, tau) == "S":
            return "S"
        return "?" if any(isinstance(x, ast.Name) and (x.id in env) for x in ast.walk(e)) else None

    pq_calls = [(n, c) for n, c in f.cfg.find(lambda x: isinstance(x, ast.Call) and qualify(m, x.func) == "urllib.parse.parse_qs")]
    for tau, start, want, wtxt in (("bytes", "B", ("T", "latin1"), "bytes input is decoded as latin-1 (each byte one code point)"), ("str", "S", "S", "str input reaches the parser unchanged")):
        def transfer(n, envf, tau=tau):
            if n.kind == "stmt" and isinstance(n.ast, (ast.Assign, ast.AnnAssign)) and n.ast.value is not None:
                tg = n.ast.targets if isinstance(n.ast, ast.Assign) else [n.ast.target]
                if len(tg) == 1 and isinstance(tg[0], ast.Name):
                    env = dict(envf)
                    v = sym(n.ast.value, env, tau)
                    if v is None:
                        env.pop(tg[0].id, None)
                    else:
                        env[tg[0].id] = v
                    return frozenset(env.items())
            return envf
        r_ = walk(f.cfg, [(f.cfg.entry.id, frozenset({(qs, start)}))], transfer, decide=_type_oracle(ck, m, qs, tau))
        for n, c in pq_calls:
            for envf in r_.get(n.id, ()):
                got = sym(c.args[0], dict(envf), tau) if c.args else "?"
                if got == "?" or got is None:
                    raise AnalysisError("parse_qs_bytes: what reaches parse_qs for %s input is not understood: %s" % (tau, q.unparse(c.args[0]) if c.args else "?"))
                ck.ob(rid, f, c, got == want, "%s%s" % (wtxt, "" if got == want else " (found: %s)" % (got[1] if isinstance(got, tuple) and got[0] == "M" else (got,))), construct="parse_qs input for %s: %s" % (tau, got))
    dec = [(n, c) for n, c in f.cfg.find(lambda x: isinstance(x, ast.Call) and isinstance(x.func, ast.Attribute) and x.func.attr == "decode")]
    for n, c in dec:
        codecs["decode"] = const_of(m, c.args[0]) if c.args else None
    pq = [c for c in q.calls(f.node) if qualify(m, c.func) == "urllib.parse.parse_qs"]
    ck.floor(rid, len(pq), 1, "parse_qs call")
    for c in pq:
        e = q.kwarg(c, "encoding") or (c.args[3] if len(c.args) > 3 else None)
        codecs["parse"] = const_of(m, e) if e is not None else None
        ck.ob(rid, f, c, bool(c.args) and q.dotted(c.args[0]) == qs, "the (decoded) query string is parsed")
        for i, name in ((1, "keep_blank_values"), (2, "strict_parsing")):
            a = q.kwarg(c, name) or (c.args[i] if len(c.args) > i else None)
            if name in ps:
                ck.ob(rid, f, c, q.dotted(a) == name, "the caller's %s is forwarded" % name, construct="parse_qs %s" % name)
    enc = [c for c in q.calls(f.node, local=False) if isinstance(c.func, ast.Attribute) and c.func.attr == "encode"]
    ck.floor(rid, len(enc), 1, "re-encoding of values")
    for c in enc:
        codecs["encode"] = const_of(m, c.args[0]) if c.args else None
    vals = {k: (v or "").lower() for k, v in codecs.items()}
    ck.ob(rid, f, f.node, len(vals) == 3 and all(v in LATIN1 for v in vals.values()), "decode, percent-decoding and re-encode all use latin-1, the codec that maps every byte to one code point and back (found %s)" % codecs, construct="codecs %s" % sorted(codecs.items()))
    # every value of every key is re-encoded and stored
    comps = [n for n in ast.walk(f.node) if isinstance(n, ast.ListComp) and any(x in enc for x in ast.walk(n.elt))]
    ck.ob(rid, f, comps[0] if comps else f.node, len(comps) == 1 and not comps[0].generators[0].ifs and len(comps[0].generators) == 1, "every value is re-encoded (no filtering)")
    pq_t = [st for st in q.walk_body(f.node) if isinstance(st, ast.Assign) and st.value in pq]
    res = q.dotted(pq_t[0].targets[0]) if pq_t else None
    loops = [n for n in q.walk_body(f.node) if isinstance(n, ast.For) and isinstance(n.iter, ast.Call) and isinstance(n.iter.func, ast.Attribute) and n.iter.func.attr == "items"]
    dcomps = [n for n in q.walk_body(f.node) if isinstance(n, ast.DictComp)]
    if not comps:
        return
    if len(loops) == 1 and not dcomps:
        lp = loops[0]
        kv = [x.id for x in lp.target.elts] if isinstance(lp.target, ast.Tuple) and all(isinstance(x, ast.Name) for x in lp.target.elts) else []
        stores = [st for st in lp.body if isinstance(st, ast.Assign) and isinstance(st.targets[0], ast.Subscript) and len(kv) == 2 and q.dotted(st.targets[0].slice) == kv[0] and st.value is comps[0]]
        ok = res is not None and q.dotted(lp.iter.func.value) == res and len(stores) == 1 and q.dotted(comps[0].generators[0].iter) == kv[1] and not any(isinstance(x, (ast.Continue, ast.Break, ast.If)) for x in ast.walk(lp))
        if ok:
            out = q.dotted(stores[0].targets[0].value)
            empty_ok = branch_flag(f.cfg, qs, False, [qs])
            ok = all(q.dotted(r.ast.value) == out or (isinstance(r.ast.value, ast.Dict) and not r.ast.value.keys and empty_ok.get(r.id, False)) for r in returns(f)) and any(q.dotted(r.ast.value) == out for r in returns(f))
        ck.ob(rid, f, lp, bool(ok), "every key of the parse result is copied with its re-encoded values, and that mapping is returned")
    elif len(dcomps) == 1 and not loops:
        dc = dcomps[0]
        g0 = dc.generators[0]
        kv = [x.id for x in g0.target.elts] if isinstance(g0.target, ast.Tuple) and all(isinstance(x, ast.Name) for x in g0.target.elts) else []
        ok = len(dc.generators) == 1 and not g0.ifs and len(kv) == 2 and q.dotted(dc.key) == kv[0] and dc.value is comps[0] and q.dotted(comps[0].generators[0].iter) == kv[1] and q.is_call(g0.iter, (res or "?") + ".items")
        ck.ob(rid, f, dc, bool(ok), "every key of the parse result is copied with its re-encoded values")
    else:
        raise AnalysisError("parse_qs_bytes: construction of the result mapping not understood")


def _type_oracle(ck, m, var, tau):
    """Decide isinstance(var, T) / ``var is None`` tests for an argument of abstract type ``tau``."""
    def decide(n):
        e = n.ast
        if q.is_call(e, "isinstance") and len(e.args) == 2 and q.dotted(e.args[0]) == var:
            ts = type_set(ck, m, e.args[1])
            if ts is None:
                raise AnalysisError("isinstance type %s not resolved" % q.unparse(e.args[1]))
            return tau in ts
        if isinstance(e, ast.Compare) and len(e.ops) == 1 and q.dotted(e.left) == var and isinstance(e.comparators[0], ast.Constant) and e.comparators[0].value is None:
            if isinstance(e.ops[0], (ast.Is, ast.Eq)):
                return tau == "NoneType"
            if isinstance(e.ops[0], (ast.IsNot, ast.NotEq)):
                return tau != "NoneType"
        return None

    return decide


def _outcomes(f, decide):
    r = walk(f.cfg, [(f.cfg.entry.id, 0)], lambda n, v: v, decide=decide)
    outs = []
    for i in sorted(r):
        n = f.cfg.nodes[i]
        if n.kind == "stmt" and isinstance(n.ast, (ast.Return, ast.Raise)):
            outs.append(n.ast)
    if f.cfg.exit.id in r and not any(isinstance(o, ast.Return) for o in outs):
        outs.append(None)  # falls off the end
    return outs


def rule_utf8(ck):
    rid = "C21.utf8"
    m = ck.repo.module(E)
    spec = {"utf8": ("str", "encode"), "to_unicode": ("bytes", "decode")}
    for name, (convert_from, meth) in spec.items():
        cands = [fi for qn, fi in m.funcs.items() if fi.name == name and not any(q.dotted(d) in ("typing.overload", "overload") for d in fi.node.decorator_list)]
        if len(cands) != 1:
            raise AnalysisError("%s implementation not found" % name)
        f = ck.use(cands[0])
        p = f.params()[0]
        for tau in ("bytes", "str", "NoneType", "int"):
            outs = _outcomes(f, _type_oracle(ck, m, p, tau))
            label = "%s(<%s>)" % (name, tau if tau != "int" else "any other type")
            if not outs:
                raise AnalysisError("%s: no outcome found" % label)
            for o in outs:
                if tau == convert_from:
                    v = o.value if isinstance(o, ast.Return) else None
                    ok = isinstance(v, ast.Call) and isinstance(v.func, ast.Attribute) and v.func.attr == meth and q.dotted(v.func.value) == p
                    ck.ob(rid, f, o if o is not None else f.node, ok, "%s returns value.%s(...)" % (label, meth), construct="%s outcome" % label)
                    if ok:
                        cod = v.args[0].value if v.args and isinstance(v.args[0], ast.Constant) else (q.kwarg(v, "encoding").value if isinstance(q.kwarg(v, "encoding"), ast.Constant) else None)
                        ck.ob(rid, f, o, isinstance(cod, str) and cod.lower() in UTF8, "%s uses UTF-8 (found %r)" % (label, cod), construct="%s codec %r" % (name, cod))
                elif tau == "int":
                    ex = o.exc if isinstance(o, ast.Raise) else None
                    cls = (q.dotted(ex.func) if isinstance(ex, ast.Call) else q.dotted(ex)) if ex is not None else None
                    ck.ob(rid, f, o if o is not None else f.node, cls == "TypeError", "%s raises TypeError" % label, construct="%s outcome" % label)
                else:
                    ck.ob(rid, f, o if o is not None else f.node, isinstance(o, ast.Return) and q.dotted(o.value) == p, "%s returns its argument unchanged" % label, construct="%s outcome" % label)
    # aliases used by the other helpers
    for alias in ("_unicode", "native_str", "to_basestring"):
        v = m.assigns.get(alias)
        ck.ob(rid, None, v if v is not None else m.tree, v is not None and q.dotted(v) == "to_unicode", "%s is to_unicode" % alias, construct="%s = to_unicode" % alias, file=E)
    # recursive_unicode
    f = ck.func(E, "recursive_unicode")
    p = f.params()[0]

    def rec(e):
        return isinstance(e, ast.Call) and q.dotted(e.func) == f.name and len(e.args) == 1 and not e.keywords

    for tau in ("dict", "list", "tuple", "bytes", "str"):
        outs = _outcomes(f, _type_oracle(ck, m, p, tau))
        label = "recursive_unicode(<%s>)" % tau
        if not outs:
            raise AnalysisError("%s: no outcome found" % label)
        for o in outs:
            v = o.value if isinstance(o, ast.Return) else None
            site = o if o is not None else f.node
            if tau == "dict":
                ok = isinstance(v, ast.DictComp) and rec(v.key) and rec(v.value) and len(v.generators) == 1 and not v.generators[0].ifs and q.is_call(v.generators[0].iter, p + ".items")
                ck.ob(rid, f, site, bool(ok), "%s: keys and values are both converted, nothing dropped" % label, construct=label)
            elif tau in ("list", "tuple"):
                comp = v.args[0] if isinstance(v, ast.Call) and q.dotted(v.func) == tau and len(v.args) == 1 else (v if isinstance(v, ast.ListComp) and tau == "list" else None)
                ok = isinstance(comp, (ast.GeneratorExp, ast.ListComp)) and rec(comp.elt) and len(comp.generators) == 1 and not comp.generators[0].ifs and q.dotted(comp.generators[0].iter) == p
                ck.ob(rid, f, site, bool(ok), "%s: every element is converted and the container type is kept" % label, construct=label)
            elif tau == "bytes":
                ck.ob(rid, f, site, isinstance(v, ast.Call) and qualify(m, v.func) in ("to_unicode", "tornado.escape.to_unicode") and len(v.args) == 1 and q.dotted(v.args[0]) == p, "%s: decoded with to_unicode" % label, construct=label)
            else:
                ck.ob(rid, f, site, v is not None and q.dotted(v) == p, "%s (anything else): returned unchanged" % label, construct=label)


def run(ck):
    from ..x_valuewalk import guard_obligations, canonical

    ck.repo = canonical(ck.repo, ['tornado/escape.py'], keep_names=('_DEFAULT_AUTOESCAPE',))

    from ..x_valuewalk import expand_result_variable

    ck.repo = expand_result_variable(ck.repo, 'tornado/escape.py', ['utf8', 'to_unicode', 'url_escape', 'url_unescape'])
    guard_obligations(ck, [])
    ck.rule("C21.html", "xhtml_escape = html.escape(to_unicode(value)) with quote escaping; xhtml_unescape = html.unescape(to_unicode(value))")
    ck.rule("C21.json", "every return of json_encode is json.dumps(value) passed through replace('</', R), R '</'-free and JSON-equivalent; json_decode = json.loads(value)")
    ck.rule("C21.url", "url_escape/url_unescape case table over (plus, encoding is None): quote_plus|quote, unquote_plus|unquote with the caller's encoding, unquote_to_bytes with '+' replaced beforehand iff plus; both default to plus=True")
    ck.rule("C21.qs", "parse_qs_bytes: latin-1 for decode, parse_qs and re-encode; every key/value copied; options forwarded")
    ck.rule("C21.utf8", "utf8/to_unicode: pass-through exactly for (bytes|str, None), TypeError otherwise, strict UTF-8 conversion under the matching isinstance guard; aliases; recursive_unicode cases")
    rule_html(ck)
    rule_json(ck)
    rule_url(ck)
    rule_qs(ck)
    rule_utf8(ck)


def _in(qn, edit, rel=E):
    return lambda repo: mutate(repo, rel, qn, edit)


def _u(n):
    return ast.unparse(n)


def _impl(name, edit):
    """Edit the non-overload definition of ``name`` (module-level edit)."""
    def ed(tree):
        for st in tree.body:
            if isinstance(st, ast.FunctionDef) and st.name == name and not st.decorator_list:
                return edit(st)
        return False

    return lambda repo: mutate(repo, E, None, ed)


def _module_const(name, new_src):
    def ed(tree):
        for st in tree.body:
            if isinstance(st, ast.Assign) and isinstance(st.targets[0], ast.Name) and st.targets[0].id == name:
                st.value = parse_expr(new_src)
                return True
        return False

    return lambda repo: mutate(repo, E, None, ed)


MUTANTS = [
    ("xhtml_escape leaves quotes alone", _in("xhtml_escape", replace_expr(lambda n: isinstance(n, ast.Call) and _u(n.func) == "html.escape", lambda n: parse_expr("html.escape(to_unicode(value), quote=False)"))), "C21.html"),
    ("xhtml_unescape skips the decoding of bytes", _in("xhtml_unescape", replace_expr(lambda n: isinstance(n, ast.Call) and _u(n.func) == "to_unicode", lambda n: n.args[0])), "C21.html"),
    ("json_encode without the '</' replacement", _in("json_encode", replace_expr(lambda n: isinstance(n, ast.Call) and isinstance(n.func, ast.Attribute) and n.func.attr == "replace", lambda n: n.func.value)), "C21.json"),
    ("json_encode fast path tests for '</script' only", _in("json_encode", lambda fn: (fn.body.__setitem__(slice(len(fn.body) - 1, len(fn.body)), [parse_stmt("s = json.dumps(value)"), parse_stmt("if '</script' not in s:\n    return s"), parse_stmt("return s.replace('</', '<\\\\/')")]) or True)), "C21.json"),
    ("seeded C21-adv3: also 'escapes' <!-- with the invalid JSON escape \\!", _in("json_encode", replace_stmt(lambda st: isinstance(st, ast.Return), lambda st: [parse_stmt("return json.dumps(value).replace('</', '<\\\\/').replace('<!--', '<\\\\!--')")])), "C21.json"),
    ("json_encode also rewrites '<!--' to a different text", _in("json_encode", replace_stmt(lambda st: isinstance(st, ast.Return), lambda st: [parse_stmt("return json.dumps(value).replace('</', '<\\\\/').replace('<!--', '< !--')")])), "C21.json"),
    ("json_encode only protects '</script'", _in("json_encode", replace_expr(lambda n: q.is_const(n, "</"), lambda n: ast.Constant(value="</script"))), "C21.json"),
    ("json_encode replaces '</' by '< /' (not JSON-equivalent)", _in("json_encode", replace_expr(lambda n: q.is_const(n, "<\\/"), lambda n: ast.Constant(value="< /"))), "C21.json"),
    ("url_escape modes swapped", _in("url_escape", replace_expr(lambda n: isinstance(n, ast.IfExp), lambda n: ast.IfExp(test=n.test, body=n.orelse, orelse=n.body))), "C21.url"),
    ("url_unescape(plus=False) uses unquote_plus", _impl("url_unescape", replace_expr(lambda n: isinstance(n, ast.IfExp), lambda n: n.body)), "C21.url"),
    ("bytes mode forgets the '+' replacement", _impl("url_unescape", remove_stmts(lambda st: isinstance(st, ast.If) and _u(st.test) == "plus")), "C21.url"),
    ("bytes mode replaces '+' regardless of plus", _impl("url_unescape", replace_stmt(lambda st: isinstance(st, ast.If) and _u(st.test) == "plus", lambda st: st.body)), "C21.url"),
    ("bytes mode replaces '+' after percent-decoding", _impl("url_unescape", replace_stmt(lambda st: isinstance(st, ast.If) and _u(st.test) == "encoding is None", lambda st: [parse_stmt("if encoding is None:\n    raw = urllib.parse.unquote_to_bytes(value)\n    return raw.replace(b'+', b' ') if plus else raw")] + st.orelse)), "C21.url"),
    ("seeded C21-adv1: fast path for text without '%' placed before the plus handling", _impl("url_unescape", lambda fn: (fn.body.insert(1 if isinstance(fn.body[0], ast.Expr) else 0, parse_stmt("if encoding is not None and isinstance(value, str) and '%' not in value:\n    return value")) or True)), "C21.url"),
    ("fast path for text without '+' skips percent-decoding", _impl("url_unescape", lambda fn: (fn.body.insert(1 if isinstance(fn.body[0], ast.Expr) else 0, parse_stmt("if encoding is not None and isinstance(value, str) and '+' not in value and plus:\n    return value")) or True)), "C21.url"),
    ("text mode ignores the caller's encoding", _impl("url_unescape", replace_expr(lambda n: isinstance(n, ast.Call) and _u(n.func) == "unquote", lambda n: parse_expr("unquote(to_basestring(value))"))), "C21.url"),
    ("url_unescape decodes latin-1 by default", _impl("url_unescape", lambda fn: (fn.args.defaults.__setitem__(0, ast.Constant(value="latin1")) or True)), "C21.url"),
    ("url_unescape defaults to plus=False", _impl("url_unescape", lambda fn: (fn.args.defaults.__setitem__(1, ast.Constant(value=False)) or True)), "C21.url"),
    ("seeded C21-adv4: str queries are UTF-8 encoded and re-read as latin-1", _in("parse_qs_bytes", replace_stmt(lambda st: isinstance(st, ast.If) and "isinstance" in _u(st.test), lambda st: [parse_stmt("qs = utf8(qs).decode('latin1')")])), "C21.qs"),
    ("bytes queries decoded as UTF-8 before latin-1 parsing", _in("parse_qs_bytes", replace_expr(lambda n: isinstance(n, ast.Call) and isinstance(n.func, ast.Attribute) and n.func.attr == "decode", lambda n: parse_expr("to_unicode(qs)"))), "C21.qs"),
    ("values re-encoded as utf-8", _in("parse_qs_bytes", replace_expr(lambda n: isinstance(n, ast.Call) and isinstance(n.func, ast.Attribute) and n.func.attr == "encode", lambda n: parse_expr("i.encode('utf-8')"))), "C21.qs"),
    ("query parsed as utf-8", _in("parse_qs_bytes", replace_expr(lambda n: isinstance(n, ast.keyword) and n.arg == "encoding", lambda n: ast.keyword(arg="encoding", value=ast.Constant(value="utf-8")))), "C21.qs"),
    ("blank values always dropped", _in("parse_qs_bytes", replace_expr(lambda n: isinstance(n, ast.Name) and n.id == "keep_blank_values" and isinstance(n.ctx, ast.Load), lambda n: ast.Constant(value=False))), "C21.qs"),
    ("empty values filtered while re-encoding", _in("parse_qs_bytes", replace_expr(lambda n: isinstance(n, ast.ListComp), lambda n: parse_expr("[i.encode('latin1') for i in v if i]"))), "C21.qs"),
    ("utf8 passes str through", _module_const("_UTF8_TYPES", "(bytes, unicode_type, type(None))"), "C21.utf8"),
    ("utf8 returns other types unchanged", _impl("utf8", replace_stmt(lambda st: isinstance(st, ast.Raise), lambda st: [parse_stmt("return value")])), "C21.utf8"),
    ("to_unicode decodes latin-1", _impl("to_unicode", replace_expr(lambda n: q.is_const(n, "utf-8"), lambda n: ast.Constant(value="latin1"))), "C21.utf8"),
    ("to_unicode raises ValueError", _impl("to_unicode", replace_expr(lambda n: isinstance(n, ast.Name) and n.id == "TypeError", lambda n: ast.Name(id="ValueError", ctx=ast.Load()))), "C21.utf8"),
    ("recursive_unicode leaves dict keys alone", _in("recursive_unicode", replace_expr(lambda n: isinstance(n, ast.DictComp), lambda n: parse_expr("{k: recursive_unicode(v) for (k, v) in obj.items()}"))), "C21.utf8"),
    ("recursive_unicode turns tuples into lists", _in("recursive_unicode", replace_expr(lambda n: isinstance(n, ast.Call) and _u(n.func) == "tuple", lambda n: ast.Call(func=ast.Name(id="list", ctx=ast.Load()), args=n.args, keywords=[]))), "C21.utf8"),
    ("native_str aliased to utf8", _module_const("native_str", "utf8"), "C21.utf8"),
]
