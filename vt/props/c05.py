"""C05 — every started request ends with exactly one finish or close notification.

Decided statically (see DESIGN.md §4 C05): typestate over the CFG of
``HTTP1Connection._read_message`` in server mode, must-pass-through facts on the
server request loop and shutdown path, and sibling agreement of the forwarding
delegates.  Not decided: prefix property of delivered body chunks, event-loop
scheduling.
"""
from __future__ import annotations

import ast

from .. import q
from ..cfg import explore, must_facts, canon_fact, holds
from ..rules import call_sites, node_calls, require_before, event_facts, trivial_context_manager
from ..mutate import mutate, remove_stmts, replace_stmt, replace_expr, parse_stmt
from ..model import AnalysisError

TECHNIQUE = ("path-sensitive typestate exploration on the CFG (flag x headers x #finish x #close, exception edges included) + "
             "must-pass-through / dominance with kills, take-and-clear lint, truth-table guard agreement, sibling forwarding agreement")
EXPLANATION = (
    "Path-sensitive typestate (flag value x headers-delivered x #finish x #close) over every CFG path of "
    "HTTP1Connection._read_message with is_client=False, including exception edges and the duplicated finally; "
    "must-pass-through of on_close in the server loop; ordering in HTTP1ServerConnection.close; "
    "forwarding discipline of the delegate adapters (siblings of HTTPMessageDelegate)."
)
NOT_DECIDED = "that delivered body chunks concatenate to a prefix of the sent body; interaction with event-loop scheduling"

H1 = "tornado/http1connection.py"


def _delegate_param(fi):
    ps = [p for p in fi.params() if p != "self"]
    if not ps:
        raise AnalysisError("%s has no delegate parameter" % fi.qualname)
    return ps[0]


def typestate_read_message(ck, fi, is_client=False):
    """Returns (#exit states examined)."""
    cfg = fi.cfg
    # entering `with _ExceptionLoggingContext(..)` cannot raise if (verified on the
    # current source) its __init__ only stores and its __enter__ is empty
    triv = {c for c in ("_ExceptionLoggingContext",) if trivial_context_manager(ck.repo, fi.file, c)}
    cfg.drop_exc_edges(lambda n: n.kind == "with" and all(isinstance(it.context_expr, ast.Call) and q.call_attr(it.context_expr) in triv for it in n.ast.items))
    dp = _delegate_param(fi)
    closes = call_sites(fi, dp + ".on_connection_close")
    fins = call_sites(fi, dp + ".finish")
    hdrs = call_sites(fi, dp + ".headers_received")
    ck.floor("C05.ts", len(closes), 1, "on_connection_close call sites")
    ck.floor("C05.ts", len(fins), 1, "finish call sites")
    ck.floor("C05.ts", len(hdrs), 1, "headers_received call sites")
    # the flag: a local Name whose truth guards every close notification
    facts = must_facts(cfg)
    flag = None
    for node, c in closes:
        names = [t for (t, pol) in facts[node.id] if pol and t.isidentifier()]
        if not names:
            ck.ob("C05.close-guarded", fi, c, False, "on_connection_close() must be guarded by the need-close flag")
            continue
        flag = names[0] if flag is None else flag
        ck.ob("C05.close-guarded", fi, c, flag in names, "on_connection_close() guarded by flag %s" % flag)
    if flag is None:
        return 0
    close_ids = {n.id for n, _ in closes}
    fin_ids = {n.id for n, _ in fins}
    hdr_ids = {n.id for n, _ in hdrs}

    # abstract value: (flag, headers, nfinish, nclose, detached)
    def transfer(n, val):
        flagv, hdr, nf, nc, det = val
        if n.kind == "stmt" and isinstance(n.ast, (ast.Assign, ast.AnnAssign)) and flag in q.assigned_paths(n.ast):
            v = n.ast.value
            if isinstance(v, ast.Constant) and isinstance(v.value, bool):
                flagv = v.value
            else:
                flagv = None
        if n.id in hdr_ids:
            hdr = True
        if n.id in fin_ids:
            nf = min(nf + 1, 2)
        if n.id in close_ids:
            nc = min(nc + 1, 2)
        return (flagv, hdr, nf, nc, det)

    def edge(n, kind, val):
        flagv, hdr, nf, nc, det = val
        if n.kind == "test":
            t, pol = canon_fact(n.ast, kind == "true")
            if t == flag and flagv is not None and kind in ("true", "false"):
                if pol != flagv:
                    return None
            if t == "self.is_client" and kind in ("true", "false") and pol != is_client:
                return None
            if t == "self.stream is None" and pol and kind == "true":
                det = True
        return (flagv, hdr, nf, nc, det)

    seen = explore(cfg, (False, False, 0, 0, False), transfer, lambda t: t in ("self._write_finished",), edge_transfer=edge, exc_effect=True)
    n_states = 0
    for ex, exname in ((cfg.exit, "return"), (cfg.rexit, "raise")):
        for _facts, (flagv, hdr, nf, nc, det) in sorted(seen.get(ex.id, ()), key=repr):
            n_states += 1
            if not hdr:
                ok = nf == 0 and nc == 0
                ck.ob("C05.ts", fi, fi.node, ok, "no terminal notification before headers were delivered (exit=%s finish=%d close=%d)" % (exname, nf, nc),
                      construct="exit=%s headers=0 finish=%d close=%d" % (exname, nf, nc))
                continue
            if det and nf == 0 and nc == 0:
                ck.ob("C05.ts", fi, fi.node, True, "detached stream: no terminal notification expected (exit=%s)" % exname)
                continue
            ok = nf + nc == 1
            ck.ob("C05.ts", fi, fi.node, ok, "after headers exactly one of finish/close on every path (exit=%s finish=%d close=%d detached=%s)" % (exname, nf, nc, det),
                  construct="exit=%s headers=1 finish=%d close=%d detached=%s" % (exname, nf, nc, det))
    # R1: headers_received only with the flag armed
    armed = event_facts(
        fi,
        {"armed": lambda n: n.kind == "stmt" and isinstance(n.ast, ast.Assign) and flag in q.assigned_paths(n.ast) and isinstance(n.ast.value, ast.Constant) and n.ast.value.value is True},
        {"armed": lambda n: n.kind == "stmt" and isinstance(n.ast, ast.Assign) and flag in q.assigned_paths(n.ast) and not (isinstance(n.ast.value, ast.Constant) and n.ast.value.value is True)},
        cond_facts=False,
    )
    for node, c in hdrs:
        ck.ob("C05.armed-before-headers", fi, c, ("@armed", True) in armed[node.id], "%s = True dominates delegate.headers_received" % flag)
    # R2: finish only with the flag disarmed (so a raising finish() is not followed by close)
    disarmed = event_facts(
        fi,
        {"dis": lambda n: n.kind == "stmt" and isinstance(n.ast, ast.Assign) and flag in q.assigned_paths(n.ast) and isinstance(n.ast.value, ast.Constant) and n.ast.value.value is False},
        {"dis": lambda n: n.kind == "stmt" and isinstance(n.ast, ast.Assign) and flag in q.assigned_paths(n.ast) and not (isinstance(n.ast.value, ast.Constant) and n.ast.value.value is False)},
        cond_facts=False,
    )
    for node, c in fins:
        ck.ob("C05.disarmed-before-finish", fi, c, ("@dis", True) in disarmed[node.id], "%s = False dominates delegate.finish()" % flag)
    return n_states


def _reaches(cfg, start_ids, targets):
    seen = set(start_ids)
    st = list(start_ids)
    while st:
        x = st.pop()
        if x in targets:
            return True
        for y, _k in cfg.succ[x]:
            if y not in seen:
                seen.add(y)
                st.append(y)
    return False


def _truthy_equiv(e, names):
    """``e`` has the truth value of one of ``names`` (x, bool(x), not not x)."""
    while True:
        if isinstance(e, ast.Call) and q.call_attr(e) == "bool" and len(e.args) == 1:
            e = e.args[0]
        elif isinstance(e, ast.UnaryOp) and isinstance(e.op, ast.Not) and isinstance(e.operand, ast.UnaryOp) and isinstance(e.operand.op, ast.Not):
            e = e.operand.operand
        else:
            break
    return isinstance(e, ast.Name) and e.id in names


def _loop_exits(ck, loop):
    R = "C05.loop-exits-on-error"
    lcfg = loop.cfg
    reads = [n for n, c in lcfg.find(lambda x: q.is_call(x, ".read_response"))]
    if reads:
        _exits_in(ck, loop, lcfg, reads, mode="loop")
        return
    # per-request helper
    cls = loop.qualname.rsplit(".", 1)[0]
    helpers = []
    for n, c in lcfg.find(lambda x: isinstance(x, ast.Call) and isinstance(x.func, ast.Attribute) and q.dotted(x.func.value) == "self"):
        qn = cls + "." + c.func.attr
        if ck.repo.has_func(loop.file, qn):
            h = ck.func(loop.file, qn)
            if any(q.is_call(x, ".read_response") for x in q.walk_body(h.node)):
                helpers.append((n, c, h))
    if not helpers:
        raise AnalysisError("serving loop: no read_response call in the loop or in a same-class helper it calls (unknown idiom)")
    for n, c, h in helpers:
        hreads = [m for m, _c in h.cfg.find(lambda x: q.is_call(x, ".read_response"))]
        _exits_in(ck, h, h.cfg, hreads, mode="helper")
        # the loop must stop when the helper reports false: the call sits in (or feeds) a test whose false edge
        # cannot lead back to the call
        names = set()
        if n.kind == "stmt" and isinstance(n.ast, (ast.Assign, ast.AnnAssign)):
            names = {p_ for p_ in q.assigned_paths(n.ast) if p_.isidentifier()}
        tests = [t for t in lcfg.stmt_nodes(lambda t: t.kind == "test" and (t is n or q.dotted(t.ast) in names))]
        if not tests:
            ck.ob(R, loop, c, False, "the result of the per-request helper is tested by the serving loop", construct="helper result ignored")
            continue
        for t in tests:
            false_succ = [sid for sid, k in lcfg.succ[t.id] if k == "false"]
            ck.ob(R, loop, t.ast, not _reaches(lcfg, false_succ, {n.id}), "a false result of the per-request helper ends the serving loop", construct="false result of per-request helper")


def _exits_in(ck, fi, cfg, reads, mode):
    """mode 'loop': error handlers / a false result must not lead back to read_response.
    mode 'helper': on those paths the helper returns a false value (or raises)."""
    R = "C05.loop-exits-on-error"
    ck.floor(R, len(reads), 1, "read_response call sites")
    read_ids = {n.id for n in reads}
    facts = must_facts(cfg)
    res_names = set()
    for n in reads:
        if n.kind == "stmt" and isinstance(n.ast, (ast.Assign, ast.AnnAssign)):
            res_names |= {p_ for p_ in q.assigned_paths(n.ast) if p_.isidentifier()}

    def returns_from(start_ids):
        seen = set(start_ids)
        st = list(start_ids)
        out = []
        while st:
            x = st.pop()
            nd = cfg.nodes[x]
            if nd.kind == "stmt" and isinstance(nd.ast, ast.Return):
                out.append(nd)
                continue
            for y, k in cfg.succ[x]:
                if y not in seen and k != "exc":
                    seen.add(y)
                    st.append(y)
        return out

    def false_return(nd):
        v = nd.ast.value
        if v is None or (isinstance(v, ast.Constant) and not v.value):
            return True
        if _truthy_equiv(v, res_names):
            return any(t in res_names and pol is False for t, pol in facts[nd.id]) or None  # None: depends on the result
        return False

    nh = 0
    for t in [x for x in q.walk_body(fi.node) if isinstance(x, ast.Try)]:
        if not any(q.is_call(c, ".read_response") for st in t.body for c in q.calls(st)):
            continue
        for h in t.handlers:
            hn = [n for n in cfg.nodes if n.kind == "handler" and n.ast is h]
            if not hn:
                continue
            nh += 1
            if mode == "loop":
                ok = not _reaches(cfg, [hn[0].id], read_ids)
                what = "an error while reading a request ends the serving loop (no path from the handler back to read_response)"
            else:
                rets = returns_from([hn[0].id])
                ok = all(false_return(r) is True for r in rets) and not _reaches(cfg, [hn[0].id], read_ids)
                what = "an error while reading a request makes the per-request helper return a false value (or raise)"
            ck.ob(R, fi, h, ok, what, construct="except %s" % ",".join(q.handler_names(h)))
    ck.floor(R, nh, 2, "handlers around read_response")
    tests = [n for n in cfg.stmt_nodes(lambda n: n.kind == "test" and q.dotted(n.ast) in res_names)]
    if mode == "loop":
        if not tests:
            for n in reads:
                nxt = [sid for sid, k in cfg.succ[n.id] if k != "exc"]
                if _reaches(cfg, [y for x in nxt for y, _k in cfg.succ[x]] + [x for x in nxt if x not in read_ids], read_ids):
                    ck.ob(R, fi, n.ast, False, "the result of read_response is never tested although the loop goes on to the next request", construct="result of read_response ignored")
            if not res_names:
                raise AnalysisError("serving loop: cannot find the test of read_response's result (unknown idiom)")
        for tn in tests:
            false_succ = [sid for sid, k in cfg.succ[tn.id] if k == "false"]
            ck.ob(R, fi, tn.ast, not _reaches(cfg, false_succ, read_ids), "a false result of read_response (connection closed or to be closed) ends the serving loop", construct="false result of read_response")
    else:
        # helper: every normal return after the read is false when the result is false
        if not res_names:
            raise AnalysisError("per-request helper: result of read_response is not bound to a name (unknown idiom)")
        for n in reads:
            for r in returns_from([sid for sid, k in cfg.succ[n.id] if k != "exc"]):
                fr = false_return(r)
                known_true = any(t in res_names and pol is True for t, pol in facts[r.id])
                ok = fr is True or fr is None or known_true
                ck.ob(R, fi, r.ast, ok, "the per-request helper returns a true value only when read_response returned a true value", construct="return after read_response")


def _guard_signature(fi, call):
    """Truth table of the condition under which ``call`` executes inside ``fi``, as far as it is decided by the
    enclosing `if` statements: (atoms, frozenset of satisfying assignments).  Atoms are the dotted paths tested
    (self._write_finished, self.is_client, ...).  Equivalent spellings (De Morgan, swapped branches, nested
    ifs) give the same table.  Raises AnalysisError for shapes it cannot fold."""
    import itertools

    import copy as _copy

    class _CallAtoms(ast.NodeTransformer):
        # a zero-argument method call on a dotted path (fut.done(), stream.closed()) is an opaque boolean atom
        def visit_Call(self, node):
            d = q.dotted(node.func)
            if d and not node.args and not node.keywords:
                return ast.copy_location(ast.Name(id=d + "()", ctx=ast.Load()), node)
            return self.generic_visit(node)

    pm = q.parent_map(fi.node)
    conds = []  # (test expr, polarity)
    child = call
    for a in q.ancestors(pm, call):
        if isinstance(a, q.ScopeNode):
            break
        if isinstance(a, ast.If):
            in_body = any(child is s_ for s_ in a.body)
            in_else = any(child is s_ for s_ in a.orelse)
            if in_body or in_else:
                conds.append((_CallAtoms().visit(_copy.deepcopy(a.test)), in_body))
        child = a
    atoms = sorted({d for t, _p in conds for d in (q.dotted(n) for n in ast.walk(t) if isinstance(n, (ast.Attribute, ast.Name))) if d and not any(isinstance(p_, ast.Attribute) and p_.value is n2 for n2 in [None] for p_ in [None] if False)})
    # keep maximal dotted paths only
    atoms = [a for a in atoms if not any(b != a and b.startswith(a + ".") for b in atoms)]
    sat = set()
    for vals in itertools.product((False, True), repeat=len(atoms)):
        env = dict(zip(atoms, vals))
        try:
            ok = all(bool(q.fold(t, env)) == pol for t, pol in conds)
        except q.NotFoldable as e:
            raise AnalysisError("%s: guard of %s cannot be folded (%s)" % (fi.qualname, q.unparse(call), e))
        if ok:
            sat.add(vals)
    return (tuple(atoms), frozenset(sat))


def _same_guard(a, b):
    """Two guard tables agree (over the union of their atoms)."""
    import itertools

    atoms = sorted(set(a[0]) | set(b[0]))

    def holds(tab, env):
        return tuple(env[x] for x in tab[0]) in tab[1]

    for vals in itertools.product((False, True), repeat=len(atoms)):
        env = dict(zip(atoms, vals))
        if holds(a, env) != holds(b, env):
            return False
    return True


def _delivery_agreement(ck, rm):
    R = "C05.finish-iff-delivered"
    dp = _delegate_param(rm)
    fin = [c for _n, c in call_sites(rm, dp + ".finish")]
    if not fin:
        return
    fsigs = [_guard_signature(rm, c) for c in fin]
    if any(not _same_guard(fsigs[0], x) for x in fsigs[1:]):
        raise AnalysisError("delegate.finish() is called under differing guards in %s" % rm.qualname)
    fsig = fsigs[0]
    n = 0
    cls = rm.qualname.rsplit(".", 1)[0]
    for reader in ck.repo.direct_methods(rm.file, cls):
        if reader is rm or not reader.name.startswith("_read_"):
            continue
        ps = [p_ for p_ in reader.params() if p_ != "self"]
        sites = [c for c in q.calls(reader.node) if isinstance(c.func, ast.Attribute) and c.func.attr == "data_received" and q.dotted(c.func.value) in ps]
        for c in sites:
            n += 1
            sig = _guard_signature(reader, c)
            # conditions of the reader on its own data (e.g. `if ret is not None`) do not concern the agreement:
            # compare only over the connection-state atoms both sides mention
            ck.use(reader)
            common = [a_ for a_ in sig[0] if a_.startswith("self.")]
            proj = (tuple(common), frozenset(tuple(v for a_, v in zip(sig[0], vals) if a_ in common) for vals in sig[1]))
            ck.ob(R, reader, c, _same_guard(proj, fsig), "body chunks are delivered under the same connection-state condition as delegate.finish() (atoms %s vs %s)" % (list(proj[0]), list(fsig[0])))
    ck.floor(R, n, 2, "data_received sites in the body readers")


def _settling_helpers(ck, fi, depth=0):
    """Names of same-class methods (two levels) that settle self._finish_future on every normal path or
    leave it done."""
    from ..rules import settle_sites

    cls = fi.qualname.rsplit(".", 1)[0]
    out = set()
    for c in q.calls(fi.node):
        if isinstance(c.func, ast.Attribute) and q.dotted(c.func.value) == "self" and ck.repo.has_func(fi.file, cls + "." + c.func.attr):
            h = ck.repo.func(fi.file, cls + "." + c.func.attr)
            if h is fi:
                continue
            if settle_sites(h, "self._finish_future") or (depth < 1 and _settling_helpers(ck, h, depth + 1)):
                if _ended_states(ck, h, depth + 1) is True:
                    out.add(c.func.attr)
    return out


def _ended_states(ck, fi, depth=0):
    """True if on every normal path of ``fi`` the finish future is settled (directly or through a settling
    helper) or known done; False if some path leaves it pending; None if undecidable."""
    from ..rules import settle_sites

    cfg = fi.cfg
    direct = {n.id for n, _c, _p, _k in settle_sites(fi, "self._finish_future")}
    helpers = _settling_helpers(ck, fi, depth) if depth < 2 else set()
    hcalls = {n.id for n, c in cfg.find(lambda x: isinstance(x, ast.Call) and isinstance(x.func, ast.Attribute) and q.dotted(x.func.value) == "self" and x.func.attr in helpers)}
    if not direct and not hcalls:
        return None

    def transfer(n, val):
        return True if (n.id in direct or n.id in hcalls) else val

    def edge(n, kind, val):
        # "done" is monotone: once the future is known done it stays done, whatever is called afterwards
        if n.kind == "test" and kind in ("true", "false"):
            t, pol = canon_fact(n.ast, kind == "true")
            if t == "self._finish_future.done()" and pol:
                return True
        return val

    seen = explore(cfg, False, transfer, lambda t: False, edge_transfer=edge, follow_exc=False)
    return all(val for _facts, val in seen.get(cfg.exit.id, ()))


def _wait_ended_on_every_path(ck, occ):
    r = _ended_states(ck, occ)
    if r is None:
        return
    ck.ob("C05.wait-close-callback", occ, occ.node, r, "on every normal path of the stream close callback the wait is ended: _finish_future is settled or already done", construct="exit with _finish_future possibly pending")


def _ends_wait(ck, fi, depth):
    """Number of guarded settles of self._finish_future in ``fi`` or in the same-class methods it calls
    (two levels): every settle found must be guarded (checked as obligations)."""
    from ..rules import check_settles

    n = check_settles(ck, "C05.wait-close-callback", fi, "self._finish_future")
    if depth >= 2:
        return n
    cls = fi.qualname.rsplit(".", 1)[0]
    seen = set()
    for c in q.calls(fi.node):
        if isinstance(c.func, ast.Attribute) and q.dotted(c.func.value) == "self" and c.func.attr not in seen:
            seen.add(c.func.attr)
            if ck.repo.has_func(fi.file, cls + "." + c.func.attr):
                n += _ends_wait(ck, ck.func(fi.file, cls + "." + c.func.attr), depth + 1)
    return n


def forwarding(ck, fi, method):
    """In adapter method ``fi`` (named ``method``) the same-named method of a
    wrapped delegate (an attribute of self) is called exactly once on every
    normal-return path — or not at all only where the wrapped delegate is None."""
    cfg = fi.cfg
    fwd = [(n, c) for n, c in cfg.find(lambda x: isinstance(x, ast.Call) and isinstance(x.func, ast.Attribute) and x.func.attr == method and (q.dotted(x.func.value) or "").startswith("self."))]
    if not fwd:
        return False
    wrapped = q.dotted(fwd[0][1].func.value)
    ids = {}
    for n, c in fwd:
        ids.setdefault(n.id, 0)
        ids[n.id] += 1

    def transfer(n, val):
        return min(val + ids.get(n.id, 0), 2)

    seen = explore(cfg, 0, transfer, lambda t: t == "%s is None" % wrapped, follow_exc=False)
    for facts, cnt in sorted(seen.get(cfg.exit.id, ()), key=repr):
        none_path = ("%s is None" % wrapped, True) in facts
        ok = cnt == 1 or (cnt == 0 and none_path)
        ck.ob("C05.forward", fi, fi.node, ok, "%s forwards %s() to %s exactly once on every normal path (count=%d%s)" % (fi.qualname, method, wrapped, cnt, ", wrapped is None" if none_path else ""),
              construct="forward %s count=%d none=%s" % (method, cnt, none_path))
    return True


ADAPTERS = [("tornado/httpserver.py", "_ProxyAdapter"), ("tornado/routing.py", "_RoutingDelegate"), (H1, "_GzipMessageDelegate")]
TERMINALS = [("tornado/httpserver.py", "_CallableAdapter"), ("tornado/web.py", "_HandlerDelegate")]


def run(ck):
    ck.rule("C05.ts", "typestate on _read_message (server mode): on every path (incl. exception edges) after delegate.headers_received started, exactly one of delegate.finish / delegate.on_connection_close happens; none before; detached streams exempt")
    ck.rule("C05.close-guarded", "delegate.on_connection_close() is only called under the need-close flag")
    ck.rule("C05.armed-before-headers", "the need-close flag is set True on every path before delegate.headers_received")
    ck.rule("C05.disarmed-before-finish", "the need-close flag is set False on every path before delegate.finish() (a raising finish is not followed by close)")
    ck.rule("C05.loop-on-close", "HTTP1ServerConnection._server_request_loop: delegate.on_close(self) is passed on every path to either exit")
    ck.rule("C05.server-on-close", "HTTPServer.on_close removes the connection from the set close_all_connections loops on; connections are added before serving starts")
    ck.rule("C05.close-order", "HTTP1ServerConnection.close closes the stream before awaiting the serving future; close_all_connections awaits conn.close() while the set is non-empty")
    ck.rule("C05.wait-close-callback", "while waiting for the application's response a disconnect is delivered: the stream close callback is armed after the body was read and before the wait; it invokes the application's callback by take-and-clear and ends the wait")
    ck.rule("C05.loop-exits-on-error", "the per-connection serving loop terminates when reading a request fails or returns false, so that close_all_connections completes")
    ck.rule("C05.finish-iff-delivered", "delegate.finish() is called under the same condition under which the body readers deliver data_received (a delegate whose body chunks were diverted is not told 'finished')")
    ck.rule("C05.forward", "forwarding delegates call the same-named terminal method of the wrapped delegate exactly once on every normal path")
    ck.rule("C05.terminal-siblings", "every HTTPMessageDelegate implementation that overrides finish also overrides on_connection_close (and vice versa)")

    fi = ck.func(H1, "HTTP1Connection._read_message")
    n = typestate_read_message(ck, fi)
    ck.floor("C05.ts", n, 4, "exit states")

    # server loop: on_close on every path to both exits
    loop = ck.func(H1, "HTTP1ServerConnection._server_request_loop")
    dp = _delegate_param(loop)
    oc = call_sites(loop, dp + ".on_close")
    ck.floor("C05.loop-on-close", len(oc), 1, "on_close call sites")
    ef = event_facts(loop, {"oc": node_calls(dp + ".on_close")}, cond_facts=False, exc_gen=True)
    for ex, nm in ((loop.cfg.exit, "return"), (loop.cfg.rexit, "raise")):
        if ex.id in ef and loop.cfg.pred[ex.id]:
            ck.ob("C05.loop-on-close", loop, loop.node, ("@oc", True) in ef[ex.id], "delegate.on_close(self) on every path to %s exit" % nm, construct="exit=%s" % nm)
    # the argument is the server connection itself
    for node, c in oc:
        ck.ob("C05.loop-on-close", loop, c, len(c.args) == 1 and q.dotted(c.args[0]) == "self", "on_close is told which connection closed (self)")

    # HTTPServer bookkeeping
    HS = "tornado/httpserver.py"
    onc = ck.func(HS, "HTTPServer.on_close")
    rem = [c for c in q.calls(onc.node) if isinstance(c.func, ast.Attribute) and c.func.attr in ("remove", "discard") and q.dotted(c.func.value) == "self._connections"]
    ck.ob("C05.server-on-close", onc, onc.node, len(rem) == 1, "on_close removes server_conn from self._connections")
    hs = ck.func(HS, "HTTPServer.handle_stream")
    require_before(ck, "C05.server-on-close", hs, node_calls(".start_serving"), node_calls("self._connections.add"), "connection registered before start_serving")
    cac = ck.func(HS, "HTTPServer.close_all_connections")
    awaited_close = [n for n in q.walk_body(cac.node) if isinstance(n, ast.Await) and isinstance(n.value, ast.Call) and q.call_attr(n.value) == "close"]
    ck.ob("C05.close-order", cac, cac.node, len(awaited_close) >= 1, "close_all_connections awaits conn.close()")
    conn_aliases = {"self._connections"}
    for n in q.walk_body(cac.node):
        if isinstance(n, ast.Assign) and q.dotted(n.value) == "self._connections":
            conn_aliases |= {q.dotted(t) for t in n.targets if q.dotted(t)}
    def _nonempty(t):
        if q.dotted(t) in conn_aliases:
            return True
        if isinstance(t, ast.Compare) and len(t.ops) == 1 and isinstance(t.left, ast.Call) and q.call_attr(t.left) == "len" and t.left.args and q.dotted(t.left.args[0]) in conn_aliases and isinstance(t.comparators[0], ast.Constant):
            op, k = t.ops[0], t.comparators[0].value
            return (isinstance(op, (ast.Gt, ast.NotEq)) and k == 0) or (isinstance(op, ast.GtE) and k == 1)
        if isinstance(t, ast.Call) and q.call_attr(t) in ("len", "bool") and t.args and q.dotted(t.args[0]) in conn_aliases:
            return True
        return False

    loops = [n for n in q.walk_body(cac.node) if isinstance(n, ast.While) and _nonempty(n.test)]
    if not loops and awaited_close:
        raise AnalysisError("close_all_connections: the loop around `await conn.close()` is not a `while <connection set>` loop (unknown idiom)")
    ck.ob("C05.close-order", cac, cac.node, len(loops) == 1 and all(any(a is x for x in ast.walk(loops[0])) for a in awaited_close), "the await sits in a loop that runs while self._connections is non-empty")
    sc = ck.func(H1, "HTTP1ServerConnection.close")
    nb = require_before(ck, "C05.close-order", sc, lambda n: n.suspends, node_calls("self.stream.close"), "stream closed before awaiting the serving future")
    ck.floor("C05.close-order", nb, 1, "awaits in HTTP1ServerConnection.close")

    # "told it finished" must mean "received the whole body": the condition under which body chunks are
    # delivered to the delegate in the body readers and the condition under which delegate.finish() is called
    # are the same predicate (sibling agreement).  A delegate whose chunks were diverted (early response)
    # must be told "closed", not "finished".
    _delivery_agreement(ck, fi)

    # close while waiting for the response: the stream close callback is armed only after the whole
    # request was read (before that a close surfaces as StreamClosedError inside the try and is reported
    # through the flag), and before the wait
    nreg = 0
    regs = [(n, c) for n, c in call_sites(fi, "self.stream.set_close_callback") if c.args and q.dotted(c.args[0]) == "self._on_connection_close"]
    rf = event_facts(fi, {"rf": lambda n: n.kind == "stmt" and isinstance(n.ast, ast.Assign) and "self._read_finished" in q.assigned_paths(n.ast) and isinstance(n.ast.value, ast.Constant) and n.ast.value.value is True}, cond_facts=False)
    for node, c in regs:
        nreg += 1
        ck.ob("C05.wait-close-callback", fi, c, ("@rf", True) in rf[node.id], "the connection's close callback is registered on the stream only after the request body was read (self._read_finished = True)")
    waits = [n for n in fi.cfg.stmt_nodes(lambda n: n.suspends and any(isinstance(x, ast.Await) and q.dotted(x.value) == "self._finish_future" for x in q.walk_local(n.ast)))]
    reg_ev = event_facts(fi, {"reg": lambda n: any(n is m for m, _ in regs)}, cond_facts=False)
    for w in waits:
        nreg += 1
        ck.ob("C05.wait-close-callback", fi, w.ast, ("@reg", True) in reg_ev[w.id], "waiting for the response (await self._finish_future) happens with the close callback registered, so a disconnect ends the wait")
    ck.floor("C05.wait-close-callback", nreg, 2, "registration/wait sites")
    occ = ck.func(H1, "HTTP1Connection._on_connection_close")
    from ..rules import check_take_and_clear, check_settles
    ntc = check_take_and_clear(ck, "C05.wait-close-callback", occ, "self._close_callback", "the application's close callback is taken and cleared before it is invoked (at most once)")
    ck.floor("C05.wait-close-callback", ntc, 1, "uses of self._close_callback in _on_connection_close")
    ns = _ends_wait(ck, occ, 0)
    _wait_ended_on_every_path(ck, occ)
    ck.floor("C05.wait-close-callback", ns, 1, "settles of _finish_future reachable from _on_connection_close (a disconnect must end the wait)")

    # the serving loop ends when the connection is gone: neither an error while reading a request nor a
    # false result may lead back to another read_response (decided by reachability on the CFG, so
    # `return`, `break` and flag variables are all fine).  If the per-request part was extracted into a
    # same-class helper, the helper must return a false value on those paths and the loop must stop on it.
    _loop_exits(ck, loop)

    # adapters
    nf = 0
    for rel, cls in ADAPTERS:
        for m in ("finish", "on_connection_close"):
            f = ck.func(rel, "%s.%s" % (cls, m))
            if not forwarding(ck, f, m):
                ck.ob("C05.forward", f, f.node, False, "%s.%s does not forward to a wrapped delegate" % (cls, m))
            nf += 1
    ck.floor("C05.forward", nf, 6, "adapter methods")
    for rel, cls in ADAPTERS + TERMINALS:
        has_f = ck.repo.has_func(rel, cls + ".finish")
        has_c = ck.repo.has_func(rel, cls + ".on_connection_close")
        ck.ob("C05.terminal-siblings", None, ck.repo.cls(rel, cls), has_f and has_c, "%s overrides both finish and on_connection_close" % cls, construct=cls, file=rel)


def _in(rel, qn, edit):
    return lambda repo: mutate(repo, rel, qn, edit)


def _is_assign(st, name, value):
    return isinstance(st, ast.Assign) and any(isinstance(t, ast.Name) and t.id == name for t in st.targets) and isinstance(st.value, ast.Constant) and st.value.value is value


def _drop_second_false(root):
    # delete `need_delegate_close = False` that precedes delegate.finish()
    for node in ast.walk(root):
        body = getattr(node, "body", None)
        if isinstance(body, list):
            for i, st in enumerate(body[:-1]):
                if _is_assign(st, "need_delegate_close", False) and isinstance(body[i + 1], ast.With) and "finish" in ast.unparse(body[i + 1]):
                    del body[i]
                    return True
    return False


def _drop_detach_false(root):
    for node in ast.walk(root):
        body = getattr(node, "body", None)
        if isinstance(body, list):
            for i, st in enumerate(body[:-1]):
                if _is_assign(st, "need_delegate_close", False) and isinstance(body[i + 1], ast.Return):
                    del body[i]
                    return True
    return False


def _move_true_after_headers(root):
    for node in ast.walk(root):
        body = getattr(node, "body", None)
        if isinstance(body, list):
            for i, st in enumerate(body[:-1]):
                if _is_assign(st, "need_delegate_close", True) and "headers_received" in ast.unparse(body[i + 1]):
                    body[i], body[i + 1] = body[i + 1], body[i]
                    return True
    return False


def _move_stmt_before(root, pick, anchor):
    """Move the first statement matching ``pick`` (searched anywhere) to just before the first
    statement matching ``anchor``."""
    picked = None
    for node in ast.walk(root):
        for fld in ("body", "orelse", "finalbody"):
            body = getattr(node, fld, None)
            if isinstance(body, list):
                for i, st in enumerate(body):
                    if picked is None and isinstance(st, ast.stmt) and pick(st):
                        picked = st
                        if len(body) == 1:
                            body[i] = ast.Pass()
                        else:
                            del body[i]
                        break
    if picked is None:
        return False
    for node in ast.walk(root):
        for fld in ("body", "orelse", "finalbody"):
            body = getattr(node, fld, None)
            if isinstance(body, list):
                for i, st in enumerate(body):
                    if isinstance(st, ast.stmt) and anchor(st):
                        body.insert(i, picked)
                        return True
    return False


def _on_close_out_of_finally(root):
    for node in ast.walk(root):
        if isinstance(node, ast.Try) and node.finalbody and "on_close" in ast.unparse(node.finalbody[0]):
            node.body = node.body + node.finalbody
            node.finalbody = [ast.Pass()]
            return True
    return False


MUTANTS = [
    ("drop 'flag = False' before delegate.finish()", _in(H1, "HTTP1Connection._read_message", _drop_second_false), ("C05.ts", "C05.disarmed-before-finish")),
    ("arm the flag after headers_received", _in(H1, "HTTP1Connection._read_message", _move_true_after_headers), ("C05.ts", "C05.armed-before-headers")),
    ("unconditional on_connection_close in finally", _in(H1, "HTTP1Connection._read_message", replace_expr(lambda n: isinstance(n, ast.Name) and n.id == "need_delegate_close" and isinstance(n.ctx, ast.Load), lambda n: ast.Constant(value=True))), None),
    ("on_close taken out of finally", _in(H1, "HTTP1ServerConnection._server_request_loop", _on_close_out_of_finally), "C05.loop-on-close"),
    ("_ProxyAdapter.finish does not forward", _in("tornado/httpserver.py", "_ProxyAdapter.finish", remove_stmts(lambda st: "delegate.finish" in ast.unparse(st))), "C05.forward"),
    ("_GzipMessageDelegate.on_connection_close forwards twice", _in(H1, "_GzipMessageDelegate.on_connection_close", replace_stmt(lambda st: isinstance(st, ast.Return), lambda st: [parse_stmt("self._delegate.on_connection_close()"), st])), "C05.forward"),
    ("HTTPServer.on_close forgets to remove", _in("tornado/httpserver.py", "HTTPServer.on_close", replace_stmt(lambda st: "remove" in ast.unparse(st), lambda st: [ast.Pass()])), "C05.server-on-close"),
    ("close callback registered before the body is read", _in(H1, "HTTP1Connection._read_message", lambda root: _move_stmt_before(root, lambda st: "set_close_callback(self._on_connection_close)" in ast.unparse(st) and isinstance(st, ast.Expr), lambda st: isinstance(st, ast.Assign) and "skip_body" in ast.unparse(st.targets[0]))), "C05.wait-close-callback"),
    ("_on_connection_close calls the callback without clearing it", _in(H1, "HTTP1Connection._on_connection_close", remove_stmts(lambda st: isinstance(st, ast.Assign) and "self._close_callback" in q.assigned_paths(st))), "C05.wait-close-callback"),
    ("_on_connection_close does not end the wait", _in(H1, "HTTP1Connection._on_connection_close", remove_stmts(lambda st: isinstance(st, ast.If) and "_finish_future" in ast.unparse(st.test))), "C05.wait-close-callback"),
    ("serving loop swallows StreamClosedError and continues", _in(H1, "HTTP1ServerConnection._server_request_loop", replace_stmt(lambda st: isinstance(st, ast.Return) and st.value is None, lambda st: [ast.Continue()])), "C05.loop-exits-on-error"),
    ("serving loop ignores a false read_response result", _in(H1, "HTTP1ServerConnection._server_request_loop", remove_stmts(lambda st: isinstance(st, ast.If) and isinstance(st.test, ast.UnaryOp) and isinstance(st.body[0], ast.Return))), "C05.loop-exits-on-error"),
    ("finish() guarded by the finish future instead of _write_finished", _in(H1, "HTTP1Connection._read_message", replace_expr(lambda n: isinstance(n, ast.Attribute) and n.attr == "_write_finished" and isinstance(n.ctx, ast.Load), lambda n: ast.parse("self._finish_future.done()", mode="eval").body, limit=5)), None),
    ("_on_connection_close returns early when no close callback is registered", _in(H1, "HTTP1Connection._on_connection_close", lambda root: (root.body.insert(0, parse_stmt("if self._close_callback is None:\n    return")) or True)), "C05.wait-close-callback"),
    ("await serving future before closing stream", _in(H1, "HTTP1ServerConnection.close", remove_stmts(lambda st: "self.stream.close" in ast.unparse(st))), "C05.close-order"),
]
