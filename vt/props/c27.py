"""C27 — static range / conditional responses.

Decided statically (DESIGN.md §4 C27):
* SINT (strict integers) on the Range parser: every ``int()`` on Range text needs
  an ASCII-digits guard proven by regex-language inclusion and a handled
  ValueError / length bound; a malformed header yields ``None`` (= ignored) and
  ``StaticFileHandler.get`` only unpacks a truthy parse result.
* HEAD = GET without body: ``head`` delegates to ``get(include_body=False)``; no
  status/header call of ``get`` is control-dependent on ``include_body``.
* Branch shape of ``get``: 304 under ``should_return_304()`` returns before any
  Content-Length/body; 416 sets ``Content-Range: bytes */<size>`` and returns
  before Content-Length/body; 206 is followed by ``Content-Range`` from
  ``_get_content_range(start, end, size)`` on every path; Content-Length dominates
  every body write; ``set_headers()`` (Etag, Last-Modified) precedes the 304 decision.
* ``get_content``: seek to ``start`` unless it is None before the first read, the
  byte budget ``remaining`` is decremented by every chunk before it is yielded
  and caps every read.
* 304 decision: If-None-Match takes precedence; the date parser cannot escape
  (handler returns False); naive dates are made aware before the comparison;
  weak comparison applies the same normaliser to both entity tags.
Not decided: the arithmetic on start/end/size (which status for which numbers,
slice equality) — value questions.
"""
from __future__ import annotations

import ast

from .. import q
from ..cfg import must_facts, holds
from ..rules import call_sites, node_calls, require_before, require_after
from ..mutate import mutate, remove_stmts, replace_expr, replace_stmt, parse_stmt, parse_expr
from ..model import AnalysisError, AnchorMissing
from ..x_sint import check_sint, int_sites
from ..x_paths import path_states, satisfied, reachable_from
from ..x_resolve import expand, resolve, unique_def
from ..x_resolve import call_arg as _ca

TECHNIQUE = "SINT (regex-language inclusion + exception-handler lookup) + must-pass-through/guard dominance and path-sensitive event-or-guard checks on the CFGs of the range/304 code"
EXPLANATION = (
    "int() sites of httputil._parse_request_range/_int_or_none are checked against the strict-integer rule (digits guard by automaton inclusion in [0-9]+, ValueError handled); "
    "the CFG of StaticFileHandler.get is checked for the 304/416/206 branch shapes, Content-Length before body, header calls independent of include_body; "
    "get_content for seek/budget discipline; should_return_304/check_etag_header for total date parsing, timezone normalisation before comparison and symmetric weak comparison."
)
NOT_DECIDED = (
    "the range arithmetic beyond the enumerated finite domain (first/last <= 9, sizes <= 6; decided exhaustively there by AST interpretation), value-position 'x or default' with a non-zero default, "
    "ETag value computation, and whitespace tolerance of the Range grammar beyond the integer fields"
)
LEVEL_NOTE = "structural necessary conditions; RequestHandler.set_header/flush/finish semantics are trusted (HEAD bodies are dropped by flush)"

HU = "tornado/httputil.py"
WEB = "tornado/web.py"
SFH = "StaticFileHandler"
HEADER_CALLS = ("self.set_header", "self.add_header", "self.clear_header", "self.set_status", "self.set_headers", "self.set_etag_header", "self.set_extra_headers", "self.redirect")


def _hdr_is(call, name):
    a = q.arg(call, 0, "name")
    return isinstance(a, ast.Constant) and isinstance(a.value, str) and a.value.lower() == name.lower()


def _status_is(call, code):
    a = q.arg(call, 0, "status_code")
    return isinstance(a, ast.Constant) and a.value == code


def _node_pred(pred):
    from ..rules import node_has
    return node_has(pred)


def _template(e):
    """Format skeleton of a string-building expression: f-string / % / .format -> text with {} holes, plus the hole expressions."""
    if isinstance(e, ast.JoinedStr):
        out, holes = "", []
        for v in e.values:
            if isinstance(v, ast.Constant):
                out += v.value
            else:
                out += "{}"
                holes.append(v.value)
        return out, holes
    if isinstance(e, ast.BinOp) and isinstance(e.op, ast.Mod) and isinstance(e.left, ast.Constant) and isinstance(e.left.value, str):
        import re as _re
        t = _re.sub(r"%[sdi]", "{}", e.left.value)
        holes = list(e.right.elts) if isinstance(e.right, ast.Tuple) else [e.right]
        return t, holes
    if isinstance(e, ast.Call) and isinstance(e.func, ast.Attribute) and e.func.attr == "format" and isinstance(e.func.value, ast.Constant):
        import re as _re
        return _re.sub(r"\{\d*\}", "{}", e.func.value.value), list(e.args)
    if isinstance(e, ast.Constant) and isinstance(e.value, str):
        return e.value, []
    return None, []


# ---------------------------------------------------------------------------


def rule_range_parser(ck):
    prr = ck.func(HU, "_parse_request_range")
    fns = [prr]
    if ck.repo.has_func(HU, "_int_or_none"):
        fns.append(ck.func(HU, "_int_or_none"))
    n = 0
    for fi in fns:
        n += check_sint(ck, "C27.sint", fi, mode="strict")
    ck.floor("C27.sint", n, 1, "int() sites in the Range parser")

    # the unit must be exactly "bytes": X == 'bytes' / X.startswith('bytes=') / a fullmatch dominates every integer conversion
    facts = must_facts(prr.cfg)
    conv = [(nd, c) for nd, c in prr.cfg.find(lambda x: isinstance(x, ast.Call) and (q.call_attr(x) in ("_int_or_none", "int")))]
    ck.floor("C27.invalid-ignored", len(conv), 1, "integer conversions in _parse_request_range")
    mentions_unit = any("bytes" in sv for sv in q.literal_strs(prr.node) if sv is not prr.node.body[0].value.value) if (prr.node.body and isinstance(prr.node.body[0], ast.Expr) and isinstance(prr.node.body[0].value, ast.Constant)) else any("bytes" in sv for sv in q.literal_strs(prr.node))

    def unit_fact(text, pol):
        try:
            e = ast.parse(text, mode="eval").body
        except SyntaxError:
            return False
        if isinstance(e, ast.Compare) and len(e.ops) == 1 and isinstance(e.ops[0], ast.Eq) and pol:
            return q.is_const(e.comparators[0], "bytes") or q.is_const(e.left, "bytes")
        if isinstance(e, ast.Call) and isinstance(e.func, ast.Attribute) and e.func.attr == "startswith" and pol and len(e.args) == 1:
            return q.is_const(e.args[0], "bytes=")
        if isinstance(e, ast.Call) and isinstance(e.func, ast.Attribute) and e.func.attr == "fullmatch" and pol:
            return True
        if isinstance(e, ast.Name) and pol:
            b = [x.value for x in q.walk_body(prr.node) if isinstance(x, (ast.Assign, ast.NamedExpr)) and e.id in (q.assigned_paths(x) if isinstance(x, ast.Assign) else {x.target.id})]
            return len(b) == 1 and isinstance(b[0], ast.Call) and q.call_attr(b[0]) == "fullmatch"
        return False

    for nd, c in conv:
        ok = any(unit_fact(t, pol) for t, pol in facts[nd.id] if not t.startswith("@"))
        if not ok and mentions_unit:
            # a 'bytes' literal is used in some other way: is it a recognisable weaker test?
            weak = [t for t, pol in facts[nd.id] if "bytes" in t]
            if not weak:
                raise AnalysisError("C27.invalid-ignored: the range unit is tested in an unrecognised way in _parse_request_range")
        ck.ob("C27.invalid-ignored", prr, c, ok, "the range unit is compared with exactly 'bytes' (other units return None) before %s" % q.unparse(c))
    # a malformed number makes the whole header ignored: the ValueError handler returns None
    pm = q.parent_map(prr.node)
    handlers = [h for t in q.walk_body(prr.node) if isinstance(t, ast.Try) for h in t.handlers if q.exc_is_caught("ValueError", q.handler_names(h))]
    for h in handlers:
        rets = [x for st in h.body for x in q.walk_local(st) if isinstance(x, ast.Return)]
        ok = bool(rets) and all(r.value is None or q.is_const(r.value, None) or (isinstance(r.value, ast.Tuple) and all(q.is_const(e, None) for e in r.value.elts)) for r in rets) and isinstance(h.body[-1], ast.Return)
        ck.ob("C27.invalid-ignored", prr, h, ok, "the ValueError handler of the Range parser returns None / (None, None) (header ignored)", construct="except ValueError handler")
    return n


def rule_get(ck):
    head = ck.func(WEB, SFH + ".head")
    get = ck.func(WEB, SFH + ".get")
    # --- HEAD delegates to get(include_body=False)
    gcalls = [c for c in q.calls(head.node) if q.dotted(c.func) == "self.get"]
    ck.need(len(gcalls) == 1, "StaticFileHandler.head does not call self.get exactly once (unknown idiom)")
    gc = gcalls[0]
    gparams = [p for p in get.params() if p != "self"]
    flag = None
    for kw in gc.keywords:
        if isinstance(kw.value, ast.Constant) and isinstance(kw.value.value, bool):
            flag = kw.arg
            flagval = kw.value.value
    if flag is None and len(gc.args) >= 2 and isinstance(gc.args[1], ast.Constant) and len(gparams) >= 2:
        flag, flagval = gparams[1], gc.args[1].value
    ck.need(flag is not None and flag in gparams, "cannot identify the include-body flag passed by head() to get()")
    ck.ob("C27.head", head, gc, flagval is False, "head() runs the GET logic with %s=False" % flag)
    rets = [r for r in q.walk_body(head.node) if isinstance(r, ast.Return) and r.value is not None and any(x is gc for x in ast.walk(r.value))]
    awaited = [a for a in q.walk_body(head.node) if isinstance(a, ast.Await) and any(x is gc for x in ast.walk(a))]
    ck.ob("C27.head", head, gc, bool(rets) or bool(awaited), "head() returns/awaits the awaitable of get() (the GET logic actually runs)")
    ck.ob("C27.head", head, gc, len(gc.args) >= 1 and q.dotted(gc.args[0]) == [p for p in head.params() if p != "self"][0], "head() passes its path on to get()")
    # default of the flag in get is True (GET sends the body)
    a = get.node.args
    allp = a.posonlyargs + a.args
    dflt = None
    for p, d in zip(allp[len(allp) - len(a.defaults):], a.defaults):
        if p.arg == flag:
            dflt = d
    for p, d in zip(a.kwonlyargs, a.kw_defaults):
        if p.arg == flag:
            dflt = d
    ck.ob("C27.head", get, get.node, dflt is not None and q.is_const(dflt, True), "get() sends the body by default (%s=True)" % flag, construct="default of %s" % flag)

    from ..x_resolve import widen_facts
    _mf = must_facts(get.cfg)

    class _Lazy(dict):
        def __missing__(self, k):
            self[k] = widen_facts(get, _mf[k])   # named booleans (not_modified = self.should_return_304()) are looked through
            return self[k]

    facts = _Lazy()
    hdr_sites = [(nd, c) for nd, c in get.cfg.find(lambda x: q.is_call(x, *HEADER_CALLS))]
    ck.floor("C27.head", len(hdr_sites), 6, "status/header calls in StaticFileHandler.get")
    for nd, c in hdr_sites:
        dep = [t for (t, pol) in facts[nd.id] if flag in q.names_in(ast.parse(t, mode="eval")) and not t.startswith("@")] if True else []
        ck.ob("C27.head", get, c, not dep, "%s is not control-dependent on %s (HEAD yields the same status and headers as GET)" % (q.unparse(c.func), flag))

    # --- names
    def assigned_from_call(name_pred):
        out = []
        for x in q.walk_body(get.node):
            if isinstance(x, ast.Assign) and len(x.targets) == 1 and isinstance(x.targets[0], ast.Name) and isinstance(x.value, ast.Call) and name_pred(x.value):
                out.append(x.targets[0].id)
        return out

    sizes = assigned_from_call(lambda c: q.dotted(c.func) == "self.get_content_size")
    ck.need(len(set(sizes)) == 1, "StaticFileHandler.get: size variable (self.get_content_size()) not identified")
    size = sizes[0]
    rrs = [a.targets[0].id for a in q.walk_body(get.node) if isinstance(a, ast.Assign) and len(a.targets) == 1 and isinstance(a.targets[0], ast.Name) and any(isinstance(c_, ast.Call) and q.call_attr(c_) == "_parse_request_range" for c_ in ast.walk(a.value))]
    ck.need(len(set(rrs)) == 1, "StaticFileHandler.get: parsed-range variable not identified")
    rr = rrs[0]
    unpack = [x for x in q.walk_body(get.node) if isinstance(x, ast.Assign) and isinstance(x.targets[0], ast.Tuple) and q.dotted(x.value) == rr and len(x.targets[0].elts) == 2]
    ck.need(len(unpack) == 1, "StaticFileHandler.get: 'start, end = <parsed range>' not found (unknown idiom)")
    start, end = [t.id for t in unpack[0].targets[0].elts]

    # --- an ignored (None) parse result is never unpacked
    for nd in get.cfg.nodes_for(unpack[0]):
        f = facts[nd.id]
        ok = holds(f, rr, True) or holds(f, "%s is None" % rr, False)
        ck.ob("C27.invalid-ignored", get, unpack[0], ok, "the parsed range is unpacked only when it is not None/falsy (an invalid Range header is ignored, not a 500)")

    # --- set_headers (Etag / Last-Modified) before the 304 decision
    n304 = require_before(ck, "C27.304", get, node_calls("self.should_return_304"), node_calls("self.set_headers"), "set_headers() (Etag, Last-Modified) runs before should_return_304() reads them")
    ck.floor("C27.304", n304, 1, "should_return_304 calls")
    require_before(ck, "C27.304", get, node_calls("self.should_return_304"), lambda nd: nd.kind == "stmt" and isinstance(nd.ast, (ast.Assign, ast.AnnAssign)) and "self.modified" in q.assigned_paths(nd.ast), "self.modified is set before should_return_304() compares it")

    body_pred = _node_pred(lambda x: q.is_call(x, "self.write", "self.flush", "self.get_content", "self.finish") or (q.is_call(x, "self.set_header") and _hdr_is(x, "Content-Length")))
    body_nodes = {nd.id for nd in get.cfg.stmt_nodes(body_pred)}
    ck.floor("C27.content-length", len(body_nodes), 3, "Content-Length/body nodes")

    # --- 304
    s304 = [(nd, c) for nd, c in call_sites(get, "self.set_status") if _status_is(c, 304)]
    ck.floor("C27.304", len(s304), 1, "set_status(304) sites")
    for nd, c in s304:
        under = holds(facts[nd.id], "self.should_return_304()", True)
        if not under and not any(q.is_call(c2, "self.should_return_304") for c2 in q.calls(get.node)):
            raise AnalysisError("C27.304: get() does not call should_return_304(); the 304 decision is made in an unrecognised way")
        ck.ob("C27.304", get, c, under, "304 is sent exactly under should_return_304()")
        reach = reachable_from(get.cfg, nd)
        ck.ob("C27.304", get, c, not (reach & body_nodes), "after set_status(304) no Content-Length, body write or content read is reachable (304 has no body)")
    # the 304 decision, when true, leads to 304 (no fall-through to the body): every should_return_304() true edge reaches a set_status(304)
    tests = get.cfg.stmt_nodes(lambda nd: nd.kind == "test" and q.is_call(nd.ast, "self.should_return_304"))
    for t in tests:
        tgt = [sid for sid, k in get.cfg.succ[t.id] if k == "true"]
        ok = bool(tgt) and all(get.cfg.nodes[s].id in {nd.id for nd, _ in s304} or any(x in {nd.id for nd, _ in s304} for x in reachable_from(get.cfg, get.cfg.nodes[s]) | {s}) and not ((reachable_from(get.cfg, get.cfg.nodes[s]) | {s}) & body_nodes) for s in tgt)
        ck.ob("C27.304", get, t.ast, ok, "a true should_return_304() leads to set_status(304) and never to the body")

    # --- 416
    s416 = [(nd, c) for nd, c in call_sites(get, "self.set_status") if _status_is(c, 416)]
    ck.floor("C27.416", len(s416), 1, "set_status(416) sites")
    def cr416(x):
        if not (q.is_call(x, "self.set_header") and _hdr_is(x, "Content-Range")):
            return False
        v = resolve(get, q.arg(x, 1, "value"))
        if isinstance(v, ast.Call) and q.call_attr(v) == "_get_content_range":
            return False
        t = _template(v)[0]
        if t is None:
            raise AnalysisError("C27.416: Content-Range value %s is built in an unrecognised way" % q.unparse(v))
        return t == "bytes */{}"
    require_after(ck, "C27.416", get, lambda nd: any(nd.id == n2.id for n2, _ in s416), _node_pred(cr416), "416 carries 'Content-Range: bytes */<size>' on every path to the return")
    for nd, c in get.cfg.find(cr416):
        t, holes = _template(resolve(get, q.arg(c, 1, "value")))
        ck.ob("C27.416", get, c, len(holes) == 1 and q.dotted(holes[0]) == size, "the unsatisfied-range Content-Range reports the resource size (%s)" % size)
    for nd, c in s416:
        reach = reachable_from(get.cfg, nd)
        ck.ob("C27.416", get, c, not (reach & body_nodes), "after set_status(416) no Content-Length/body is produced by get()")
        ck.ob("C27.416", get, c, holds(facts[nd.id], rr, True) or holds(facts[nd.id], "%s is None" % rr, False), "416 only for a syntactically valid Range (parsed range is truthy)")

    # --- 206
    s206 = [(nd, c) for nd, c in call_sites(get, "self.set_status") if _status_is(c, 206)]
    ck.floor("C27.206", len(s206), 1, "set_status(206) sites")

    def cr206(x):
        if not (q.is_call(x, "self.set_header") and _hdr_is(x, "Content-Range")):
            return False
        v = q.arg(x, 1, "value")
        v = resolve(get, v) if v is not None else v    # the value may travel through an explaining local
        return isinstance(v, ast.Call) and q.call_attr(v) == "_get_content_range"

    require_after(ck, "C27.206", get, lambda nd: any(nd.id == n2.id for n2, _ in s206), _node_pred(cr206), "206 carries Content-Range from _get_content_range on every path")
    for nd, c in get.cfg.find(cr206):
        v = resolve(get, q.arg(c, 1, "value"))
        gp_ = ck.func(HU, "_get_content_range").params()
        got3 = [q.dotted(_ca(ck.repo, get, v, i_, gp_[i_])) if _ca(ck.repo, get, v, i_, gp_[i_]) is not None else None for i_ in range(3)]
        ck.ob("C27.206", get, c, got3 == [start, end, size], "Content-Range is computed from (%s, %s, %s)" % (start, end, size))
        ck.ob("C27.206", get, c, any(("@s206" == "@s206") and nd.id in (reachable_from(get.cfg, n2) | {n2.id}) for n2, _ in s206), "a partial Content-Range is only sent together with status 206")
    for nd, c in s206:
        ck.ob("C27.206", get, c, holds(facts[nd.id], rr, True) or holds(facts[nd.id], "%s is None" % rr, False), "206 only for a syntactically valid Range")
    # Content-Range (any form) only under a valid Range
    for nd, c in get.cfg.find(lambda x: q.is_call(x, "self.set_header") and _hdr_is(x, "Content-Range")):
        ck.ob("C27.206", get, c, holds(facts[nd.id], rr, True) or holds(facts[nd.id], "%s is None" % rr, False), "Content-Range is only set when a valid Range was parsed (200 responses carry none)")

    # --- Content-Length before body
    ncl = require_before(ck, "C27.content-length", get, _node_pred(lambda x: q.is_call(x, "self.write", "self.flush", "self.get_content")), _node_pred(lambda x: q.is_call(x, "self.set_header") and _hdr_is(x, "Content-Length")), "Content-Length is set on every path before the body is read/written")
    ck.floor("C27.content-length", ncl, 2, "body nodes")
    # the content is read with the same (start, end) the headers were computed from
    gpar = [p_ for p_ in ck.func(WEB, SFH + ".get_content").params() if p_ not in ("self", "cls")]
    for nd, c in call_sites(get, "self.get_content"):
        got_ = [q.dotted(_ca(ck.repo, get, c, i_, gpar[i_])) if _ca(ck.repo, get, c, i_, gpar[i_]) is not None else None for i_ in (1, 2)]
        ck.ob("C27.content-length", get, c, got_ == [start, end], "get_content is asked for exactly the range (%s, %s) announced in the headers" % (start, end))


def rule_content_range(ck):
    fi = ck.func(HU, "_get_content_range")
    rets = [r for r in q.walk_body(fi.node) if isinstance(r, ast.Return) and r.value is not None]
    ck.need(rets, "_get_content_range returns nothing")
    params = fi.params()
    for r in rets:
        t, holes = _template(resolve(fi, r.value))
        if t is None:
            raise AnalysisError("C27.content-range: return value of _get_content_range is not a recognised string template")
        ck.ob("C27.content-range", fi, r, t == "bytes {}-{}/{}", "Content-Range has the form 'bytes <first>-<last>/<size>'")
        if len(holes) == 3:
            # what the holes *are* (locals looked through); the numbers themselves are decided by C27.range-model
            h = [expand(fi, x) for x in holes]
            ck.ob("C27.content-range", fi, r, q.dotted(h[2]) == params[2], "the complete length reported is the total parameter (%s)" % params[2])
            ck.ob("C27.content-range", fi, r, params[0] in q.names_in(h[0]) and params[1] in q.names_in(h[1]), "first/last positions are computed from the start/end parameters")


def rule_get_content(ck):
    fi = ck.func(WEB, SFH + ".get_content")
    ps = [p for p in fi.params() if p not in ("self", "cls")]
    ck.need(len(ps) >= 3, "get_content(abspath, start, end) signature changed")
    start, end = ps[1], ps[2]
    reads = call_sites(fi, ".read")
    ck.floor("C27.slice", len(reads), 1, "file.read sites in get_content")
    # seek(start) or start is None before every read
    st = path_states(fi, ["%s is None" % start], {"seek": _node_pred(lambda x: q.is_call(x, ".seek") and x.args and q.dotted(x.args[0]) == start)}, follow_exc=False)
    for nd, c in reads:
        ck.ob("C27.slice", fi, c, satisfied(st, nd, [("fact", "%s is None" % start, True), ("event", "seek")]) is True, "before reading, the file is positioned at %s unless it is None" % start)
    # the byte budget: a local assigned from an expression over `end`
    budgets = [x.targets[0].id if isinstance(x, ast.Assign) else x.target.id for x in q.walk_body(fi.node)
               if isinstance(x, (ast.Assign, ast.AnnAssign)) and isinstance(x.targets[0] if isinstance(x, ast.Assign) else x.target, ast.Name) and x.value is not None and end in q.names_in(x.value)]
    ck.need(len(set(budgets)) == 1, "get_content: byte budget derived from %s not identified (unknown idiom)" % end)
    rem = budgets[0]
    # on every path to a read: the budget was derived from `end` (and not reset to None since) unless end is None
    def sets_budget(n2):
        return n2.kind == "stmt" and isinstance(n2.ast, (ast.Assign, ast.AnnAssign)) and rem in q.assigned_paths(n2.ast) and n2.ast.value is not None and end in q.names_in(n2.ast.value)

    def clears_budget(n2):
        # a self-update (remaining = remaining - len(chunk)) keeps the budget in force
        return n2.kind == "stmt" and isinstance(n2.ast, (ast.Assign, ast.AnnAssign)) and rem in q.assigned_paths(n2.ast) and n2.ast.value is not None and not sets_budget(n2) and rem not in q.names_in(n2.ast.value)

    stb = path_states(fi, ["%s is None" % end], {"budget": sets_budget}, kills={"budget": clears_budget}, follow_exc=False)
    for nd, c in reads:
        ck.ob("C27.slice", fi, c, satisfied(stb, nd, [("fact", "%s is None" % end, True), ("event", "budget")]) is True, "whenever %s is given, a byte budget derived from it is in force at the read (unlimited only when %s is None)" % (end, end))
    facts = must_facts(fi.cfg)
    for nd in fi.cfg.stmt_nodes(sets_budget):
        v = nd.ast.value
        ok = isinstance(v, ast.BinOp) and isinstance(v.op, ast.Sub) and q.dotted(v.left) == end and start in q.names_in(v.right)
        if not ok and not isinstance(v, ast.BinOp):
            raise AnalysisError("get_content: budget expression %s not recognised" % q.unparse(v))
        ck.ob("C27.slice", fi, nd.ast, ok, "the budget is %s minus the start offset" % end)
    # every read is capped by the budget: read size is a local that is assigned the budget under `budget < size`
    chunk_vars = set()
    for nd, c in reads:
        a = c.args[0] if c.args else None
        if a is None:
            ck.ob("C27.slice", fi, c, False, "read() must be given a size capped by the remaining budget")
            continue
        szname = q.dotted(a)
        if isinstance(a, ast.Call) and q.call_attr(a) == "min" and rem in q.names_in(a):
            ck.ob("C27.slice", fi, c, True, "the read size is min(.., %s)" % rem)
        elif szname is None:
            raise AnalysisError("get_content: read size %s is not a variable or min() (unknown idiom)" % q.unparse(a))
        else:
            def is_cap(n2, szname=szname):
                if n2.kind != "stmt" or not isinstance(n2.ast, ast.Assign) or szname not in q.assigned_paths(n2.ast):
                    return False
                v = n2.ast.value
                return q.dotted(v) == rem or (isinstance(v, ast.Call) and q.call_attr(v) == "min" and rem in q.names_in(v))

            def is_reset(n2, szname=szname):
                return n2.kind == "stmt" and isinstance(n2.ast, (ast.Assign, ast.AugAssign, ast.AnnAssign)) and szname in q.assigned_paths(n2.ast) and not is_cap(n2)

            forms = ["%s < %s" % (rem, szname), "%s > %s" % (szname, rem), "%s >= %s" % (rem, szname), "%s <= %s" % (szname, rem)]
            st3 = path_states(fi, ["%s is None" % rem] + forms, {"cap": is_cap}, kills={"cap": is_reset}, follow_exc=False)
            alts = [("fact", "%s is None" % rem, True), ("event", "cap"), ("fact", forms[0], False), ("fact", forms[1], False), ("fact", forms[2], True), ("fact", forms[3], True)]
            ck.ob("C27.slice", fi, c, satisfied(st3, nd, alts) is True, "on every path to the read the size %s is capped by the remaining budget %s (or the budget is unlimited / not smaller)" % (szname, rem))
        # the cap is applied on every path to the read on which the budget is smaller: the size is re-initialised each iteration and the cap test sits between init and read
        pm = q.parent_map(fi.node)
        asg = pm.get(c)
        while asg is not None and not isinstance(asg, ast.stmt):
            asg = pm.get(asg)
        if isinstance(asg, ast.Assign) and isinstance(asg.targets[0], ast.Name):
            chunk_vars.add(asg.targets[0].id)
    ck.need(chunk_vars, "get_content: variable holding the chunk read not identified")
    # budget decremented by len(chunk) before the chunk is yielded
    def is_dec(x):
        def is_len(v):
            return isinstance(v, ast.Call) and q.is_call(v, "len") and v.args and q.dotted(v.args[0]) in chunk_vars
        if isinstance(x, ast.AugAssign) and isinstance(x.op, ast.Sub) and q.dotted(x.target) == rem:
            return is_len(x.value)
        if isinstance(x, (ast.Assign, ast.AnnAssign)) and rem in q.assigned_paths(x) and isinstance(x.value, ast.BinOp) and isinstance(x.value.op, ast.Sub) and q.dotted(x.value.left) == rem:
            return is_len(x.value.right)   # remaining = remaining - len(chunk)
        return False
    read_ids = {nd.id for nd, _ in reads}
    st2 = path_states(fi, ["%s is None" % rem], {"dec": lambda nd: nd.kind == "stmt" and is_dec(nd.ast)}, kills={"dec": lambda nd: nd.id in read_ids}, follow_exc=False)
    ys = fi.cfg.find(lambda x: isinstance(x, (ast.Yield, ast.YieldFrom)))
    ck.floor("C27.slice", len(ys), 1, "yield sites in get_content")
    for nd, y in ys:
        ck.ob("C27.slice", fi, y, satisfied(st2, nd, [("fact", "%s is None" % rem, True), ("event", "dec")]) is True, "the budget %s is reduced by len(chunk) for every chunk handed out (unless unlimited)" % rem)


def rule_304(ck):
    fi = ck.func(WEB, SFH + ".should_return_304")
    facts = must_facts(fi.cfg)
    # If-None-Match takes precedence: the etag check is returned under the header-present test
    rets = [(nd, nd.ast) for nd in fi.cfg.stmt_nodes(lambda nd: nd.kind == "stmt" and isinstance(nd.ast, ast.Return) and nd.ast.value is not None and q.is_call(expand(fi, nd.ast.value), "self.check_etag_header"))]
    if not rets and any(q.is_call(c, "self.check_etag_header") for c in q.calls(fi.node)):
        raise AnalysisError("should_return_304: the result of check_etag_header() is used in an unrecognised way")
    inm = [t for t in fi.cfg.stmt_nodes(lambda nd: nd.kind == "test" and "If-None-Match" in q.literal_strs(nd.ast))]
    ck.ob("C27.conditional", fi, fi.node, bool(inm) and bool(rets), "should_return_304 consults If-None-Match and answers with check_etag_header() when it is present", construct="If-None-Match branch")
    for nd, r in rets:
        ok = any(t.id in fi.cfg.dominators()[nd.id] for t in inm) and any(pol and "If-None-Match" in text for text, pol in facts[nd.id])
        ck.ob("C27.conditional", fi, r, ok, "If-None-Match present => the answer is check_etag_header() (If-Modified-Since ignored)")
    # every use of If-Modified-Since happens when If-None-Match is absent
    for nd, c in fi.cfg.find(lambda x: isinstance(x, ast.Call) and "If-Modified-Since" in q.literal_strs(x)):
        ok = any((not pol) and "If-None-Match" in text for text, pol in facts[nd.id])
        ck.ob("C27.conditional", fi, c, ok, "If-Modified-Since is consulted only when If-None-Match is absent")
    # date parsing is total: handler around parsedate, returns False
    pm = q.parent_map(fi.node)
    parses = [c for c in q.calls(fi.node) if q.call_attr(c) in ("parsedate_to_datetime", "parsedate", "parsedate_tz", "strptime")]
    ck.floor("C27.conditional", len(parses), 1, "date parse calls")
    for c in parses:
        hs = [q.protected_by(pm, c, e) for e in ("ValueError", "TypeError", "IndexError", "OverflowError")]
        ok = all(h is not None for h in hs)
        ck.ob("C27.conditional", fi, c, ok, "an unparseable If-Modified-Since cannot escape (ValueError/TypeError/IndexError/OverflowError from the date parser are all handled)")
        for h in {id(h): h for h in hs if h is not None}.values():
            rr = [x for st in h.body for x in q.walk_local(st) if isinstance(x, ast.Return)]
            if not rr or not isinstance(h.body[-1], ast.Return):
                # single-exit style (the handler records the failure and falls through): the returned value is not decided here
                raise AnalysisError("should_return_304: the date-parse handler does not end in a return; the answer for an unparseable date is computed in an unrecognised way")
            ck.ob("C27.conditional", fi, h, all(q.is_const(x.value, False) for x in rr), "an unparseable date means 'not 304' (handler returns False)", construct="date parse handler")
    # naive vs aware: before comparing with self.modified the parsed date is made aware
    cmps = fi.cfg.find(lambda x: isinstance(x, ast.Compare) and any(q.dotted(y) == "self.modified" for y in [x.left] + x.comparators) and not all(isinstance(o, (ast.Is, ast.IsNot)) for o in x.ops))
    ck.floor("C27.conditional", len(cmps), 1, "comparisons with self.modified")
    for nd, cm in cmps:
        others = [y for y in [cm.left] + cm.comparators if q.dotted(y) != "self.modified"]
        dv = q.dotted(others[0]) if others else None
        if dv is None:
            raise AnalysisError("should_return_304: compared date is not a plain variable")
        st = path_states(fi, ["%s.tzinfo is None" % dv], {"aware": lambda n2: n2.kind == "stmt" and isinstance(n2.ast, ast.Assign) and dv in q.assigned_paths(n2.ast) and isinstance(n2.ast.value, ast.Call) and q.call_attr(n2.ast.value) == "replace" and q.kwarg(n2.ast.value, "tzinfo") is not None and any(q.dotted(y) in ("datetime.timezone.utc", "timezone.utc", "datetime.UTC", "UTC") for y in ast.walk(expand(fi, q.kwarg(n2.ast.value, "tzinfo"))))}, follow_exc=False)
        ck.ob("C27.conditional", fi, cm, satisfied(st, nd, [("fact", "%s.tzinfo is None" % dv, False), ("event", "aware")]) is True, "a naive If-Modified-Since date (zone -0000) is tagged as UTC with replace(tzinfo=utc) before it is compared with the aware modification time (astimezone() would read it as local time and can raise)")
        ck.ob("C27.conditional", fi, cm, isinstance(cm.ops[0], ast.GtE) and q.dotted(cm.left) == dv or isinstance(cm.ops[0], ast.LtE) and q.dotted(cm.left) == "self.modified", "not modified means: If-Modified-Since >= modification time (equality included)")

    ce = ck.func(WEB, "RequestHandler.check_etag_header")
    nested = {f.name for f in ck.repo.nested(ce)}
    eqs = [x for x in q.walk_body(ce.node) if isinstance(x, ast.Compare) and len(x.ops) == 1 and isinstance(x.ops[0], ast.Eq) and any("etag" in (nm or "").lower() for nm in q.names_in(x))]
    eqs = [x for x in eqs if not isinstance(x.comparators[0], ast.Constant)]
    ck.floor("C27.conditional", len(eqs), 1, "entity-tag comparisons in check_etag_header")
    for x in eqs:
        l, r = expand(ce, x.left), expand(ce, x.comparators[0])
        ok = isinstance(l, ast.Call) and isinstance(r, ast.Call) and q.dotted(l.func) == q.dotted(r.func) and q.dotted(l.func) is not None
        ck.ob("C27.conditional", ce, x, ok, "weak comparison: both entity tags pass through the same normaliser before ==")
    # no computed etag / no candidates => False
    facts2 = must_facts(ce.cfg)
    # the computed etag is read from the response header that set_etag_header wrote
    reads = [c for c in q.calls(ce.node) if q.dotted(c.func) == "self._headers.get" and q.is_const(q.arg(c, 0), "Etag")]
    ck.ob("C27.conditional", ce, ce.node, len(reads) >= 1, "check_etag_header compares against the Etag response header already set", construct="reads self._headers['Etag']")


def rule_truthiness(ck):
    from ..x_optint import check_truthiness
    total = 0
    for rel, qn in ((HU, "_parse_request_range"), (HU, "_get_content_range"), (WEB, SFH + ".get"), (WEB, SFH + ".get_content")):
        fi = ck.func(rel, qn)
        total += check_truthiness(ck, "C27.none-vs-zero", fi)
    ck.floor("C27.none-vs-zero", total, 6, "int-or-None byte positions in the range code")


def _range_regions(ck):
    """(parser tail statements, names of first/last) and (get region statements, names)."""
    prr = ck.func(HU, "_parse_request_range")
    body = prr.node.body
    ti = [i for i, st in enumerate(body) if isinstance(st, ast.Try) and any(q.call_attr(c) in ("_int_or_none", "int") for c in q.calls(st))]
    if len(ti) != 1:
        raise AnalysisError("C27.range-model: the try block converting the two positions was not found at the top level of _parse_request_range (unknown idiom)")
    tr = body[ti[0]]
    conv = [a for a in tr.body if isinstance(a, ast.Assign) and isinstance(a.value, ast.Call) and q.call_attr(a.value) in ("_int_or_none", "int") and isinstance(a.targets[0], ast.Name)]
    for a in tr.body:   # `start, end = (conv(x), conv(y))`
        if isinstance(a, ast.Assign) and isinstance(a.targets[0], ast.Tuple) and isinstance(a.value, ast.Tuple) and len(a.value.elts) == len(a.targets[0].elts):
            for t_, v_ in zip(a.targets[0].elts, a.value.elts):
                if isinstance(t_, ast.Name) and isinstance(v_, ast.Call) and q.call_attr(v_) in ("_int_or_none", "int"):
                    conv.append(ast.Assign(targets=[t_], value=v_))
    if len(conv) != 2:
        raise AnalysisError("C27.range-model: expected two integer conversions (first, last) in _parse_request_range")
    # which is first / last: order of the partition pieces they convert
    parts = [a for a in body[:ti[0]] if isinstance(a, ast.Assign) and isinstance(a.targets[0], ast.Tuple) and isinstance(a.value, ast.Call) and q.call_attr(a.value) == "partition" and q.is_const(a.value.args[0], "-")]
    if len(parts) != 1 or len(parts[0].targets[0].elts) != 3:
        raise AnalysisError("C27.range-model: 'first, _, last = value.partition(\"-\")' not found")
    p_first, _, p_last = [q.dotted(e) for e in parts[0].targets[0].elts]
    names = {}
    for a in conv:
        arg = q.dotted(a.value.args[0]) if a.value.args else None
        if arg == p_first:
            names["first"] = a.targets[0].id
        elif arg == p_last:
            names["last"] = a.targets[0].id
    if set(names) != {"first", "last"}:
        raise AnalysisError("C27.range-model: cannot tell which conversion is the first/last byte position")
    if tr.finalbody:
        raise AnalysisError("C27.range-model: try/finally around the conversions (unknown idiom)")
    tail = list(tr.orelse) + body[ti[0] + 1:]   # try/else: the else block runs exactly when the conversions succeeded
    return prr, tail, names


def rule_range_model(ck):
    """Exhaustive evaluation (finite domain) of parser tail + range block of get() against RFC 9110 14.1.2."""
    from ..x_eval import Evaluator, inline_call
    prr, tail, names = _range_regions(ck)
    get = ck.func(WEB, SFH + ".get")
    gcr = ck.func(HU, "_get_content_range")
    gbody = get.node.body
    szi = [i for i, st in enumerate(gbody) if isinstance(st, ast.Assign) and isinstance(st.value, ast.Call) and q.dotted(st.value.func) == "self.get_content_size"]
    cli = [i for i, st in enumerate(gbody) if isinstance(st, ast.Expr) and q.is_call(st.value, "self.set_header") and _hdr_is(st.value, "Content-Length")]
    if len(szi) != 1 or len(cli) != 1 or szi[0] >= cli[0]:
        raise AnalysisError("C27.range-model: range block of get() (size = ... up to the Content-Length header) not found at the top level (unknown idiom)")
    rr_names = {a.targets[0].id for a in q.walk_body(get.node) if isinstance(a, ast.Assign) and any(isinstance(c_, ast.Call) and q.call_attr(c_) == "_parse_request_range" for c_ in ast.walk(a.value)) and isinstance(a.targets[0], ast.Name)}
    first = szi[0]
    for i_, st_ in enumerate(gbody[:cli[0]]):
        if any(isinstance(x, ast.Name) and isinstance(x.ctx, ast.Store) and x.id in rr_names for x in ast.walk(st_)):
            first = min(first, i_)   # the Range header is read/parsed before the size: evaluate from there
    # whatever the region reads must be defined inside it: pull in earlier top-level statements that bind such names
    # (the Range header local read before `request_range = None`, an explaining local, ...)
    for _round in range(6):
        stored, needed = set(), set()
        for st_ in gbody[first:cli[0] + 1]:
            for x in ast.walk(st_):
                if isinstance(x, ast.Name):
                    if isinstance(x.ctx, ast.Load) and x.id not in stored:
                        needed.add(x.id)
            for x in ast.walk(st_):
                if isinstance(x, ast.Name) and isinstance(x.ctx, (ast.Store, ast.Del)):
                    stored.add(x.id)
        moved = False
        for i_ in range(first - 1, -1, -1):
            binds = {x.id for x in ast.walk(gbody[i_]) if isinstance(x, ast.Name) and isinstance(x.ctx, ast.Store)}
            if binds & needed and not (isinstance(gbody[i_], ast.Expr) and isinstance(gbody[i_].value, ast.Constant)):
                first, moved = i_, True
        if not moved:
            break
    region = gbody[first:cli[0] + 1]
    rr = [a.targets[0].id for a in q.walk_body(get.node) if isinstance(a, ast.Assign) and any(isinstance(c_, ast.Call) and q.call_attr(c_) == "_parse_request_range" for c_ in ast.walk(a.value)) and isinstance(a.targets[0], ast.Name)]
    if len(set(rr)) != 1:
        raise AnalysisError("C27.range-model: parsed-range variable not identified")
    rr = rr[0]
    from ..x_resolve import call_arg
    gcs = [c for c in q.calls(get.node) if q.dotted(c.func) == "self.get_content"]
    if len(gcs) != 1:
        raise AnalysisError("C27.range-model: self.get_content(path, start, end) call not found")
    gparams = [p_ for p_ in ck.func(WEB, SFH + ".get_content").params() if p_ not in ("self", "cls")]
    sv, evn = [q.dotted(call_arg(ck.repo, get, gcs[0], i_, gparams[i_])) if call_arg(ck.repo, get, gcs[0], i_, gparams[i_]) is not None else None for i_ in (1, 2)]
    if sv is None or evn is None:
        raise AnalysisError("C27.range-model: start/end arguments of self.get_content not recognised")

    POS = [None, 0, 1, 2, 3, 5, 6, 9]
    SIZES = [0, 1, 2, 3, 6]

    def expected(first, last, size):
        whole = ("200",)
        if first is None and last is None:
            return {whole}
        if first is None:
            if last == 0 or size == 0:
                return {("416",)}
            a, b = max(size - last, 0), size - 1
        elif last is None:
            if first >= size:
                return {("416",)}
            a, b = first, size - 1
        else:
            if last < first:
                return {("416",), whole}
            if first >= size:
                return {("416",)}
            a, b = first, min(last, size - 1)
        if a == 0 and b == size - 1:
            return {("206", a, b), whole}
        return {("206", a, b)}

    fails = {"suffix (bytes=-N)": None, "open (bytes=F-)": None, "closed (bytes=F-L)": None, "empty (bytes=-)": None}
    count = 0
    for first in POS:
        for last in POS:
            # parser tail
            def call0(name, args, kwargs, node, ev0):
                ok, v = inline_call(ck.repo, prr, name, args, kwargs, node, ev0)
                if ok:
                    return v
                raise AnalysisError("C27.range-model: call %s in the tail of _parse_request_range is not modelled" % name)

            ev = Evaluator(call=call0)
            kind, val = ev.run(tail, {names["first"]: first, names["last"]: last})
            if kind == "raise":
                parsed = ("raise", val)
            elif kind == "return":
                parsed = val
            else:
                raise AnalysisError("C27.range-model: _parse_request_range falls off its end")
            for size in SIZES:
                count += 1
                cls = "empty (bytes=-)" if first is None and last is None else "suffix (bytes=-N)" if first is None else "open (bytes=F-)" if last is None else "closed (bytes=F-L)"
                spec = "bytes=%s-%s on %d bytes" % ("" if first is None else first, "" if last is None else last, size)
                if isinstance(parsed, tuple) and parsed and parsed[0] == "raise":
                    fails[cls] = fails[cls] or "%s: the parser raises %s" % (spec, parsed[1])
                    continue
                rec = {"status": 200, "hdr": {}}

                def call(name, args, kwargs, node, ev2, rec=rec, size=size, parsed=parsed):
                    if name == "self.get_content_size":
                        return size
                    if name.split(".")[-1] == "_parse_request_range":
                        return parsed
                    if name == "self.request.headers.get":
                        return "bytes=<spec>" if args and args[0] == "Range" else None
                    if name == "self.set_status":
                        rec["status"] = args[0]
                        return None
                    if name == "self.set_header":
                        rec["hdr"][args[0]] = args[1]
                        return None
                    ok_, v_ = inline_call(ck.repo, get, name, args, kwargs, node, ev2)
                    if ok_:
                        return v_
                    raise AnalysisError("C27.range-model: call %s in the range block of get() is not modelled" % name)

                ev2 = Evaluator(call=call)
                env = {rr: parsed}
                kind2, val2 = ev2.run(region, env)
                if kind2 == "raise":
                    fails[cls] = fails[cls] or "%s: get() raises %s" % (spec, val2)
                    continue
                st = rec["status"]
                exp = expected(first, last, size)
                got = None
                why = None
                if st == 416:
                    got = ("416",)
                    if kind2 != "return":
                        why = "416 does not return before the body"
                    elif rec["hdr"].get("Content-Range") != "bytes */%d" % size:
                        why = "416 Content-Range is %r" % rec["hdr"].get("Content-Range")
                else:
                    if kind2 == "return":
                        why = "returns early with status %s" % st
                    else:
                        s0, e0 = env.get(sv, "unbound"), env.get(evn, "unbound")
                        if s0 == "unbound" or e0 == "unbound" or (s0 is not None and (not isinstance(s0, int) or s0 < 0)) or (e0 is not None and not isinstance(e0, int)):
                            why = "get_content would be called with (%r, %r)" % (s0, e0)
                        else:
                            sl = list(range(size))[s0:e0]
                            cl = rec["hdr"].get("Content-Length")
                            if st == 206:
                                if not sl:
                                    got = ("206", None, None)
                                    why = "206 with an empty body"
                                else:
                                    got = ("206", sl[0], sl[-1])
                                    if sl != list(range(sl[0], sl[-1] + 1)):
                                        why = "non-contiguous body"
                                    elif rec["hdr"].get("Content-Range") != "bytes %d-%d/%d" % (sl[0], sl[-1], size):
                                        why = "Content-Range %r does not describe the body bytes %d-%d" % (rec["hdr"].get("Content-Range"), sl[0], sl[-1])
                                    elif cl != len(sl):
                                        why = "Content-Length %r for a body of %d bytes" % (cl, len(sl))
                            elif st == 200:
                                got = ("200",)
                                if sl != list(range(size)):
                                    why = "status 200 but the body is bytes %s" % (sl,)
                                elif "Content-Range" in rec["hdr"]:
                                    why = "status 200 with a Content-Range"
                                elif cl != size:
                                    why = "Content-Length %r for a body of %d bytes" % (cl, size)
                            else:
                                why = "unexpected status %r" % st
                if why is None and got not in exp:
                    why = "answered %s, RFC 9110 14.1.2 requires %s" % (" ".join(map(str, got)), " or ".join(" ".join(map(str, e)) for e in sorted(exp, key=str)))
                if why is not None and fails[cls] is None:
                    fails[cls] = "%s: %s" % (spec, why)
    for cls, f in fails.items():
        ck.ob("C27.range-model", get, get.node, f is None,
              "%s ranges: parser tail + range block of get() + _get_content_range evaluated exhaustively for first/last in %s and sizes %s agree with RFC 9110 14.1.2 (status, Content-Range, Content-Length, body slice)%s" % (cls, POS, SIZES, "" if f is None else " — counterexample: " + f),
              construct="range model: %s" % cls)
    ck.note("C27.range-model: %d (first, last, size) combinations evaluated by AST interpretation (no tornado code executed)" % count)


def rule_body_exact(ck):
    """The bytes written are the bytes read (no strip/replace/decode between file and socket)."""
    from ..x_exact import check_exact
    get = ck.func(WEB, SFH + ".get")
    n = 0
    for nd, c in call_sites(get, "self.write"):
        if not c.args:
            raise AnalysisError("StaticFileHandler.get: self.write() without argument")
        check_exact(ck, "C27.body-exact", get, c.args[0], [], "chunk written to the client", passthrough={"self.get_content": None}, site=c)
        n += 1
    gc = ck.func(WEB, SFH + ".get_content")
    for nd, y in gc.cfg.find(lambda x: isinstance(x, ast.Yield)):
        if y.value is None:
            raise AnalysisError("get_content: bare yield")
        check_exact(ck, "C27.body-exact", gc, y.value, [], "chunk yielded by get_content", passthrough={"read": None}, site=y)
        n += 1
    ck.floor("C27.body-exact", n, 2, "write/yield sites")


def run(ck):
    from ..x_resolve import install_prepared
    install_prepared(ck, __file__)
    ck.rule("C27.sint", "SINT: every int() on Range header text has an ASCII-digits guard (regex inclusion in [0-9]+) and a handled ValueError / length bound")
    ck.rule("C27.invalid-ignored", "a Range header that is not 'bytes=<valid ints>' yields None from the parser and is never unpacked by get()")
    ck.rule("C27.head", "HEAD = GET without body: head() delegates to get(include_body=False); no status/header call depends on include_body")
    ck.rule("C27.304", "304: set_headers() first; 304 exactly under should_return_304(); nothing body-related reachable afterwards")
    ck.rule("C27.416", "416 carries Content-Range 'bytes */size', returns before Content-Length/body, only for a valid Range")
    ck.rule("C27.206", "206 carries Content-Range from _get_content_range(start, end, size); Content-Range only with a valid Range")
    ck.rule("C27.content-length", "Content-Length is set before any body read/write; get_content gets the announced (start, end)")
    ck.rule("C27.content-range", "_get_content_range renders 'bytes first-last/total'")
    ck.rule("C27.slice", "get_content: seek(start) unless None before reading; budget from end-start, caps every read, reduced by every chunk")
    ck.rule("C27.conditional", "304 decision: If-None-Match precedence; total date parsing; aware-before-compare; symmetric weak etag comparison")
    rule_range_parser(ck)
    rule_get(ck)
    rule_content_range(ck)
    rule_get_content(ck)
    rule_304(ck)
    ck.rule("C27.none-vs-zero", "int-or-None byte positions are never tested by truthiness (0 is a legal position/length)")
    ck.rule("C27.range-model", "finite-domain evaluation: for every small (first, last, size) the parser tail and get()'s range block yield the RFC 9110 status, Content-Range, Content-Length and body slice")
    rule_truthiness(ck)
    try:
        rule_range_model(ck)
    except AnalysisError as e:
        # the model needs the anchored shape; when other rules already report this tree, say so instead of masking them
        if not ck.violations:
            raise
        ck.note("C27.range-model not evaluated (%s); violations of other rules are reported" % e)
    ck.rule("C27.body-exact", "file chunks travel from file.read() through get_content's yield to self.write() unchanged (aliases/slices only)")
    rule_body_exact(ck)


# ---------------------------------------------------------------------------


def _w(qn, edit):
    return lambda repo: mutate(repo, WEB, qn, edit)


def _h(qn, edit):
    return lambda repo: mutate(repo, HU, qn, edit)


def _src(x):
    return ast.unparse(x)


def _unwrap_try(root):
    for node in ast.walk(root):
        body = getattr(node, "body", None)
        if isinstance(body, list):
            for i, st in enumerate(body):
                if isinstance(st, ast.Try) and "_int_or_none" in _src(st):
                    body[i:i + 1] = st.body
                    return True
    return False


def _no_return_after_304(root):
    for node in ast.walk(root):
        if isinstance(node, ast.If) and "should_return_304" in _src(node.test):
            node.body = [s for s in node.body if not isinstance(s, ast.Return)]
            return True
    return False


def _swap_set_headers(root):
    body = root.body
    idx = [i for i, s in enumerate(body) if "self.set_headers()" in _src(s) and isinstance(s, ast.Expr)]
    idx2 = [i for i, s in enumerate(body) if isinstance(s, ast.If) and "should_return_304" in _src(s.test)]
    if idx and idx2:
        s = body.pop(idx[0])
        body.insert(idx2[0], s)
        return True
    return False


MUTANTS = [
    ("seeded C27-adv4: date-parser handler narrowed to (TypeError, ValueError): OverflowError -> 500", _w(SFH + ".should_return_304", lambda root: _narrow_handler(root, "(TypeError, ValueError)")), "C27.conditional"),
    ("date-parser handler narrowed to ValueError only", _w(SFH + ".should_return_304", lambda root: _narrow_handler(root, "ValueError")), "C27.conditional"),
    ("seeded C27-adv2: naive If-Modified-Since normalised with astimezone(utc) (local-time reading, may raise)", _w(SFH + ".should_return_304", replace_stmt(lambda st: isinstance(st, ast.If) and "tzinfo" in _src(st.test), lambda st: [parse_stmt("if_since = if_since.astimezone(datetime.timezone.utc)")])), "C27.conditional"),
    ("seeded C27-adv1: parser tail flattened to truthiness ('elif end:'), bytes=0-0 -> (0, 0)", _h("_parse_request_range", lambda root: _flatten_tail(root)), ("C27.none-vs-zero", "C27.range-model")),
    ("none-vs-zero: get() normalises a negative start only 'if start' (truthiness)", _w(SFH + ".get", replace_expr(lambda n: isinstance(n, ast.BoolOp) and _src(n) == "start is not None and start < 0", lambda n: parse_expr("start and start < 0"))), "C27.none-vs-zero"),
    ("none-vs-zero: content length picks 'end - start' only 'if start and end'", _w(SFH + ".get", replace_expr(lambda n: isinstance(n, ast.BoolOp) and _src(n) == "start is not None and end is not None", lambda n: parse_expr("start and end"))), ("C27.none-vs-zero", "C27.range-model")),
    ("range-model: 'start >= size' loosened to 'start > size' (bytes=N- on N bytes -> 206 with empty body)", _w(SFH + ".get", replace_expr(lambda n: isinstance(n, ast.Compare) and _src(n) == "start >= size", lambda n: parse_expr("start > size"))), "C27.range-model"),
    ("range-model: end not capped at the file size", _w(SFH + ".get", remove_stmts(lambda st: isinstance(st, ast.If) and _src(st.test) == "end is not None and end > size")), "C27.range-model"),
    ("range-model: suffix longer than the file not clamped to 0", _w(SFH + ".get", remove_stmts(lambda st: isinstance(st, ast.If) and _src(st.test) == "start < 0")), "C27.range-model"),
    ("range-model: inclusive last position not converted (end += 1 dropped)", _h("_parse_request_range", remove_stmts(lambda st: isinstance(st, ast.AugAssign) and _src(st) == "end += 1")), "C27.range-model"),
    ("range-model: _get_content_range reports the exclusive end", _h("_get_content_range", replace_expr(lambda n: isinstance(n, ast.BinOp) and isinstance(n.op, ast.Sub) and _src(n) == "(end or total) - 1", lambda n: n.left)), "C27.range-model"),
    ("range-model: 206 decided by 'end != size' only (bytes=0-<last> of the whole file mislabelled)", _w(SFH + ".get", replace_expr(lambda n: isinstance(n, ast.Compare) and _src(n) == "size != (end or size) - (start or 0)", lambda n: parse_expr("start is not None and start > 0"))), "C27.range-model"),
    ("body-exact: chunk newline-normalised before writing", _w(SFH + ".get", replace_expr(lambda n: isinstance(n, ast.Call) and q.dotted(n.func) == "self.write", lambda n: parse_expr("self.write(chunk.replace(b'\\r\\n', b'\\n'))"))), "C27.body-exact"),
    ("body-exact: get_content yields chunk.rstrip()", _w(SFH + ".get_content", replace_expr(lambda n: isinstance(n, ast.Yield), lambda n: ast.Yield(value=parse_expr("chunk.rstrip()")))), "C27.body-exact"),
    ("undo the F19 repair: bare int() on Range text (digits guard removed)", _h("_int_or_none", remove_stmts(lambda st: isinstance(st, ast.If) and "fullmatch" in _src(st.test))), "C27.sint"),
    ("weaken the F19 repair: guard uses \\d+ (non-ASCII digits accepted)", _h("_int_or_none", replace_expr(lambda n: isinstance(n, ast.Constant) and n.value == "[0-9]+", lambda n: ast.Constant(value="\\d+"))), "C27.sint"),
    ("weaken the F19 repair: guard uses match() instead of fullmatch() ('1_0' accepted)", _h("_int_or_none", replace_expr(lambda n: isinstance(n, ast.Attribute) and n.attr == "fullmatch", lambda n: ast.Attribute(value=n.value, attr="match", ctx=ast.Load()))), "C27.sint"),
    ("weaken the F19 repair: guard admits a sign ([+-]?[0-9]+)", _h("_int_or_none", replace_expr(lambda n: isinstance(n, ast.Constant) and n.value == "[0-9]+", lambda n: ast.Constant(value="[+-]?[0-9]+"))), "C27.sint"),
    ("Range parser: ValueError no longer handled (invalid Range -> 500)", _h("_parse_request_range", _unwrap_try), ("C27.sint", "C27.invalid-ignored")),
    ("Range parser: unit check dropped ('foo=1-2' honoured)", _h("_parse_request_range", remove_stmts(lambda st: isinstance(st, ast.If) and "bytes" in _src(st.test))), "C27.invalid-ignored"),
    ("Range parser: unit compared case-insensitively by prefix", _h("_parse_request_range", replace_expr(lambda n: isinstance(n, ast.Compare) and "bytes" in _src(n), lambda n: parse_expr("not unit.startswith('bytes')"))), "C27.invalid-ignored"),
    ("get(): invalid Range unpacked (tests range_header instead of the parse result)", _w(SFH + ".get", lambda root: _test_header_not_result(root)), "C27.invalid-ignored"),
    ("get(): Content-Length only for GET", _w(SFH + ".get", replace_stmt(lambda st: isinstance(st, ast.Expr) and "Content-Length" in _src(st), lambda st: [ast.If(test=ast.Name(id="include_body", ctx=ast.Load()), body=[st], orelse=[])])), ("C27.head", "C27.content-length")),
    ("head(): runs GET with the body", _w(SFH + ".head", replace_expr(lambda n: isinstance(n, ast.Constant) and n.value is False, lambda n: ast.Constant(value=True))), "C27.head"),
    ("get(): 304 falls through to the body", _w(SFH + ".get", _no_return_after_304), "C27.304"),
    ("get(): set_headers() after the 304 decision (Etag never matches)", _w(SFH + ".get", _swap_set_headers), "C27.304"),
    ("get(): 416 without Content-Range", _w(SFH + ".get", remove_stmts(lambda st: isinstance(st, ast.Expr) and "bytes */" in _src(st))), "C27.416"),
    ("get(): 416 Content-Range reports the requested end instead of the size", _w(SFH + ".get", replace_expr(lambda n: isinstance(n, ast.JoinedStr) and "bytes */" in _src(n), lambda n: parse_expr("f'bytes */{end}'"))), "C27.416"),
    ("get(): 206 without Content-Range", _w(SFH + ".get", remove_stmts(lambda st: isinstance(st, ast.Expr) and "_get_content_range" in _src(st))), "C27.206"),
    ("get(): Content-Range computed from the uncapped header values (end/size swapped)", _w(SFH + ".get", replace_expr(lambda n: isinstance(n, ast.Call) and q.call_attr(n) == "_get_content_range", lambda n: parse_expr("httputil._get_content_range(start, size, end)"))), "C27.206"),
    ("get(): content read for the whole file regardless of range", _w(SFH + ".get", replace_expr(lambda n: isinstance(n, ast.Call) and q.call_attr(n) == "get_content", lambda n: parse_expr("self.get_content(self.absolute_path)"))), "C27.content-length"),
    ("_get_content_range: total replaced by last position", _h("_get_content_range", replace_expr(lambda n: isinstance(n, ast.JoinedStr), lambda n: parse_expr("f'bytes {start}-{end}/{end}'"))), "C27.content-range"),
    ("get_content: budget not reduced per chunk (over-read for ranges beyond 64 KiB)", _w(SFH + ".get_content", remove_stmts(lambda st: isinstance(st, ast.If) and isinstance(st.body[0], ast.AugAssign))), "C27.slice"),
    ("get_content: no seek to start", _w(SFH + ".get_content", remove_stmts(lambda st: isinstance(st, ast.If) and "seek" in _src(st))), "C27.slice"),
    ("get_content: read not capped by the budget", _w(SFH + ".get_content", remove_stmts(lambda st: isinstance(st, ast.If) and "chunk_size = remaining" in _src(st))), "C27.slice"),
    ("should_return_304: naive If-Modified-Since compared with aware mtime (TypeError -> 500)", _w(SFH + ".should_return_304", remove_stmts(lambda st: isinstance(st, ast.If) and "tzinfo" in _src(st.test))), "C27.conditional"),
    ("should_return_304: date parser unguarded", _w(SFH + ".should_return_304", lambda root: _unwrap_try2(root)), "C27.conditional"),
    ("should_return_304: If-Modified-Since wins over If-None-Match", _w(SFH + ".should_return_304", remove_stmts(lambda st: isinstance(st, ast.If) and "If-None-Match" in _src(st.test))), "C27.conditional"),
    ("check_etag_header: strong comparison on one side", lambda repo: mutate(repo, WEB, "RequestHandler.check_etag_header", replace_expr(lambda n: isinstance(n, ast.Call) and q.dotted(n.func) == "val" and "computed_etag" in _src(n), lambda n: n.args[0])), "C27.conditional"),
]


def _handler_returns_tuple(root):
    for node in ast.walk(root):
        if isinstance(node, ast.ExceptHandler):
            node.body = [parse_stmt("return (None, None)")]
            return True
    return False


def _test_header_not_result(root):
    for node in ast.walk(root):
        if isinstance(node, ast.If) and isinstance(node.test, ast.Name) and node.test.id == "request_range":
            node.test = ast.Name(id="range_header", ctx=ast.Load())
            return True
    return False


def _unwrap_try2(root):
    for node in ast.walk(root):
        body = getattr(node, "body", None)
        if isinstance(body, list):
            for i, st in enumerate(body):
                if isinstance(st, ast.Try) and "parsedate" in _src(st):
                    body[i:i + 1] = st.body
                    return True
    return False


def _flatten_tail(root):
    for i, st in enumerate(root.body):
        if isinstance(st, ast.If) and _src(st.test) == "end is not None":
            root.body[i:i + 1] = ast.parse(
                "if start is None:\n"
                "    if end:\n"
                "        start, end = -end, None\n"
                "elif end:\n"
                "    end += 1\n").body
            return True
    return False


def _narrow_handler(root, to):
    for node in ast.walk(root):
        if isinstance(node, ast.Try) and "parsedate" in _src(node):
            for h in node.handlers:
                h.type = parse_expr(to)
            return True
    return False
