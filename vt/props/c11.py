"""C11 - IOStream reads return exactly the incoming bytes, in order, per request.

Thin but semantic clause set (DESIGN.md section 4, C11), all on
``tornado/iostream.py``:

* ``_find_read_pos``: every position returned from the delimiter/regex branches
  was passed to ``_check_max_bytes`` first (same expression), the not-found
  paths check the buffered size; the fixed-size branch is evaluated
  exhaustively by folding the function's CFG over a finite domain;
* ``_check_max_bytes`` raises exactly for ``size > max_bytes`` (folded);
* every handler that can receive ``UnsatisfiableReadError`` closes the stream or
  re-raises (exception-escape fixpoint over the stream classes);
* ``_read_from_buffer`` resets every read-mode field before ``_finish_read``;
  positions handed to it are fresh, non-None results of the position finders;
* ``_finish_read``: take-and-clear of the read future, result kind follows the
  buffer mode, the caller's buffer is swapped back and re-measured;
* ``_consume``: the only shrinker; size, deletion and returned slice use the
  same ``loc``; slice taken before deletion;
* ``_read_to_buffer``: growth and size update are paired on the fd's count;
  caller-buffer reads land after the bytes already there;
* ``_read_to_buffer_loop`` only returns positions computed after its last fill;
* ``read_into``: buffered bytes are copied before the swap, the consumed prefix
  is deleted and the remainder saved, size/limit fields describe the new buffer.

Not decided: byte-exactness / no loss / no duplication under all arrival
patterns and request sequences (needs execution); regex semantics; SSL reads.
"""
from __future__ import annotations

import ast
from typing import Dict, List, Optional, Set, Tuple

from .. import q
from ..cfg import explore
from ..rules import node_calls, event_facts, check_take_and_clear, settle_sites
from ..mutate import mutate, remove_stmts, replace_expr, replace_stmt, parse_stmt, parse_expr
from ..model import AnalysisError
from ..x_guardflow import ClassEffects, guard_facts, has, fold_cfg, UNKNOWN, expand_expr, resolve_at, reaching_value, missing_effect, edge_facts, as_aug
from ..x_iostream import read_end_mode, normalised, close_completes_reads

TECHNIQUE = "must-pass-through on the CFG, finite-domain folding of the position predicate, exception-escape fixpoint, paired-update and take-and-clear lints"
EXPLANATION = (
    "BaseIOStream read path: dominance of _check_max_bytes over returned positions, exhaustive folding of _find_read_pos's fixed-size "
    "branch and of _check_max_bytes over small domains, closure of the methods that may raise UnsatisfiableReadError and the handlers "
    "that receive it, reset of the read-mode fields, pairing of buffer growth/shrink with _read_buffer_size, freshness of positions, "
    "caller-buffer swap in read_into/_finish_read."
)
NOT_DECIDED = "that the concatenation of results equals a prefix of the stream for every arrival pattern and request sequence (byte-exactness needs execution); regex search semantics; buffer aliasing of read_into beyond the ordering of copy/delete/swap; SSLIOStream's own read_from_fd"
LEVEL_NOTE = "thin clause set: necessary structural conditions only"

IO = "tornado/iostream.py"
B = "BaseIOStream"
FAMILY = [(IO, "BaseIOStream"), (IO, "IOStream"), (IO, "SSLIOStream"), (IO, "PipeIOStream")]
UNSAT = "UnsatisfiableReadError"


def _not_followed(fi, start, end) -> Set[int]:
    cfg = fi.cfg

    def transfer(n, val):
        if n.kind in ("exit", "rexit"):
            return val
        if val and end(n):
            val = frozenset()
        if start(n):
            val = val | {n.id}
        return val

    seen = explore(cfg, frozenset(), transfer, lambda t: False)
    bad: Set[int] = set()
    for _f, val in seen.get(cfg.exit.id, ()):
        bad |= set(val)
    return bad


def _reaching_value(ck, fi, name: str, node):
    """value of the assignment to ``name`` that reaches ``node`` on every path
    (the closest dominating store; another store in between is an unknown idiom)."""
    stores = fi.cfg.stmt_nodes(lambda m: m.kind == "stmt" and isinstance(m.ast, ast.Assign) and q.assigned_paths(m.ast) == {name})
    doms = [m for m in stores if fi.cfg.dominates(m, node)]
    ck.need(doms, "no assignment to %s dominates its use in %s" % (name, fi.qualname))
    best = [m for m in doms if all(fi.cfg.dominates(o, m) for o in doms)]
    ck.need(len(best) == 1, "ambiguous definition of %s in %s" % (name, fi.qualname))
    b = best[0]
    # no other store between the definition and the use
    reach_from_b = set()
    work = [b.id]
    while work:
        x = work.pop()
        for y, _k in fi.cfg.succ[x]:
            if y not in reach_from_b and y != node.id:
                reach_from_b.add(y)
                work.append(y)
    for o in stores:
        if o is not b and o.id in reach_from_b:
            # o is after b; does it reach the use?
            seen = set()
            work = [o.id]
            while work:
                x = work.pop()
                for y, _k in fi.cfg.succ[x]:
                    if y not in seen:
                        seen.add(y)
                        work.append(y)
            ck.need(node.id not in seen, "%s is re-assigned between its definition and its use in %s" % (name, fi.qualname))
    return b.ast.value


def _params(fi) -> List[str]:
    return [p for p in fi.params() if p != "self"]


def _names(e) -> Set[str]:
    return {x.id for x in ast.walk(e) if isinstance(x, ast.Name)}


# ---------------------------------------------------------------------------


def find_read_pos(ck):
    fi = ck.func(IO, B + "._find_read_pos")
    cmb = ck.func(IO, B + "._check_max_bytes")
    gf = guard_facts(fi, ClassEffects(ck.repo, FAMILY))
    checks = fi.cfg.find(lambda x: q.is_call(x, "self._check_max_bytes"))
    ck.floor("C11.max-bytes-checked", len(checks), 1, "_check_max_bytes calls in _find_read_pos")
    size_idx = 1  # (delimiter, size)
    ps = _params(cmb)
    ck.need(len(ps) == 2, "_check_max_bytes signature changed")

    def size_arg(c):
        return q.arg(c, size_idx, ps[1])

    # (a) returned positions were checked
    n_ret = 0
    for node in fi.cfg.stmt_nodes(lambda n: n.kind == "stmt" and isinstance(n.ast, ast.Return) and n.ast.value is not None and not (isinstance(n.ast.value, ast.Constant) and n.ast.value.value is None)):
        if has(gf[node.id], "self._read_bytes is None", False):
            continue  # fixed-size branch: folded exhaustively below
        if not (has(gf[node.id], "self._read_delimiter is None", False) or has(gf[node.id], "self._read_regex is None", False)):
            continue  # not in a delimiter / regex arm: covered by the exhaustive fold of the fixed-size decision (floor below keeps the two arms)
        n_ret += 1
        want = q.unparse(node.ast.value)
        names = _names(node.ast.value)
        ef = event_facts(
            fi,
            {"chk": lambda m, want=want: m.kind == "stmt" and any(q.is_call(c, "self._check_max_bytes") and size_arg(c) is not None and q.unparse(size_arg(c)) == want for c in q.calls(m.ast))},
            {"chk": lambda m, names=names: m.kind == "stmt" and isinstance(m.ast, ast.stmt) and bool(q.assigned_paths(m.ast) & names)},
            cond_facts=False,
        )
        ck.ob("C11.max-bytes-checked", fi, node.ast, ("@chk", True) in ef[node.id], "a position returned from a delimiter/regex search was passed to _check_max_bytes (same expression %s) on every path" % want)
    ck.floor("C11.max-bytes-checked", n_ret, 2, "delimiter/regex position returns")
    # (b) every search is followed by a check on every normal path
    searches = fi.cfg.stmt_nodes(lambda n: n.kind == "stmt" and any(isinstance(c.func, ast.Attribute) and c.func.attr in ("find", "search", "index", "match") and ("self._read_buffer" == q.receiver(c) or any(q.dotted(a) == "self._read_buffer" for a in c.args)) for c in q.calls(n.ast)))
    ck.floor("C11.max-bytes-checked", len(searches), 2, "searches of the read buffer")
    sid = {n.id for n in searches}
    bad = _not_followed(fi, lambda n: n.id in sid, node_calls("self._check_max_bytes"))
    for n in searches:
        ck.ob("C11.max-bytes-checked", fi, n.ast, n.id not in bad, "after searching the buffer, max_bytes is checked on every path (found: the position; not found: the buffered size)")
    # (b2) the search covers every byte that can still be part of a match
    n_cov = 0
    for n in searches:
        for c in q.calls(n.ast):
            if not (isinstance(c.func, ast.Attribute) and c.func.attr in ("find", "search", "index", "match")):
                continue
            if q.receiver(c) == "self._read_buffer":
                # bytearray.find(sub[, start[, end]])
                n_cov += 1
                start = q.arg(c, 1)
                end = q.arg(c, 2)
                if end is not None or c.keywords:
                    raise AnalysisError("delimiter search with an end bound / keywords is not modelled: %s" % q.unparse(c))
                if start is None or q.is_const(start, 0):
                    ck.ob("C11.search-coverage", fi, c, True, "the delimiter search starts at the beginning of the buffer")
                    continue
                _resume_offset_ok(ck, fi, c, start)
            elif any(q.dotted(a) == "self._read_buffer" for a in c.args):
                # pattern.search(buffer[, pos[, endpos]])
                n_cov += 1
                extra = [a for a in c.args[1:]] + [k.value for k in c.keywords]
                ok = all(q.is_const(a, 0) for a in extra)
                ck.ob("C11.search-coverage", fi, c, ok, "the regex search covers the whole buffer (a match has no bounded length, so no prefix may be skipped)")
    ck.floor("C11.search-coverage", n_cov, 2, "buffer searches")

    # (c) what is checked
    rets = {q.unparse(n.ast.value) for n in fi.cfg.stmt_nodes(lambda n: n.kind == "stmt" and isinstance(n.ast, ast.Return) and n.ast.value is not None)}
    for node, c in checks:
        a = size_arg(c)
        ok = a is not None and (q.unparse(a) in rets or q.dotted(a) == "self._read_buffer_size")
        ck.ob("C11.max-bytes-checked", fi, c, ok, "_check_max_bytes is given the position about to be returned or the buffered size")

    # (d) what the position is: index of the delimiter + its length / end of the regex match
    def subst(e, depth=0):
        """replace single-assignment locals by their defining expression"""
        if depth > 4:
            return e

        class T(ast.NodeTransformer):
            def visit_Name(self, node):
                if isinstance(node.ctx, ast.Load):
                    st = [x for x in q.stores_to(fi.node, node.id) if isinstance(x, ast.Assign)]
                    if len(st) == 1 and len(q.assigned_paths(st[0])) == 1 and not q.find_calls(st[0].value, ".find", ".search", ".end", ".index"):
                        return subst(st[0].value, depth + 1)
                return node

        import copy

        return T().visit(copy.deepcopy(e))

    n_pv = 0
    for node in fi.cfg.stmt_nodes(lambda n: n.kind == "stmt" and isinstance(n.ast, ast.Return) and n.ast.value is not None and not (isinstance(n.ast.value, ast.Constant) and n.ast.value.value is None)):
        if has(gf[node.id], "self._read_delimiter is None", False):
            n_pv += 1
            finds = [st for st in q.walk_body(fi.node) if isinstance(st, ast.Assign) and isinstance(st.value, ast.Call) and q.call_attr(st.value) in ("find", "index") and q.receiver(st.value) == "self._read_buffer" and st.value.args and q.dotted(st.value.args[0]) == "self._read_delimiter"]
            ck.need(len(finds) == 1 and isinstance(finds[0].targets[0], ast.Name), "delimiter search is not 'loc = self._read_buffer.find(self._read_delimiter)'")
            lv = finds[0].targets[0].id
            e = resolve_at(ck.repo, fi, node.ast.value, node)
            ok = True
            for l in (0, 3):
                for d in (b"a", b"ab", b"abc"):
                    try:
                        ok = ok and q.fold(e, {lv: l, "self._read_delimiter": d}) == l + len(d)
                    except q.NotFoldable as ex:
                        raise AnalysisError("cannot evaluate the delimiter position %s: %s" % (q.unparse(e), ex))
            ck.ob("C11.position-value", fi, node.ast, ok, "read_until returns through the end of the first occurrence of the delimiter: find(delimiter) + len(delimiter)")
        elif has(gf[node.id], "self._read_regex is None", False):
            n_pv += 1
            e = node.ast.value
            if isinstance(e, ast.Name):
                e = _reaching_value(ck, fi, e.id, node)
            ok = isinstance(e, ast.Call) and q.call_attr(e) == "end" and not e.args
            mv = q.receiver(e) if ok else None
            srch = [x for x in q.walk_body(fi.node) if isinstance(x, ast.Assign) and mv in q.assigned_paths(x) and isinstance(x.value, ast.Call) and q.call_attr(x.value) == "search" and q.receiver(x.value) == "self._read_regex" and x.value.args and q.dotted(x.value.args[0]) == "self._read_buffer"] if mv else []
            ck.ob("C11.position-value", fi, node.ast, ok and len(srch) == 1, "read_until_regex returns through the end of the first match: self._read_regex.search(self._read_buffer).end()")
    ck.floor("C11.position-value", n_pv, 2, "delimiter/regex position returns")

    # fixed-size branch, exhaustively
    n_eval = 0
    bad_cases = []
    for b in (None, 0, 1, 2, 3):
        for s in range(0, 5):
            for p in (False, True):
                env = {"self._read_bytes": b, "self._read_buffer_size": s, "self._read_partial": p, "self._read_delimiter": None, "self._read_regex": None}
                out = fold_cfg(fi.cfg, env)
                n_eval += 1
                if b is not None and (s >= b or (p and s > 0)):
                    want = min(b, s)
                else:
                    want = None
                if out.kind != "return" or out.value != want:
                    bad_cases.append("bytes=%s buffered=%s partial=%s -> %r (want %r)" % (b, s, p, out, want))
    ck.ob("C11.find-pos-fixed", fi, fi.node, not bad_cases, "fixed-size reads are satisfiable iff buffered >= n or (partial and buffered > 0) and then return min(n, buffered); %d cases folded%s" % (n_eval, (": " + "; ".join(bad_cases[:3])) if bad_cases else ""), construct="fixed-size branch of _find_read_pos")

    # _check_max_bytes itself
    sz = ps[1]
    bad_cases = []
    for m in (None, 0, 1, 2, 3):
        for s in range(0, 5):
            out = fold_cfg(cmb.cfg, {"self._read_max_bytes": m, sz: s, ps[0]: b"x"})
            want_raise = m is not None and s > m
            got_raise = out.kind == "raise"
            if got_raise != want_raise or (got_raise and (out.value or "").split(".")[-1] != UNSAT):
                bad_cases.append("max=%s size=%s -> %r" % (m, s, out))
    ck.ob("C11.max-bytes-raise", cmb, cmb.node, not bad_cases, "_check_max_bytes raises UnsatisfiableReadError exactly when max_bytes is set and size > max_bytes (30 cases folded%s)" % ((": " + "; ".join(bad_cases[:3])) if bad_cases else ""), construct="_check_max_bytes decision table")
    # read_until / read_until_regex arm the limit they were given
    for qn, fld in ((B + ".read_until", "self._read_delimiter"), (B + ".read_until_regex", "self._read_regex")):
        f = ck.func(IO, qn)
        ef = event_facts(f, {"max": lambda m: m.kind == "stmt" and isinstance(m.ast, ast.Assign) and "self._read_max_bytes" in q.assigned_paths(m.ast) and q.dotted(m.ast.value) == "max_bytes",
                             "mode": lambda m, fld=fld: m.kind == "stmt" and isinstance(m.ast, ast.Assign) and fld in q.assigned_paths(m.ast)}, cond_facts=False)
        tis = f.cfg.stmt_nodes(node_calls("self._try_inline_read"))
        ck.floor("C11.max-bytes-raise", len(tis), 1, "_try_inline_read calls in %s" % qn)
        for m in tis:
            ck.ob("C11.max-bytes-raise", f, m.ast, ("@max", True) in ef[m.id] and ("@mode", True) in ef[m.id], "%s stores its max_bytes argument and its delimiter before trying to read" % qn.split(".")[-1])


# ---------------------------------------------------------------------------


def _resume_offset_ok(ck, fi, call, start):
    """A search that resumes at a remembered offset is complete only if the
    offset never exceeds (bytes searched so far) - (len(delimiter) - 1): a
    delimiter may straddle the old end of the buffer.  Every store to the
    remembered attribute is folded over a grid of buffer sizes and delimiter
    lengths; read entry points must reset it."""
    attrs = sorted({d for x in ast.walk(start) for d in [q.dotted(x)] if d and d.startswith("self.") and d.count(".") == 1})
    if q.dotted(start) is None or len(attrs) != 1:
        raise AnalysisError("delimiter search resumes at an offset that is not a plain attribute: %s" % q.unparse(start))
    attr = attrs[0]
    n_st = 0
    for rel, cls in FAMILY:
        for f in ck.repo.direct_methods(rel, cls):
            for st in q.stores_to(f.node, attr):
                n_st += 1
                v = getattr(st, "value", None)
                if isinstance(st, ast.AugAssign):
                    ck.ob("C11.search-coverage", f, st, False, "the remembered search offset %s is only ever set to a value that keeps len(delimiter)-1 bytes of overlap" % attr)
                    continue
                if v is not None and q.is_const(v, 0):
                    ck.ob("C11.search-coverage", f, st, True, "search offset reset to 0")
                    continue
                ve = expand_expr(ck.repo, f, v) if v is not None else None
                bad = []
                for size in range(0, 7):
                    for dl in (1, 2, 3):
                        try:
                            got = q.fold(ve, {"self._read_buffer_size": size, "self._read_buffer": b"x" * size, "self._read_delimiter": b"d" * dl})
                        except (q.NotFoldable, TypeError) as ex:
                            raise AnalysisError("cannot evaluate the remembered search offset %s: %s" % (q.unparse(v), ex))
                        if not isinstance(got, int) or got > max(0, size - (dl - 1)):
                            bad.append("buffered=%d len(delimiter)=%d -> %s" % (size, dl, got))
                ck.ob("C11.search-coverage", f, st, not bad, "after an unsuccessful search the next search resumes no later than buffered - (len(delimiter) - 1): a delimiter straddling two arrivals must still be found%s" % ((" (violated for " + "; ".join(bad[:3]) + ")") if bad else ""))
    ck.floor("C11.search-coverage", n_st, 1, "stores to %s" % attr)
    # every delimiter read starts from offset 0 (the buffer was consumed / the delimiter changed)
    for rel, cls in FAMILY:
        for f in ck.repo.direct_methods(rel, cls):
            sets = f.cfg.stmt_nodes(lambda m: m.kind == "stmt" and isinstance(m.ast, ast.Assign) and "self._read_delimiter" in q.assigned_paths(m.ast) and not (isinstance(m.ast.value, ast.Constant) and m.ast.value.value is None))
            if not sets or f.name == "__init__":
                continue
            gfz = guard_facts(f, ClassEffects(ck.repo, FAMILY), extra_gen=lambda m: [("@zero", True)] if (m.kind == "stmt" and isinstance(m.ast, ast.Assign) and attr in q.assigned_paths(m.ast) and q.is_const(m.ast.value, 0)) else [],
                              extra_kill=lambda m, fct: fct[0] == "@zero" and m.kind == "stmt" and isinstance(m.ast, (ast.Assign, ast.AugAssign)) and attr in q.assigned_paths(m.ast) and not q.is_const(getattr(m.ast, "value", None), 0))
            for m in f.cfg.stmt_nodes(node_calls("self._try_inline_read")):
                ck.ob("C11.search-coverage", f, m.ast, ("@zero", True) in gfz[m.id], "%s resets the remembered search offset before reading with a new delimiter" % f.name)


def starters(ck):
    """every read entry point stores its arguments into the mode fields before it tries to read"""
    table = {
        "read_bytes": [("self._read_bytes", 0), ("self._read_partial", 1)],
        "read_into": [("self._read_partial", 1)],
        "read_until": [("self._read_delimiter", 0), ("self._read_max_bytes", 1)],
        "read_until_regex": [("self._read_max_bytes", 1)],
    }
    n = 0
    for name, pairs in sorted(table.items()):
        f = ck.func(IO, B + "." + name)
        ps = _params(f)
        tis = f.cfg.stmt_nodes(node_calls("self._try_inline_read"))
        ck.floor("C11.starter-args", len(tis), 1, "_try_inline_read calls in %s" % name)
        for fld, idx in pairs:
            ck.need(idx < len(ps), "%s lost a parameter" % name)
            arg = ps[idx]
            ef = event_facts(f, {"set": lambda m, fld=fld, arg=arg: m.kind == "stmt" and isinstance(m.ast, ast.Assign) and fld in q.assigned_paths(m.ast) and q.dotted(m.ast.value) == arg},
                             {"set": lambda m, fld=fld, arg=arg: m.kind == "stmt" and isinstance(m.ast, ast.Assign) and fld in q.assigned_paths(m.ast) and q.dotted(m.ast.value) != arg}, cond_facts=False)
            for m in tis:
                n += 1
                ck.ob("C11.starter-args", f, m.ast, ("@set", True) in ef[m.id], "%s stores its %s argument in %s before trying to read" % (name, arg, fld), construct="%s: %s = %s before _try_inline_read" % (name, fld, arg))
        # the read future is registered first
        ef = event_facts(f, {"started": node_calls("self._start_read")}, cond_facts=False)
        for m in f.cfg.stmt_nodes(lambda m: m.kind == "stmt" and isinstance(m.ast, ast.Assign) and any(p.startswith("self._read") for p in q.assigned_paths(m.ast))):
            ck.ob("C11.starter-args", f, m.ast, ("@started", True) in ef[m.id], "%s registers the read (refusing a second concurrent read) before it changes the read mode" % name)
    f = ck.func(IO, B + ".read_until_regex")
    rx = [st for st in q.stores_to(f.node, "self._read_regex")]
    ck.ob("C11.starter-args", f, rx[0] if rx else f.node, len(rx) == 1 and q.is_call(getattr(rx[0], "value", None), "re.compile") and q.dotted(rx[0].value.args[0]) == _params(f)[0], "read_until_regex compiles the regex it was given")
    f = ck.func(IO, B + ".read_until_close")
    gfu = guard_facts(f, ClassEffects(ck.repo, FAMILY))
    for m in f.cfg.stmt_nodes(node_calls("self._try_inline_read")):
        ck.ob("C11.starter-args", f, m.ast, has(gfu[m.id], "self._read_until_close", True), "read_until_close arms the until-close mode before trying to read")
    ck.floor("C11.starter-args", n, 6, "argument stores")


def unsatisfiable(ck):
    repo = ck.repo
    methods: Dict[str, list] = {}
    for rel, cls in FAMILY:
        for fi in repo.direct_methods(rel, cls):
            methods.setdefault(fi.name, []).append(fi)

    def reraises(h: ast.ExceptHandler) -> bool:
        return any(isinstance(x, ast.Raise) and x.exc is None for s in h.body for x in q.walk_local(s))

    raising: Set[str] = set()

    def sites(fi):
        for x in q.walk_body(fi.node):
            if isinstance(x, ast.Raise) and x.exc is not None:
                e = x.exc.func if isinstance(x.exc, ast.Call) else x.exc
                if (q.dotted(e) or "").split(".")[-1] == UNSAT:
                    yield x
            elif isinstance(x, ast.Call) and isinstance(x.func, ast.Attribute) and x.func.attr in raising:
                recv = x.func.value
                if q.dotted(recv) == "self" or (isinstance(recv, ast.Call) and q.dotted(recv.func) == "super"):
                    yield x

    changed = True
    while changed:
        changed = False
        for name, fis in methods.items():
            if name in raising:
                continue
            for fi in fis:
                pm = q.parent_map(fi.node)
                for s in sites(fi):
                    # escapes unless some enclosing handler catches it without re-raising
                    esc = True
                    for _try, handlers in q.enclosing_try_handlers(pm, s):
                        hit = next((h for h in handlers if q.exc_is_caught(UNSAT, q.handler_names(h))), None)
                        if hit is not None:
                            if not reraises(hit):
                                esc = False
                            break
                    if esc:
                        raising.add(name)
                        changed = True
                        break
                if name in raising:
                    break
    ck.note("methods that may raise UnsatisfiableReadError: %s" % sorted(raising))
    ck.need("_find_read_pos" in raising and "_try_inline_read" in raising, "exception-escape closure lost the read path (got %s)" % sorted(raising))
    seen_h = set()
    n_h = 0
    for name, fis in sorted(methods.items()):
        for fi in fis:
            pm = q.parent_map(fi.node)
            for s in sites(fi):
                for _try, handlers in q.enclosing_try_handlers(pm, s):
                    hit = next((h for h in handlers if q.exc_is_caught(UNSAT, q.handler_names(h))), None)
                    if hit is None:
                        continue
                    if id(hit) not in seen_h:
                        seen_h.add(id(hit))
                        n_h += 1
                        ok = reraises(hit) and _always(fi, hit, lambda m: m.kind == "stmt" and isinstance(m.ast, ast.Raise))
                        if not ok:
                            ok = _always(fi, hit, lambda m: m.kind == "stmt" and (isinstance(m.ast, ast.Raise) or any(q.is_call(c, "self.close", "self.close_fd") for c in q.calls(m.ast))))
                        ck.ob("C11.unsatisfiable-closes", fi, hit, ok, "a handler that can receive UnsatisfiableReadError closes the stream (or re-raises) on every path")
                    break
    ck.floor("C11.unsatisfiable-closes", n_h, 5, "handlers receiving UnsatisfiableReadError")


def _always(fi, handler: ast.ExceptHandler, end) -> bool:
    """Every normal-exit path from the handler's entry passes a node matching end."""
    hn = [n for n in fi.cfg.nodes if n.kind == "handler" and n.ast is handler and n.id in fi.cfg.reachable()]
    if not hn:
        return True  # unreachable handler
    ids = {n.id for n in hn}
    return not _not_followed(fi, lambda n: n.id in ids, end)


# ---------------------------------------------------------------------------


def mode_fields(ck) -> List[str]:
    repo = ck.repo
    starters = [fi for fi in repo.direct_methods(IO, B) if q.find_calls(fi.node, "self._start_read")]
    ck.need(len(starters) >= 5, "fewer than 5 read entry points call _start_read")
    assigned: Set[str] = set()
    for fi in starters:
        for n in q.walk_body(fi.node):
            if isinstance(n, (ast.Assign, ast.AnnAssign, ast.AugAssign)):
                assigned |= {p for p in q.assigned_paths(n) if p.startswith("self.") and p.count(".") == 1}
    frp = repo.func(IO, B + "._find_read_pos")
    # fields that *select* the read mode: loaded inside a branch condition of _find_read_pos
    loaded = set()
    for tn in frp.cfg.stmt_nodes(lambda n: n.kind == "test"):
        te = resolve_at(repo, frp, tn.ast, tn)
        for x in ast.walk(te):
            if isinstance(x, ast.Attribute) and isinstance(x.ctx, ast.Load) and q.dotted(x) and q.dotted(x).count(".") == 1:
                loaded.add(q.dotted(x))
    cons = repo.func(IO, B + "._consume")
    shrunk = set()
    for n in q.walk_body(cons.node):
        if isinstance(n, (ast.Assign, ast.AugAssign, ast.Delete)):
            shrunk |= {p.replace("[]", "") for p in q.assigned_paths(n)}
    return sorted((assigned & loaded) - shrunk)


def extraction(ck):
    eff = ClassEffects(ck.repo, FAMILY)
    fields = mode_fields(ck)
    ck.note("read-mode fields (assigned by read entry points, tested by _find_read_pos, not buffer state): %s" % fields)
    ck.need(len(fields) >= 4, "derived fewer than 4 read-mode fields: %s" % fields)
    rfb = ck.func(IO, B + "._read_from_buffer")
    gf = guard_facts(rfb, eff)
    fr = rfb.cfg.stmt_nodes(node_calls("self._finish_read"))
    ck.floor("C11.read-mode-reset", len(fr), 1, "_finish_read calls in _read_from_buffer")
    pos = _params(rfb)[0]
    n = 0
    for node in fr:
        for f in fields:
            n += 1
            ok = has(gf[node.id], "%s is None" % f, True) or has(gf[node.id], f, False)
            ck.ob("C11.read-mode-reset", rfb, node.ast, ok, "%s is reset (None/False) on every path before the read is finished" % f, construct="%s reset before _finish_read" % f)
        c = q.find_calls(node.ast, "self._finish_read")[0]
        ck.ob("C11.read-mode-reset", rfb, node.ast, len(c.args) == 1 and q.dotted(c.args[0]) == pos, "_read_from_buffer finishes the read with the position it was given")
    ck.floor("C11.read-mode-reset", n, 4, "mode-field resets")

    # positions handed to _read_from_buffer are fresh, non-None finder results
    FINDERS = ("self._find_read_pos", "self._read_to_buffer_loop")
    n_sites = 0
    for fi in ck.repo.direct_methods(IO, B):
        sites = fi.cfg.find(lambda x: q.is_call(x, "self._read_from_buffer"))
        if not sites:
            continue
        g = guard_facts(fi, eff)
        for node, c in sites:
            n_sites += 1
            a = c.args[0] if c.args else None
            v = q.dotted(a) if a is not None else None
            ck.need(v and "." not in v, "_read_from_buffer argument is not a local name in %s" % fi.qualname)
            ef = event_facts(
                fi,
                # "fresh or None": a finder result, or the constant None (ruled out by the not-None guard checked below)
                {"fresh": lambda m, v=v: m.kind == "stmt" and isinstance(m.ast, ast.Assign) and q.assigned_paths(m.ast) == {v} and (q.is_call(m.ast.value, *FINDERS) or (isinstance(m.ast.value, ast.Constant) and m.ast.value.value is None))},
                {"fresh": lambda m, v=v: m.kind == "stmt" and ((isinstance(m.ast, ast.stmt) and v in q.assigned_paths(m.ast) and not (q.is_call(getattr(m.ast, "value", None), *FINDERS) or (isinstance(getattr(m.ast, "value", None), ast.Constant) and m.ast.value.value is None))) or any(q.is_call(x, "self._read_to_buffer", "self._read_to_buffer_loop", "self._consume", "self._finish_read") for x in q.calls(m.ast)) and not (isinstance(m.ast, ast.Assign) and q.assigned_paths(m.ast) == {v}))},
                cond_facts=False,
            )
            ck.ob("C11.fresh-position", fi, c, ("@fresh", True) in ef[node.id], "the position comes from _find_read_pos/_read_to_buffer_loop with no buffer change in between")
            ck.ob("C11.fresh-position", fi, c, has(g[node.id], "%s is None" % v, False), "the position is known not to be None")
    ck.floor("C11.fresh-position", n_sites, 2, "_read_from_buffer call sites")
    # _finish_read is called with a position or with everything buffered
    for fi in ck.repo.direct_methods(IO, B):
        for node, c in fi.cfg.find(lambda x: q.is_call(x, "self._finish_read")):
            a = c.args[0] if c.args else None
            ok = a is not None and (q.dotted(a) == "self._read_buffer_size" or (fi is rfb and q.dotted(a) == pos))
            ck.ob("C11.fresh-position", fi, c, ok, "_finish_read gets the checked position (via _read_from_buffer) or the whole buffered size (until-close reads)")

    # _read_to_buffer_loop returns only positions computed after its last fill
    lp = ck.func(IO, B + "._read_to_buffer_loop")
    FILL = ("self._read_to_buffer",)
    n_r = 0
    for node in lp.cfg.stmt_nodes(lambda n: n.kind == "stmt" and isinstance(n.ast, ast.Return)):
        n_r += 1
        v = node.ast.value
        if v is not None and q.is_call(v, "self._find_read_pos"):
            ck.ob("C11.loop-returns-fresh-pos", lp, node.ast, True, "returns the result of _find_read_pos() directly")
            continue
        name = q.dotted(v) if v is not None else None
        if not name:
            ck.ob("C11.loop-returns-fresh-pos", lp, node.ast, False, "every exit of _read_to_buffer_loop returns a position computed by _find_read_pos after the last fill (a constant/None return hides data that already satisfies the read)")
            continue
        ef = event_facts(
            lp,
            {"fresh": lambda m, name=name: m.kind == "stmt" and isinstance(m.ast, ast.Assign) and q.assigned_paths(m.ast) == {name} and q.is_call(m.ast.value, "self._find_read_pos")},
            {"fresh": lambda m, name=name: (m.kind in ("stmt", "test") and any(q.is_call(x, *FILL) for x in q.calls(m.ast))) or (m.kind == "stmt" and isinstance(m.ast, ast.stmt) and name in q.assigned_paths(m.ast) and not q.is_call(getattr(m.ast, "value", None), "self._find_read_pos"))},
            cond_facts=False,
        )
        ok_ = ("@fresh", True) in ef[node.id]
        if not ok_:
            # single exit with a result variable (`found = None` .. `if found is None: found = self._find_read_pos()`):
            # decide per path, correlating the is-None tests of the variable with what it holds
            ok_ = _fresh_on_every_path(lp, node, name, FILL)
        ck.ob("C11.loop-returns-fresh-pos", lp, node.ast, ok_, "the returned position was computed by _find_read_pos after the last _read_to_buffer()")
    ck.floor("C11.loop-returns-fresh-pos", n_r, 1, "returns in _read_to_buffer_loop")
    ex_facts = event_facts(lp, {"ret": lambda m: m.kind == "stmt" and isinstance(m.ast, ast.Return)}, cond_facts=False)
    ck.ob("C11.loop-returns-fresh-pos", lp, lp.node, ("@ret", True) in ex_facts[lp.cfg.exit.id], "_read_to_buffer_loop never falls off its end (implicit None)", construct="implicit return in _read_to_buffer_loop")
    # the loop stops filling when the fd has nothing more
    fills = lp.cfg.find(lambda x: q.is_call(x, *FILL))
    ck.floor("C11.loop-returns-fresh-pos", len(fills), 1, "_read_to_buffer calls in the loop")


def finish_read(ck):
    eff = ClassEffects(ck.repo, FAMILY)
    fi = ck.func(IO, B + "._finish_read")
    size = _params(fi)[0]
    n = check_take_and_clear(ck, "C11.finish-read", fi, "self._read_future", "the read future is resolved through take-and-clear (no second resolution, re-entrant reads see no pending future)")
    ck.floor("C11.finish-read", n, 1, "uses of the read future in _finish_read")
    ss = settle_sites(fi)
    ck.floor("C11.finish-read", len(ss), 1, "settle sites in _finish_read")
    gf = guard_facts(fi, eff)
    for node, c, p, kind in ss:
        ck.ob("C11.finish-read", fi, c, kind == "safe", "the read future is resolved with future_set_result_unless_cancelled")
        res = c.args[1] if len(c.args) > 1 else None
        rname = q.dotted(res) if res is not None else None
        ck.need(rname, "result of the read is not a local name in _finish_read")
        stores = [m for m in fi.cfg.stmt_nodes(lambda m: m.kind == "stmt" and isinstance(m.ast, (ast.Assign, ast.AnnAssign)) and rname in q.assigned_paths(m.ast))]
        ck.floor("C11.finish-read", len(stores), 2, "assignments of the read result")
        for m in stores:
            v = m.ast.value
            if q.dotted(v) == size:
                ck.ob("C11.finish-read", fi, m.ast, _in_branch(fi, m, True), "the byte count is the result only for caller-buffer reads (read_into)")
            elif q.is_call(v, "self._consume"):
                ck.ob("C11.finish-read", fi, m.ast, len(v.args) == 1 and q.dotted(v.args[0]) == size and _in_branch(fi, m, False), "normal reads return _consume(size) of exactly the requested size")
            else:
                ck.ob("C11.finish-read", fi, m.ast, False, "the read result is either the byte count (caller buffer) or _consume(size)")
        # result defined on every path
        ef = event_facts(fi, {"res": lambda m: m in stores}, cond_facts=False)
        ck.ob("C11.finish-read", fi, c, ("@res", True) in ef[node.id], "a result is computed on every path before the future is resolved")
    # swap back
    switch = fi.cfg.stmt_nodes(lambda m: m.kind == "stmt" and isinstance(m.ast, ast.Assign) and "self._user_read_buffer" in q.assigned_paths(m.ast) and isinstance(m.ast.value, ast.Constant) and m.ast.value.value is False)
    if switch:
        ck.ob("C11.user-buffer-restore", fi, fi.node, True, "_finish_read leaves caller-buffer mode (_user_read_buffer = False)")
    else:
        missing_effect(ck, "C11.user-buffer-restore", fi, eff, {"self._user_read_buffer"}, "_finish_read leaves caller-buffer mode (_user_read_buffer = False)", "_user_read_buffer = False in _finish_read")
    ef = event_facts(
        fi,
        {
            "restored": lambda m: m.kind == "stmt" and isinstance(m.ast, ast.Assign) and "self._read_buffer" in q.assigned_paths(m.ast) and "self._after_user_read_buffer" in {q.dotted(x) for x in ast.walk(m.ast.value)},
            "sized": lambda m: m.kind == "stmt" and isinstance(m.ast, ast.Assign) and "self._read_buffer_size" in q.assigned_paths(m.ast) and q.is_call(m.ast.value, "len") and q.dotted(m.ast.value.args[0]) == "self._read_buffer",
            "dropped": lambda m: m.kind == "stmt" and isinstance(m.ast, ast.Assign) and "self._after_user_read_buffer" in q.assigned_paths(m.ast) and isinstance(m.ast.value, ast.Constant) and m.ast.value.value is None,
        },
        {
            "sized": lambda m: m.kind == "stmt" and isinstance(m.ast, ast.Assign) and "self._read_buffer" in q.assigned_paths(m.ast),
            "restored": lambda m: False,
        },
        cond_facts=False,
    )
    for m in switch:
        ck.ob("C11.user-buffer-restore", fi, m.ast, _in_branch(fi, m, True), "caller-buffer mode is left in the caller-buffer branch only")
    # must-facts at exit are intersected with the other arm; evaluate at the end of the caller-buffer arm instead
    end_facts = _branch_end_facts(fi, ef, True)
    ck.ob("C11.user-buffer-restore", fi, fi.node, ("@restored", True) in end_facts, "caller-buffer branch restores self._read_buffer from the saved buffer", construct="restore of _read_buffer in caller-buffer branch")
    ck.ob("C11.user-buffer-restore", fi, fi.node, ("@sized", True) in end_facts, "caller-buffer branch re-measures _read_buffer_size = len(self._read_buffer) after the restore", construct="re-measure _read_buffer_size after restore")
    ck.ob("C11.user-buffer-restore", fi, fi.node, ("@dropped", True) in end_facts, "the saved buffer reference is dropped once restored", construct="drop _after_user_read_buffer")


def _user_arms(fi):
    """(caller-buffer arm, normal arm) of the if that tests self._user_read_buffer."""
    for x in fi.node.body:
        if isinstance(x, ast.If) and x.orelse:
            if q.dotted(x.test) == "self._user_read_buffer":
                return x.body, x.orelse
            if isinstance(x.test, ast.UnaryOp) and isinstance(x.test.op, ast.Not) and q.dotted(x.test.operand) == "self._user_read_buffer":
                return x.orelse, x.body
    raise AnalysisError("_finish_read does not branch on self._user_read_buffer with both arms")


def _in_branch(fi, m, user: bool) -> bool:
    arms = _user_arms(fi)
    body = arms[0] if user else arms[1]
    return any(m.ast is x for s in body for x in ast.walk(s))


def _branch_end_facts(fi, ef, user: bool):
    """must-facts after the last statement of the chosen arm (facts at entry of
    the arm's last statement plus what it generates are approximated by the
    facts at the first node after the if that is reached from this arm only:
    we use the intersection over the arm's own exit edges)."""
    arms = _user_arms(fi)
    body = arms[0] if user else arms[1]
    last = body[-1]
    nodes = [n for n in fi.cfg.stmt_nodes(lambda n: n.kind == "stmt" and n.ast is last)]
    if not nodes:
        raise AnalysisError("last statement of the caller-buffer arm is not a simple statement")
    n = nodes[0]
    facts = set(ef[n.id])
    # add what the last statement itself generates / kills
    a = n.ast
    if isinstance(a, ast.Assign):
        ap = q.assigned_paths(a)
        if "self._read_buffer" in ap:
            facts.discard(("@sized", True))
            if "self._after_user_read_buffer" in {q.dotted(x) for x in ast.walk(a.value)}:
                facts.add(("@restored", True))
        if "self._read_buffer_size" in ap and q.is_call(a.value, "len") and q.dotted(a.value.args[0]) == "self._read_buffer":
            facts.add(("@sized", True))
        if "self._after_user_read_buffer" in ap and isinstance(a.value, ast.Constant) and a.value.value is None:
            facts.add(("@dropped", True))
    return facts


# ---------------------------------------------------------------------------


def consume(ck):
    fi = ck.func(IO, B + "._consume")
    loc = _params(fi)[0]
    decs = fi.cfg.stmt_nodes(lambda m: m.kind == "stmt" and isinstance(as_aug(m.ast), ast.AugAssign) and isinstance(as_aug(m.ast).op, ast.Sub) and q.dotted(as_aug(m.ast).target) == "self._read_buffer_size")
    dels = fi.cfg.stmt_nodes(lambda m: m.kind == "stmt" and isinstance(m.ast, ast.Delete) and "self._read_buffer[]" in q.assigned_paths(m.ast))
    ceff = ClassEffects(ck.repo, FAMILY)
    if decs:
        ck.ob("C11.consume-pair", fi, fi.node, True, "_consume decreases _read_buffer_size")
    else:
        missing_effect(ck, "C11.consume-pair", fi, ceff, {"self._read_buffer_size"}, "_consume decreases _read_buffer_size", "size decrement in _consume")
    if dels:
        ck.ob("C11.consume-pair", fi, fi.node, True, "_consume deletes the consumed bytes from the read buffer")
    else:
        missing_effect(ck, "C11.consume-pair", fi, ceff, {"self._read_buffer"}, "_consume deletes the consumed bytes from the read buffer", "deletion in _consume")
    for m in decs:
        ck.ob("C11.consume-pair", fi, m.ast, q.dotted(as_aug(m.ast).value) == loc, "_read_buffer_size shrinks by exactly loc")
    for m in dels:
        t = m.ast.targets[0]
        ok = isinstance(t, ast.Subscript) and isinstance(t.slice, ast.Slice) and t.slice.lower is None and t.slice.step is None and q.dotted(t.slice.upper) == loc
        ck.ob("C11.consume-pair", fi, m.ast, ok, "exactly the first loc bytes are deleted from the read buffer")

    def is_slice(x):
        return isinstance(x, ast.Subscript) and isinstance(x.ctx, ast.Load) and isinstance(x.slice, ast.Slice) and x.slice.lower is None and x.slice.step is None and q.dotted(x.slice.upper) == loc and "self._read_buffer" in {q.dotted(y) for y in ast.walk(x.value)}

    takes = fi.cfg.stmt_nodes(lambda m: m.kind == "stmt" and any(is_slice(x) for x in q.walk_local(m.ast)))
    ck.ob("C11.consume-pair", fi, fi.node, len(takes) >= 1, "the returned bytes are the slice [:loc] of the read buffer", construct="slice [:loc] of the read buffer in _consume")
    ef = event_facts(fi, {"taken": lambda m: m in takes}, cond_facts=False)
    for m in dels:
        ck.ob("C11.consume-pair", fi, m.ast, ("@taken", True) in ef[m.id], "the bytes are copied out before they are deleted")
    # what is returned
    tnames = set()
    for m in takes:
        if isinstance(m.ast, ast.Assign):
            tnames |= {p for p in q.assigned_paths(m.ast)}
    gf = guard_facts(fi)
    for m in fi.cfg.stmt_nodes(lambda m: m.kind == "stmt" and isinstance(m.ast, ast.Return)):
        v = m.ast.value
        if isinstance(v, ast.Constant):
            ok = v.value == b"" and any(_zero_only(t, p, loc) for t, p in gf[m.id])
            ck.ob("C11.consume-pair", fi, m.ast, ok, "the empty result is returned only for loc == 0")
        else:
            ok = v is not None and (q.dotted(v) in tnames or any(is_slice(x) for x in ast.walk(v)))
            ck.ob("C11.consume-pair", fi, m.ast, ok, "the result is the copied slice")

    # paired on every path
    def tr(n, val):
        a, b = val
        if n in decs:
            a = min(a + 1, 2)
        if n in dels:
            b = min(b + 1, 2)
        return (a, b)

    seen = explore(fi.cfg, (0, 0), tr, lambda t: False, follow_exc=False)
    states = {v for _f, v in seen.get(fi.cfg.exit.id, ())}
    ck.ob("C11.consume-pair", fi, fi.node, states <= {(0, 0), (1, 1)} and (1, 1) in states, "size decrement and deletion happen together, once (path states %s)" % sorted(states), construct="(decrements, deletions) per path = %s" % sorted(states))

    # who else shrinks the buffer
    n_w = 0
    for rel, cls in FAMILY:
        for f in ck.repo.direct_methods(rel, cls):
            for st in q.walk_body(f.node):
                if isinstance(as_aug(st), ast.AugAssign) and isinstance(as_aug(st).op, ast.Sub) and q.dotted(as_aug(st).target) == "self._read_buffer_size":
                    n_w += 1
                    ck.ob("C11.consume-only-shrinker", f, st, f is fi, "_read_buffer_size is decreased only by _consume")
                elif isinstance(st, ast.Delete) and "self._read_buffer[]" in q.assigned_paths(st):
                    n_w += 1
                    ck.ob("C11.consume-only-shrinker", f, st, f is fi or f.qualname == B + ".read_into", "bytes are deleted from the read buffer only by _consume (and read_into's hand-over)")
                elif isinstance(st, ast.Call) and q.receiver(st) == "self._read_buffer" and q.call_attr(st) in ("clear", "pop", "remove", "reverse"):
                    ck.ob("C11.consume-only-shrinker", f, st, False, "the read buffer is not edited in place outside _consume")
            for c in q.find_calls(f.node, "self._consume"):
                ck.ob("C11.consume-only-shrinker", f, c, f.qualname == B + "._finish_read", "_consume is called only by _finish_read")
    ck.floor("C11.consume-only-shrinker", n_w, 1, "shrinking sites")
    # the close path never touches what was received: _read_buffer / _read_buffer_size are (re)bound only where a
    # read starts or ends, never by close()/_signal_closed() (buffered bytes stay readable after a close, also after an error)
    n_b = 0
    for rel, cls in FAMILY:
        for f in ck.repo.direct_methods(rel, cls):
            for st in q.walk_body(f.node):
                if not isinstance(st, (ast.Assign, ast.AnnAssign)):
                    continue
                ap = q.assigned_paths(st)
                if not ({"self._read_buffer", "self._read_buffer_size"} & ap) or isinstance(as_aug(st), ast.AugAssign):
                    continue
                n_b += 1
                if f.name in ("close", "_signal_closed", "_handle_events", "_handle_read", "_handle_write", "close_fd"):
                    ck.ob("C11.buffer-writers", f, st, False, "the close / event path does not discard or replace received bytes (%s is re-bound here; data already buffered must stay available to later and until-close reads)" % sorted({"self._read_buffer", "self._read_buffer_size"} & ap))
                elif f.name in ("__init__", "read_into", "_finish_read", "_read_to_buffer", "_consume"):
                    ck.ob("C11.buffer-writers", f, st, True, "read buffer (re)bound where a read starts / ends")
                else:
                    raise AnalysisError("%s re-binds the read buffer state; not one of the functions known to start or end a read" % f.qualname)
    ck.floor("C11.buffer-writers", n_b, 4, "assignments of the read buffer state")


def _zero_only(t: str, p: bool, var: str) -> bool:
    if var not in t:
        return False
    try:
        vals = {k for k in range(0, 4) if bool(q.fold(ast.parse(t, mode="eval").body, {var: k})) == p}
    except q.NotFoldable:
        return False
    return vals == {0}


def fill(ck):
    eff = ClassEffects(ck.repo, FAMILY)
    fi = ck.func(IO, B + "._read_to_buffer")
    reads = fi.cfg.stmt_nodes(lambda m: m.kind == "stmt" and isinstance(m.ast, ast.Assign) and q.is_call(m.ast.value, "self.read_from_fd"))
    ck.floor("C11.fill-pair", len(reads), 1, "read_from_fd calls in _read_to_buffer")
    nvar = q.dotted(reads[0].ast.targets[0])
    bufvar = q.dotted(reads[0].ast.value.args[0]) if reads[0].ast.value.args else None
    ck.need(nvar and bufvar, "read_from_fd(buf) result / argument are not local names")
    grows = fi.cfg.stmt_nodes(lambda m: m.kind == "stmt" and isinstance(m.ast, ast.AugAssign) and isinstance(m.ast.op, ast.Add) and q.dotted(m.ast.target) == "self._read_buffer")
    sizes = fi.cfg.stmt_nodes(lambda m: m.kind == "stmt" and isinstance(as_aug(m.ast), ast.AugAssign) and isinstance(as_aug(m.ast).op, ast.Add) and q.dotted(as_aug(m.ast).target) == "self._read_buffer_size")
    ck.floor("C11.fill-pair", len(grows), 1, "buffer growth statements")
    ck.floor("C11.fill-pair", len(sizes), 1, "size updates")
    gf = guard_facts(fi, eff)
    for m in grows:
        v = m.ast.value
        sl = [x for x in ast.walk(v) if isinstance(x, ast.Subscript) and isinstance(x.slice, ast.Slice)]
        ok = len(sl) == 1 and sl[0].slice.lower is None and sl[0].slice.step is None and q.dotted(sl[0].slice.upper) == nvar and bufvar in _names(sl[0].value)
        ck.ob("C11.fill-pair", fi, m.ast, ok, "only the first %s bytes of the chunk (the count read_from_fd returned) are appended to the read buffer" % nvar)
        ck.ob("C11.fill-pair", fi, m.ast, has(gf[m.id], "self._user_read_buffer", False), "the internal buffer grows only when not reading into a caller's buffer")
    for m in sizes:
        ck.ob("C11.fill-pair", fi, m.ast, q.dotted(as_aug(m.ast).value) == nvar, "_read_buffer_size grows by the count read_from_fd returned")
    ef = event_facts(fi, {"read": lambda m: m in reads}, {"read": lambda m: False}, cond_facts=False)
    for m in grows + sizes:
        ck.ob("C11.fill-pair", fi, m.ast, ("@read", True) in ef[m.id], "growth follows a completed read_from_fd on every path")

    def tr(n, val):
        a, b, mode = val
        if n in grows:
            a = min(a + 1, 2)
        if n in sizes:
            b = min(b + 1, 2)
        if n.kind == "stmt" and any(q.receiver(c) == "self" and q.call_attr(c) in eff.methods and "self._user_read_buffer" in (eff.writes(q.call_attr(c)) or {"self._user_read_buffer"}) for c in q.calls(n.ast)):
            mode = None  # a self call that may change the mode
        return (a, b, mode)

    def edge_mode(n, kind, val):
        a, b, mode = val
        for t, pol in edge_facts(n, kind, gf):
            if t == "self._user_read_buffer":
                mode = pol
        return (a, b, mode)

    seen = explore(fi.cfg, (0, 0, None), tr, lambda t: False, edge_transfer=edge_mode)
    states = {(frozenset({("self._user_read_buffer", True)}) if mode else frozenset(), (a, b)) for _f, (a, b, mode) in seen.get(fi.cfg.exit.id, ())}
    vals = {v for _f, v in states}
    ck.ob("C11.fill-pair", fi, fi.node, vals <= {(0, 0), (0, 1), (1, 1)} and ((1, 1) in vals), "every append to the buffer is matched by one size update (path states %s)" % sorted(vals), construct="(appends, size updates) per path = %s" % sorted(vals))
    for f, v in sorted(states, key=repr):
        if v == (0, 1):
            ck.ob("C11.fill-pair", fi, fi.node, ("self._user_read_buffer", True) in f, "a size update without an append happens only in caller-buffer mode (the fd wrote into the buffer itself)", construct="size update without append outside caller-buffer mode")
    # caller-buffer mode: the fd writes after the bytes already there
    # (statement, expression used in caller-buffer mode): assigned under the mode test, or the matching arm of a
    # conditional expression `view if self._user_read_buffer else chunk`
    views = []
    for m in fi.cfg.stmt_nodes(lambda m: m.kind == "stmt" and isinstance(m.ast, (ast.Assign, ast.AnnAssign)) and bufvar in q.assigned_paths(m.ast)):
        v = m.ast.value
        if isinstance(v, ast.IfExp):
            t_ = v.test
            neg = False
            while isinstance(t_, ast.UnaryOp) and isinstance(t_.op, ast.Not):
                t_, neg = t_.operand, not neg
            if q.dotted(t_) == "self._user_read_buffer":
                views.append((m, v.orelse if neg else v.body))
                continue
        if has(gf[m.id], "self._user_read_buffer", True):
            views.append((m, v))
    if not views:
        raise AnalysisError("_read_to_buffer: cannot see which buffer read_from_fd is given in caller-buffer mode")
    for m, v in views:
        ok = isinstance(v, ast.Subscript) and isinstance(v.slice, ast.Slice) and q.dotted(v.slice.lower) == "self._read_buffer_size" and v.slice.upper is None and "self._read_buffer" in {q.dotted(x) for x in ast.walk(v.value)}
        ck.ob("C11.fill-pair", fi, m.ast, ok, "in caller-buffer mode the fd reads into the buffer starting at _read_buffer_size (after the bytes already received)")
    # the buffer limit refuses only what exceeds max_buffer_size
    fulls = fi.cfg.stmt_nodes(lambda m: m.kind == "stmt" and isinstance(m.ast, ast.Raise) and m.ast.exc is not None and "StreamBufferFullError" in q.unparse(m.ast.exc))
    for m in fulls:
        # the refusal block is straight-line (log, close, raise): read the facts at its first statement,
        # before close() - which may legitimately change the buffer - invalidates them
        first = m
        while True:
            ps = [(fi.cfg.nodes[p_], k_) for p_, k_ in fi.cfg.pred[first.id]]
            if len(ps) == 1 and ps[0][1] == "next" and ps[0][0].kind == "stmt":
                first = ps[0][0]
            else:
                break
        rel = [(t, p) for t, p in gf[first.id] if not t.startswith("@") and "self.max_buffer_size" in t and "self._read_buffer_size" in t]
        bad = []
        for s_ in range(0, 5):
            for mx in range(0, 5):
                try:
                    hold = bool(rel) and all(bool(q.fold(ast.parse(t, mode="eval").body, {"self._read_buffer_size": s_, "self.max_buffer_size": mx})) == p for t, p in rel)
                except q.NotFoldable as ex:
                    raise AnalysisError("cannot evaluate the read buffer limit guard: %s" % ex)
                if hold != (s_ > mx):
                    bad.append("buffered=%d max=%d" % (s_, mx))
        if not rel:
            raise AnalysisError("the StreamBufferFullError raise in _read_to_buffer is not guarded by a comparison of _read_buffer_size with max_buffer_size that can be recognised")
        ck.ob("C11.buffer-limit", fi, m.ast, not bad, "incoming data is refused (stream closed, StreamBufferFullError) only when the buffered amount exceeds max_buffer_size; data that exactly fills the buffer is delivered%s" % ((" - differs at " + ", ".join(bad[:4])) if bad else ""))
    # EOF (read_from_fd returned 0) closes the stream; "nothing to read" (None) does not
    closes = fi.cfg.stmt_nodes(lambda m: m.kind == "stmt" and any(q.is_call(c, "self.close") and not c.args and not c.keywords for c in q.calls(m.ast)))
    eof_close = False
    for m in closes:
        rel = [(t, p) for t, p in gf[m.id] if not t.startswith("@") and nvar in {x.id for x in ast.walk(ast.parse(t, mode="eval")) if isinstance(x, ast.Name)}]
        sat = set()
        for k in (None, 0, 1, 7):
            try:
                if all(bool(q.fold(ast.parse(t, mode="eval").body, {nvar: k})) == p for t, p in rel):
                    sat.add(k)
            except (q.NotFoldable, TypeError):
                pass
        if rel and sat == {0}:
            eof_close = True
    ck.ob("C11.eof-closes", fi, fi.node, eof_close, "when read_from_fd reports EOF (0 bytes) - and only then - _read_to_buffer closes the stream (until-close reads complete, pending reads fail)", construct="EOF closes the stream in _read_to_buffer")
    for m in fi.cfg.stmt_nodes(lambda m: m.kind == "stmt" and isinstance(m.ast, ast.Return) and isinstance(m.ast.value, ast.Constant) and m.ast.value.value == 0):
        rel = [(t, p) for t, p in gf[m.id] if not t.startswith("@") and nvar in {x.id for x in ast.walk(ast.parse(t, mode="eval")) if isinstance(x, ast.Name)}]
        sat = set()
        for k in (None, 0, 1, 7):
            try:
                if all(bool(q.fold(ast.parse(t, mode="eval").body, {nvar: k})) == p for t, p in rel):
                    sat.add(k)
            except (q.NotFoldable, TypeError):
                pass
        ck.ob("C11.eof-closes", fi, m.ast, bool(rel) and not (sat & {1, 7}), "'no progress' (return 0) is reported only when read_from_fd returned None or 0, never after bytes were received")
    # EOF / would-block produce no growth
    for m in sizes:
        rel = [(t, p) for t, p in gf[m.id] if not t.startswith("@") and nvar in {x.id for x in ast.walk(ast.parse(t, mode="eval")) if isinstance(x, ast.Name)}]
        can_be_none = True
        if rel:
            try:
                can_be_none = all(bool(q.fold(ast.parse(t, mode="eval").body, {nvar: None})) == p for t, p in rel)
            except (q.NotFoldable, TypeError):
                can_be_none = True
        ck.ob("C11.fill-pair", fi, m.ast, not can_be_none, "no size update when read_from_fd returned None (would block)")


def read_into(ck):
    eff = ClassEffects(ck.repo, FAMILY)
    fi = ck.func(IO, B + ".read_into")
    buf = _params(fi)[0]
    gf = guard_facts(fi, eff)
    tis = fi.cfg.stmt_nodes(node_calls("self._try_inline_read"))
    ck.floor("C11.read-into-swap", len(tis), 1, "_try_inline_read in read_into")
    # names
    avail = [st for st in q.walk_body(fi.node) if isinstance(st, ast.Assign) and q.dotted(st.value) == "self._read_buffer_size" and isinstance(st.targets[0], ast.Name)]
    nlen = [st for st in q.walk_body(fi.node) if isinstance(st, ast.Assign) and q.is_call(st.value, "len") and q.dotted(st.value.args[0]) == buf and isinstance(st.targets[0], ast.Name)]
    ck.need(len(avail) <= 1 and len(nlen) == 1, "read_into does not name len(buf) / samples the buffered amount more than once")
    # the buffered amount: a local sampled from _read_buffer_size, or the attribute itself when it is re-read
    av = avail[0].targets[0].id if avail else "self._read_buffer_size"
    nn = nlen[0].targets[0].id

    def stores_buf(m):
        return m.kind == "stmt" and isinstance(m.ast, ast.Assign) and isinstance(m.ast.targets[0], ast.Subscript) and q.dotted(m.ast.targets[0].value) == buf

    copies = fi.cfg.stmt_nodes(stores_buf)
    ck.floor("C11.read-into-swap", len(copies), 2, "copies of buffered bytes into the caller's buffer")
    swap = lambda m: m.kind == "stmt" and isinstance(m.ast, ast.Assign) and "self._read_buffer" in q.assigned_paths(m.ast) and q.dotted(m.ast.value) == buf
    dele = lambda m: m.kind == "stmt" and isinstance(m.ast, ast.Delete) and "self._read_buffer[]" in q.assigned_paths(m.ast)
    save = lambda m: m.kind == "stmt" and isinstance(m.ast, ast.Assign) and "self._after_user_read_buffer" in q.assigned_paths(m.ast) and q.dotted(m.ast.value) == "self._read_buffer"
    ef = event_facts(
        fi,
        {
            "swapped": swap,
            "copied": stores_buf,
            "deleted": dele,
            "saved": save,
            "mode": lambda m: m.kind == "stmt" and isinstance(m.ast, ast.Assign) and "self._user_read_buffer" in q.assigned_paths(m.ast) and isinstance(m.ast.value, ast.Constant) and m.ast.value.value is True,
            "size": (lambda m: m.kind == "stmt" and isinstance(m.ast, ast.Assign) and "self._read_buffer_size" in q.assigned_paths(m.ast) and q.dotted(m.ast.value) == av) if avail else (lambda m: m.kind == "entry"),
            "want": lambda m: m.kind == "stmt" and isinstance(m.ast, ast.Assign) and "self._read_bytes" in q.assigned_paths(m.ast) and q.dotted(m.ast.value) == nn,
            "started": node_calls("self._start_read"),
        },
        None if avail else {"size": lambda m: m.kind == "stmt" and isinstance(m.ast, (ast.Assign, ast.AugAssign)) and "self._read_buffer_size" in q.assigned_paths(m.ast)},
        cond_facts=False,
    )
    for m in tis:
        for ev, what in (("swapped", "the caller's buffer becomes the read buffer"), ("mode", "_user_read_buffer is set"), ("size", "_read_buffer_size describes the bytes already copied into it (%s)" % av), ("want", "_read_bytes is the caller buffer's length (%s)" % nn), ("started", "the read future exists")):
            ck.ob("C11.read-into-swap", fi, m.ast, ("@" + ev, True) in ef[m.id], "before trying to read: %s" % what, construct="%s before _try_inline_read" % ev)
    # the buffered amount is sampled before anything is moved
    for st in avail:
        for m in fi.cfg.nodes_for(st):
            ck.ob("C11.read-into-swap", fi, st, not any((e, True) in ef[m.id] for e in ("@swapped", "@deleted", "@copied")), "the buffered amount is sampled before bytes are moved")
    # copies use the old buffer, i.e. happen before the swap
    for m in copies:
        ck.ob("C11.read-into-swap", fi, m.ast, ("@swapped", True) not in ef[m.id] and not _reaches(fi.cfg, {x.id for x in fi.cfg.stmt_nodes(swap)}, m.id), "buffered bytes are copied into the caller's buffer before the buffers are swapped")
        t = m.ast.targets[0]
        v = m.ast.value
        vs = [x for x in ast.walk(v) if isinstance(x, ast.Subscript) and isinstance(x.slice, ast.Slice)]
        ck.need(len(vs) == 1 and isinstance(t.slice, ast.Slice), "copy into the caller's buffer is not slice-to-slice")
        full = has(gf[m.id], "%s >= %s" % (av, nn), True)
        if full:
            ok = t.slice.lower is None and t.slice.upper is None and vs[0].slice.lower is None and q.dotted(vs[0].slice.upper) == nn
            ck.ob("C11.read-into-swap", fi, m.ast, ok, "when enough is buffered exactly the first %s bytes fill the caller's buffer" % nn)
        else:
            ok = t.slice.lower is None and q.dotted(t.slice.upper) == av and vs[0].slice.lower is None and vs[0].slice.upper is None
            ck.ob("C11.read-into-swap", fi, m.ast, ok and has(gf[m.id], "%s > 0" % av, True), "otherwise everything buffered (%s bytes) goes to the front of the caller's buffer" % av)
    # consumed prefix deleted, remainder saved - only on the 'enough buffered' path, in this order
    dn = fi.cfg.stmt_nodes(dele)
    sn = fi.cfg.stmt_nodes(save)
    swap_ids = {x.id for x in fi.cfg.stmt_nodes(swap)}
    after_swap = set()
    work = list(swap_ids)
    while work:
        x_ = work.pop()
        for y_, _k in fi.cfg.succ[x_]:
            if y_ not in after_swap:
                after_swap.add(y_)
                work.append(y_)

    def before_swap(c):
        # the hand-over of buffered bytes has to happen before the buffers are swapped
        return any(m.id not in after_swap for m in fi.cfg.nodes_for(c))

    if dn:
        ck.ob("C11.read-into-swap", fi, fi.node, True, "the bytes copied out of the internal buffer are deleted from it")
    else:
        missing_effect(ck, "C11.read-into-swap", fi, eff, {"self._read_buffer"}, "the bytes copied out of the internal buffer are deleted from it", "delete copied prefix in read_into", only_calls=before_swap)
    if sn:
        ck.ob("C11.read-into-swap", fi, fi.node, True, "the remainder of the internal buffer is saved for after the read")
    else:
        missing_effect(ck, "C11.read-into-swap", fi, eff, {"self._after_user_read_buffer"}, "the remainder of the internal buffer is saved for after the read", "save remainder in read_into", only_calls=before_swap)
    for m in dn:
        t = m.ast.targets[0]
        ok = isinstance(t.slice, ast.Slice) and t.slice.lower is None and q.dotted(t.slice.upper) == nn
        ck.ob("C11.read-into-swap", fi, m.ast, ok and ("@copied", True) in ef[m.id] and has(gf[m.id], "%s >= %s" % (av, nn), True), "exactly the %s copied bytes are deleted, after the copy" % nn)
    for m in sn:
        ck.ob("C11.read-into-swap", fi, m.ast, ("@deleted", True) in ef[m.id] and ("@swapped", True) not in ef[m.id], "the remainder is saved after the consumed prefix was deleted and before the swap")


def _reaches(cfg, starts: Set[int], target: int) -> bool:
    seen = set()
    work = list(starts)
    while work:
        x = work.pop()
        for y, _k in cfg.succ[x]:
            if y not in seen:
                seen.add(y)
                work.append(y)
    return target in seen


def _fresh_on_every_path(fi, ret_node, name: str, fill) -> bool:
    """Path-sensitive form of loop-returns-fresh-pos.  State = (fresh, null): ``fresh`` - ``name`` holds a
    _find_read_pos() result and nothing was read into the buffer since; ``null`` - 'Y' the variable is None,
    'N' it is not, '?' unknown.  ``name is None`` / ``name is not None`` tests refine ``null`` and prune
    contradictory branches.  True iff the variable is fresh in every state that reaches the return."""
    from ..cfg import explore

    def transfer(n, val):
        fresh, null = val
        if n.kind in ("stmt", "test") and any(q.is_call(x, *fill) for x in q.calls(n.ast)):
            fresh = False
            filled = True
        else:
            filled = False
        if n.kind == "stmt" and isinstance(n.ast, ast.stmt) and name in q.assigned_paths(n.ast):
            st = n.ast
            plain = isinstance(st, ast.Assign) and len(st.targets) == 1 and q.dotted(st.targets[0]) == name
            if plain and not filled and q.is_call(st.value, "self._find_read_pos"):
                return (True, "?")
            if plain and isinstance(st.value, ast.Constant) and st.value.value is None:
                return (False, "Y")
            return (False, "?")
        if n.kind in ("for", "with") and any(isinstance(x, ast.Name) and x.id == name and isinstance(x.ctx, ast.Store) for x in ast.walk(n.ast)):
            return (False, "?")
        return (fresh, null)

    def edge(n, kind, val):
        if n.kind != "test" or kind not in ("true", "false"):
            return val
        t, pol = n.ast, kind == "true"
        while isinstance(t, ast.UnaryOp) and isinstance(t.op, ast.Not):
            t, pol = t.operand, not pol
        if isinstance(t, ast.Compare) and len(t.ops) == 1 and isinstance(t.ops[0], (ast.Is, ast.IsNot)) and q.dotted(t.left) == name and isinstance(t.comparators[0], ast.Constant) and t.comparators[0].value is None:
            isnone = isinstance(t.ops[0], ast.Is) == pol
            fresh, null = val
            if (null == "Y" and not isnone) or (null == "N" and isnone):
                return None
            return (fresh, "Y" if isnone else "N")
        return val

    seen = explore(fi.cfg, (False, "?"), transfer, lambda t: False, edge_transfer=edge)
    states = seen.get(ret_node.id, set())
    return bool(states) and all(v[0] for _f, v in states)


def run(ck):
    ck.rule("C11.max-bytes-checked", "_find_read_pos: every delimiter/regex position returned was passed to _check_max_bytes (same expression) and every unsuccessful search checks the buffered size")
    ck.rule("C11.search-coverage", "_find_read_pos searches every byte that can still belong to a match: from 0, or from a remembered offset that keeps len(delimiter)-1 bytes of overlap and is reset per read; regex searches always cover the whole buffer")
    ck.rule("C11.position-value", "_find_read_pos: the delimiter position is find(delimiter) + len(delimiter); the regex position is search(buffer).end()")
    ck.rule("C11.starter-args", "every read entry point registers the read and stores its arguments in the read-mode fields before it tries to read")
    ck.rule("C11.find-pos-fixed", "_find_read_pos fixed-size branch: satisfiable iff buffered >= n or (partial and buffered > 0); returns min(n, buffered) (CFG folded over a finite domain)")
    ck.rule("C11.max-bytes-raise", "_check_max_bytes raises UnsatisfiableReadError iff max_bytes is set and size > max_bytes; read_until* store the limit before reading")
    ck.rule("C11.unsatisfiable-closes", "every handler that can receive UnsatisfiableReadError closes the stream or re-raises")
    ck.rule("C11.read-mode-reset", "_read_from_buffer resets every read-mode field before _finish_read(pos)")
    ck.rule("C11.fresh-position", "positions given to _read_from_buffer/_finish_read are fresh non-None finder results (or the whole buffered size)")
    ck.rule("C11.loop-returns-fresh-pos", "_read_to_buffer_loop returns only _find_read_pos results computed after its last fill")
    ck.rule("C11.finish-read", "_finish_read: take-and-clear of the read future; result is _consume(size) or, in caller-buffer mode only, size")
    ck.rule("C11.user-buffer-restore", "_finish_read swaps the internal buffer back and re-measures it when leaving caller-buffer mode")
    ck.rule("C11.close-completes-reads", "close() - for any reason, clean or error - finishes a pending until-close read and checks any other pending read against the buffered data before closing the fd (buffered bytes that satisfy a pending read are delivered, not dropped)")
    ck.rule("C11.read-end-mode", "every function that ends a read (self._read_future = None) leaves caller-buffer mode, so the next read returns bytes from the internal buffer")
    ck.rule("C11.buffer-writers", "the read buffer and its size are re-bound only where a read starts or ends (init, read_into, _finish_read), never on the close / event path")
    ck.rule("C11.consume-pair", "_consume: copy [:loc], then delete [:loc] and decrease the size by loc, together and once; empty only for loc == 0")
    ck.rule("C11.consume-only-shrinker", "_consume (called only by _finish_read) is the only code that removes bytes from the read buffer, besides read_into's hand-over")
    ck.rule("C11.fill-pair", "_read_to_buffer: appended bytes = first n of the chunk, size += n, n = read_from_fd's count; caller-buffer reads land at offset _read_buffer_size")
    ck.rule("C11.buffer-limit", "_read_to_buffer refuses incoming data exactly when _read_buffer_size > max_buffer_size (guard folded over a grid)")
    ck.rule("C11.eof-closes", "_read_to_buffer closes the stream exactly on EOF (0) and reports 'no progress' only for None/0")
    ck.rule("C11.read-into-swap", "read_into: copy buffered bytes, delete the copied prefix, save the remainder, then swap buffers and describe the new buffer, all before reading")
    normalised(ck)
    find_read_pos(ck)
    starters(ck)
    unsatisfiable(ck)
    extraction(ck)
    finish_read(ck)
    consume(ck)
    fill(ck)
    read_into(ck)
    close_completes_reads(ck, "C11.close-completes-reads")
    n = read_end_mode(ck, "C11.read-end-mode")
    ck.floor("C11.read-end-mode", n, 1, "read-ending sites")


# ---------------------------------------------------------------------------
# mutants


def _in(qn, edit):
    return lambda repo: mutate(repo, IO, qn, edit)


def _src(n):
    return ast.unparse(n)


def _nth(pred, k, action):
    """apply action(body, index) to the k-th statement (document order) satisfying pred"""
    def edit(root):
        cnt = [0]

        def visit(node):
            for fld in ("body", "orelse", "finalbody", "handlers"):
                b = getattr(node, fld, None)
                if not isinstance(b, list):
                    continue
                i = 0
                while i < len(b):
                    st = b[i]
                    if isinstance(st, ast.stmt) and pred(st):
                        if cnt[0] == k:
                            action(b, i)
                            cnt[0] += 1
                            return True
                        cnt[0] += 1
                    if visit(st):
                        return True
                    i += 1
            return False

        return visit(root)

    return edit


def _delete(b, i):
    if len(b) == 1:
        b[i] = ast.Pass()
    else:
        del b[i]


def _is_check(st):
    return isinstance(st, ast.Expr) and "_check_max_bytes" in _src(st)


def _split_reset(root):
    for n in ast.walk(root):
        if isinstance(n, ast.Assign) and len(n.targets) == 3:
            n.targets = [t for t in n.targets if "_read_delimiter" not in _src(t)]
            return True
    return False


def _swap_adjacent(pred_first):
    def edit(root):
        for n in ast.walk(root):
            b = getattr(n, "body", None)
            if isinstance(b, list):
                for i in range(len(b) - 1):
                    if pred_first(b[i]):
                        b[i], b[i + 1] = b[i + 1], b[i]
                        return True
        return False

    return edit


def _consume_delete_first(root):
    b = root.body
    i = [k for k, s in enumerate(b) if isinstance(s, ast.Delete)]
    j = [k for k, s in enumerate(b) if isinstance(s, ast.Assign) and "tobytes" in _src(s)]
    if i and j:
        st = b.pop(i[0])
        b.insert(j[0], st)
        return True
    return False


def _search_cache(overlap: bool):
    """seeded C11-adv1: read_until remembers how far the buffer was searched"""
    def make(repo):
        def edit_cls(cls):
            ok = [False, False, False]
            for fn in cls.body:
                if isinstance(fn, ast.FunctionDef) and fn.name == "__init__":
                    fn.body.append(parse_stmt("self._read_delimiter_pos = 0"))
                    ok[0] = True
                if isinstance(fn, ast.FunctionDef) and fn.name == "read_until":
                    for i, st in enumerate(fn.body):
                        if isinstance(st, ast.Assign) and _src(st.targets[0]) == "self._read_delimiter":
                            fn.body.insert(i + 1, parse_stmt("self._read_delimiter_pos = 0"))
                            ok[1] = True
                            break
                if isinstance(fn, ast.FunctionDef) and fn.name == "_find_read_pos":
                    for n in ast.walk(fn):
                        if isinstance(n, ast.Call) and _src(n.func) == "self._read_buffer.find":
                            n.args.append(parse_expr("self._read_delimiter_pos"))
                        b = getattr(n, "body", None)
                        if isinstance(b, list):
                            for i, st in enumerate(b):
                                if isinstance(st, ast.Expr) and "_check_max_bytes(self._read_delimiter, self._read_buffer_size)" in _src(st):
                                    val = "max(0, self._read_buffer_size - len(self._read_delimiter) + 1)" if overlap else "self._read_buffer_size"
                                    b.insert(i + 1, parse_stmt("self._read_delimiter_pos = " + val))
                                    ok[2] = True
                                    break
            return all(ok)
        return mutate(repo, IO, B, edit_cls)
    return make


MUTANTS = [
    ("seeded C11-adv6: _signal_closed empties the read buffer when the close carried an error", _in(B + "._signal_closed", lambda root: (root.body.extend(ast.parse("if self.error is not None and not self._user_read_buffer:\n    self._read_buffer = bytearray()\n    self._read_buffer_size = 0").body) or True)), "C11.buffer-writers"),
    ("seeded C11-adv4: close() completes a satisfiable pending read only for clean closes", _in(B + ".close", replace_expr(lambda n: isinstance(n, ast.Compare) and _src(n) == "self._read_future is not None", lambda n: parse_expr("self._read_future is not None and not exc_info"))), "C11.close-completes-reads"),
    ("seeded C11-adv1: search-position cache without the len(delimiter)-1 overlap", _search_cache(False), "C11.search-coverage"),
    ("regex search resumes at the old buffer size", _in(B + "._find_read_pos", replace_expr(lambda n: isinstance(n, ast.Call) and _src(n.func) == "self._read_regex.search", lambda n: ast.Call(func=n.func, args=n.args + [parse_expr("self._read_buffer_size - 1")], keywords=[]))), "C11.search-coverage"),
    ("delimiter position returned unchecked", _in(B + "._find_read_pos", _nth(_is_check, 0, _delete)), "C11.max-bytes-checked"),
    ("max_bytes checked without the delimiter length", _in(B + "._find_read_pos", replace_expr(lambda n: isinstance(n, ast.Call) and "_check_max_bytes" in _src(n.func) and isinstance(n.args[1], ast.BinOp), lambda n: ast.Call(func=n.func, args=[n.args[0], n.args[1].left], keywords=[]))), "C11.max-bytes-checked"),
    ("delimiter position excludes the delimiter's last byte", _in(B + "._find_read_pos", replace_stmt(lambda st: isinstance(st, ast.Assign) and _src(st.targets[0]) == "delimiter_len", lambda st: [parse_stmt("delimiter_len = len(self._read_delimiter) - 1")])), "C11.position-value"),
    ("regex read stops at the start of the match", _in(B + "._find_read_pos", replace_expr(lambda n: isinstance(n, ast.Attribute) and n.attr == "end", lambda n: ast.Attribute(value=n.value, attr="start", ctx=ast.Load()))), "C11.position-value"),
    ("read_bytes ignores partial=True", _in(B + ".read_bytes", remove_stmts(lambda st: isinstance(st, ast.Assign) and _src(st.targets[0]) == "self._read_partial")), "C11.starter-args"),
    ("regex not-found path skips the size check", _in(B + "._find_read_pos", _nth(_is_check, 3, _delete)), "C11.max-bytes-checked"),
    ("_check_max_bytes tolerates max_bytes + 1 (> becomes >=... reversed)", _in(B + "._check_max_bytes", replace_expr(lambda n: isinstance(n, ast.Compare) and isinstance(n.ops[0], ast.Gt), lambda n: ast.Compare(left=n.left, ops=[ast.Gt()], comparators=[ast.BinOp(left=n.comparators[0], op=ast.Add(), right=ast.Constant(value=1))]))), "C11.max-bytes-raise"),
    ("read_until forgets to store max_bytes", _in(B + ".read_until", remove_stmts(lambda st: isinstance(st, ast.Assign) and "_read_max_bytes" in _src(st.targets[0]))), "C11.max-bytes-raise"),
    ("read_until swallows UnsatisfiableReadError without closing", _in(B + ".read_until", remove_stmts(lambda st: isinstance(st, ast.Expr) and "self.close(exc_info=e)" in _src(st))), "C11.unsatisfiable-closes"),
    ("_handle_events logs UnsatisfiableReadError but keeps the stream open", _in(B + "._handle_events", _nth(lambda st: isinstance(st, ast.Expr) and "self.close(exc_info=e)" in _src(st), 0, _delete)), "C11.unsatisfiable-closes"),
    ("_read_from_buffer leaves _read_delimiter set", _in(B + "._read_from_buffer", _split_reset), "C11.read-mode-reset"),
    ("_read_from_buffer leaves _read_partial set", _in(B + "._read_from_buffer", remove_stmts(lambda st: isinstance(st, ast.Assign) and "_read_partial" in _src(st.targets[0]))), "C11.read-mode-reset"),
    ("partial read satisfied by an empty buffer (> 0 becomes >= 0)", _in(B + "._find_read_pos", replace_expr(lambda n: isinstance(n, ast.Compare) and isinstance(n.ops[0], ast.Gt) and _src(n.comparators[0]) == "0", lambda n: ast.Compare(left=n.left, ops=[ast.GtE()], comparators=n.comparators))), "C11.find-pos-fixed"),
    ("fixed-size read returns n even if fewer are buffered", _in(B + "._find_read_pos", replace_expr(lambda n: isinstance(n, ast.Call) and _src(n.func) == "min", lambda n: n.args[0])), "C11.find-pos-fixed"),
    ("loop exit returns None instead of re-scanning", _in(B + "._read_to_buffer_loop", replace_stmt(lambda st: isinstance(st, ast.Return) and st.value is not None and "_find_read_pos" in _src(st.value), lambda st: [ast.Return(value=ast.Constant(value=None))])), "C11.loop-returns-fresh-pos"),
    ("_try_inline_read uses the pre-fill position", _in(B + "._try_inline_read", replace_stmt(lambda st: isinstance(st, ast.Assign) and "_read_to_buffer_loop" in _src(st.value), lambda st: [ast.Expr(value=st.value)])), "C11.fresh-position"),
    ("_finish_read resolves before clearing the future", _in(B + "._finish_read", _swap_adjacent(lambda s: isinstance(s, ast.Assign) and _src(s.targets[0]) == "self._read_future")), "C11.finish-read"),
    ("_finish_read keeps the stale size after swapping buffers back", _in(B + "._finish_read", remove_stmts(lambda st: isinstance(st, ast.Assign) and _src(st.targets[0]) == "self._read_buffer_size")), "C11.user-buffer-restore"),
    ("_finish_read stays in caller-buffer mode (result kind of the next read)", _in(B + "._finish_read", replace_stmt(lambda st: isinstance(st, ast.Assign) and _src(st) == "self._user_read_buffer = False", lambda st: [parse_stmt("self._user_read_buffer = bool(self._after_user_read_buffer)")])), "C11.read-end-mode"),
    ("_consume forgets the size", _in(B + "._consume", remove_stmts(lambda st: isinstance(st, ast.AugAssign))), "C11.consume-pair"),
    ("_consume deletes before copying", _in(B + "._consume", _consume_delete_first), "C11.consume-pair"),
    ("EOF treated like 'nothing to read' (if not bytes_read: return 0)", _in(B + "._read_to_buffer", replace_stmt(lambda st: isinstance(st, ast.If) and _src(st.test) == "bytes_read is None", lambda st: [ast.If(test=parse_expr("not bytes_read"), body=[parse_stmt("return 0")], orelse=[])])), "C11.eof-closes"),
    ("seeded C11-adv2: buffer limit refuses data that exactly fills the buffer (>=)", _in(B + "._read_to_buffer", replace_expr(lambda n: isinstance(n, ast.Compare) and "max_buffer_size" in _src(n) and isinstance(n.ops[0], ast.Gt), lambda n: ast.Compare(left=n.left, ops=[ast.GtE()], comparators=n.comparators))), "C11.buffer-limit"),
    ("_read_to_buffer appends the whole chunk", _in(B + "._read_to_buffer", replace_expr(lambda n: isinstance(n, ast.Subscript) and isinstance(n.slice, ast.Slice) and _src(n.slice.upper or ast.Constant(value=0)) == "bytes_read", lambda n: n.value)), "C11.fill-pair"),
    ("caller-buffer read overwrites received bytes", _in(B + "._read_to_buffer", replace_expr(lambda n: isinstance(n, ast.Subscript) and isinstance(n.slice, ast.Slice) and _src(n.slice.lower or ast.Constant(value=0)) == "self._read_buffer_size", lambda n: n.value)), "C11.fill-pair"),
    ("read_into keeps the copied prefix in the internal buffer", _in(B + ".read_into", remove_stmts(lambda st: isinstance(st, ast.Delete))), "C11.read-into-swap"),
    ("read_into forgets how much it already copied", _in(B + ".read_into", replace_stmt(lambda st: isinstance(st, ast.Assign) and _src(st.targets[0]) == "self._read_buffer_size", lambda st: [parse_stmt("self._read_buffer_size = 0")])), "C11.read-into-swap"),
    ("read_into swaps before copying", _in(B + ".read_into", lambda root: _move_swap_first(root)), "C11.read-into-swap"),
]


def _move_swap_first(root):
    b = root.body
    i = [k for k, s in enumerate(b) if isinstance(s, ast.Assign) and _src(s) == "self._read_buffer = buf"]
    j = [k for k, s in enumerate(b) if isinstance(s, ast.If) and "available_bytes" in _src(s.test)]
    if i and j and j[0] < i[0]:
        st = b.pop(i[0])
        b.insert(j[0], st)
        return True
    return False
