"""C44 — options: wrong values and unknown options are rejected, not silently accepted (thin).

Decided statically (DESIGN.md §4 C44): the parser dispatch of ``_Option.parse`` covers the types whose constructor
does not parse text (bool, datetime, timedelta); every non-string parser of that table has an *effective rejecting
path* (an exception that leaves the function) and never returns its raw input; everything stored by ``parse`` went
through the selected parser; ``value()`` falls back to the default exactly when unset; on the command line an
unknown name cannot reach the next argument or the normal exit, a missing ``=value`` is accepted only for ``bool``,
and the parsed text is the part after ``=``; ``_Option.set`` type-checks what it stores; ``parse_config_file`` sends
``str`` values of non-``str`` options through ``parse``.  Not decided: that each accepted text denotes the right value.
"""
from __future__ import annotations

import ast
import copy

from .. import q
from ..cfg import explore, must_facts, canon_fact, holds
from ..rules import call_sites
from ..mutate import mutate, remove_stmts, replace_stmt, replace_expr, parse_stmt, parse_expr
from ..model import AnalysisError
from ..x_scope import own_nodes, strip_annotations
from ..x_flow import protected, check_default_only_for_none, check_exact, param_value_flow, DEFAULT, derivation, resolve_local, expand_locals, expanded_facts, concrete_paths

TECHNIQUE = "table extraction + exception-escape lint on the dispatch parsers + guard-dominance / path-sensitive exploration of the command-line and config paths"
EXPLANATION = (
    "The dict literal in _Option.parse is extracted (key type -> parser method, .get default); each non-string parser is searched for an effective "
    "rejecting path (explicit raise or failing lookup keyed by the input that is not swallowed) and for returns of the raw parameter; stores into "
    "self._value are traced to calls of the selected parser; value() is folded for set/unset; parse_command_line is explored path-sensitively for the "
    "unknown-name and missing-value branches; _Option.set and parse_config_file are explored on their type predicates."
)
NOT_DECIDED = "value denotation: that the accepted textual forms of each type yield the value they denote (timedelta units, date formats, integer ranges, which words are true/false)"

F = "tornado/options.py"
STRING_KEYS = ("str", "basestring_type", "unicode_type", "bytes")
NEEDS_PARSER = ("bool", "datetime.datetime", "datetime.timedelta")


def _exc_name(r):
    e = r.exc
    if e is None:
        return None
    if isinstance(e, ast.Call):
        e = e.func
    return q.dotted(e)


def _caught_by(pm, node, exc):
    h = protected(pm, node, exc)
    if h is None and exc not in q.EXC_PARENT and exc.split(".")[-1] not in q.EXC_PARENT and exc not in ("BaseException",):
        h = protected(pm, node, "Exception")  # module-defined exception classes derive from Exception
    return h


def _handler_reraises(h):
    return bool(h.body) and isinstance(h.body[-1], ast.Raise)


_REPO = None
_PURE_BUILTINS = {"str", "int", "float", "bool", "len", "isinstance", "repr", "min", "max", "abs", "round", "sum", "any", "all", "sorted", "list", "tuple", "dict", "set", "range", "enumerate", "zip",
                  "_unicode", "native_str", "to_unicode", "utf8"}


def _callee_in_module(call):
    f = call.func
    if _REPO is None:
        return None
    if isinstance(f, ast.Attribute) and q.dotted(f.value) in ("self", "cls", "_Option") and _REPO.has_func(F, "_Option." + f.attr):
        return _REPO.func(F, "_Option." + f.attr)
    if isinstance(f, ast.Name) and _REPO.has_func(F, f.id):
        return _REPO.func(F, f.id)
    return None


def rejects_or_unknown(fi, param, depth=0):
    """(effective reject constructs, opaque calls): rejects are searched in the function and, one or two levels deep, in
    the same-class / same-module helpers it calls; calls that are neither builtins nor methods of str/regex/datetime values
    nor resolvable helpers are 'opaque' (they might raise: absence of a reject is then not established)."""
    rej = list(effective_rejects(fi, param))
    opaque = []
    for c in q.calls(fi.node):
        h = _callee_in_module(c)
        if h is not None:
            if depth < 2:
                hp = [p for p in h.params() if p not in ("self", "cls")]
                r2, o2 = rejects_or_unknown(h, hp[0] if hp else "", depth + 1)
                # a helper reject only counts if it is not swallowed at the call site
                pm = q.parent_map(fi.node)
                hd = _caught_by(pm, c, "Exception")
                if r2 and (hd is None or _handler_reraises(hd)):
                    rej.append(c)
                opaque.extend(o2)
            else:
                opaque.append(c)
            continue
        f = c.func
        if isinstance(f, ast.Name):
            if f.id not in _PURE_BUILTINS and f.id[:1].islower():
                opaque.append(c)
        elif isinstance(f, ast.Attribute):
            root = q.dotted(f.value)
            if root is not None and root.split(".")[0] in ("self", "cls") and not root.startswith("self._TIMEDELTA") and not root.startswith("self._DATETIME"):
                if f.attr not in ("get",):
                    opaque.append(c)
    return rej, opaque


def effective_rejects(fi, param):
    """Constructs through which ``fi`` rejects its input with an exception that leaves the function."""
    pm = q.parent_map(fi.node)
    out = []
    for n in own_nodes(fi.node):
        if isinstance(n, ast.Raise):
            if n.exc is None:
                continue  # a bare re-raise only forwards; it is credited to the raise/lookup it forwards
            nm = _exc_name(n) or "Exception"
            h = _caught_by(pm, n, nm)
            if h is None or _handler_reraises(h):
                out.append(n)
        elif isinstance(n, ast.Subscript) and isinstance(n.ctx, ast.Load) and param in q.names_in(n.slice) and not isinstance(n.slice, ast.Slice):
            # failing lookup keyed by the input (KeyError/IndexError)
            h = _caught_by(pm, n, "LookupError") or _caught_by(pm, n, "KeyError")
            if h is None or _handler_reraises(h):
                out.append(n)
    return out


def rule_dispatch(ck):
    parse = ck.func(F, "_Option.parse")
    tables = []
    for n in own_nodes(parse.node):
        if isinstance(n, ast.Call) and isinstance(n.func, ast.Attribute) and n.func.attr == "get" and isinstance(n.func.value, ast.Dict):
            tables.append(n)
    if len(tables) != 1:
        raise AnalysisError("_Option.parse: expected one `{type: parser}.get(self.type, ...)` dispatch, found %d" % len(tables))
    call = tables[0]
    d = call.func.value
    ck.ob("C44.dispatch", parse, call, len(call.args) == 2 and q.dotted(call.args[0]) == "self.type" and q.dotted(call.args[1]) == "self.type",
          "the parser is selected by the option's type; types without an entry are parsed by their own constructor")
    entries = {}
    for k, v in zip(d.keys, d.values):
        kd = q.dotted(k) if k is not None else None
        vd = q.dotted(v)
        if kd is None or vd is None or not vd.startswith("self."):
            raise AnalysisError("dispatch entry %s: %s is not `type: self.method`" % (q.unparse(k) if k else "**", q.unparse(v)))
        entries[kd] = vd[5:]
    for t in NEEDS_PARSER:
        ck.ob("C44.dispatch", parse, d, t in entries, "%s has a dedicated parser (its constructor does not parse text: bool('false') is True, datetime/timedelta take numbers)" % t, construct="entry " + t)
    # the binding name of the selected parser
    pm = q.parent_map(parse.node)
    st = q.enclosing_stmt(pm, call)
    sel = [p for p in q.assigned_paths(st)] if isinstance(st, (ast.Assign, ast.AnnAssign)) and st.value is call else []
    if len(sel) != 1:
        raise AnalysisError("_Option.parse: the selected parser is not bound to one local name")
    sel = sel[0]
    return parse, entries, sel


def rule_parsers(ck, entries):
    n = 0
    for key, meth in sorted(entries.items()):
        fi = ck.func(F, "_Option." + meth)
        params = [p for p in fi.params() if p != "self"]
        if len(params) != 1:
            raise AnalysisError("%s does not take exactly the text to parse" % fi.qualname)
        prm = params[0]
        if key in STRING_KEYS:
            ck.note("string entry %s -> %s: every text is a valid value, no rejecting path required" % (key, meth))
            continue
        n += 1
        rej, opaque = rejects_or_unknown(fi, prm)
        if not rej and opaque:
            raise AnalysisError("%s: no reject found but it calls %s, which is not followed" % (fi.qualname, q.unparse(opaque[0].func)))
        ck.ob("C44.rejecting-path", fi, fi.node, len(rej) >= 1,
              "the %s parser can reject its input: at least one raise / failing lookup that is not swallowed inside the function (found %d)" % (key, len(rej)), construct="no-rejecting-path")
        for r in own_nodes(fi.node):
            if isinstance(r, ast.Return):
                ck.ob("C44.no-passthrough", fi, r, not (r.value is not None and q.dotted(r.value) == prm), "the %s parser never hands back its raw input as the parsed value" % key)
        if not any(isinstance(r, ast.Return) and r.value is not None for r in own_nodes(fi.node)):
            ck.ob("C44.no-passthrough", fi, fi.node, False, "the %s parser returns a value" % key, construct="no-return-value")
    ck.floor("C44.rejecting-path", n, 1, "non-string dispatch parsers")


def _parser_helper(call, sel):
    """(helper, its parser parameter, its text parameter, the text argument at the call) for `self._h(text, _parse)`:
    a same-class helper that is handed the selected parser and one piece of text; None otherwise."""
    h = _callee_in_module(call) if isinstance(call, ast.Call) else None
    if h is None or call.keywords:
        return None
    hp = [p for p in h.params() if p not in ("self", "cls")]
    if len(hp) != len(call.args) or len(hp) != 2:
        return None
    ds = [q.dotted(a) for a in call.args]
    if ds.count(sel) != 1:
        return None
    i = ds.index(sel)
    return h, hp[i], hp[1 - i], call.args[1 - i]


def _parsed_names(fn, sel):
    is_sel_call = lambda e: isinstance(e, ast.Call) and q.dotted(e.func) == sel and len(e.args) == 1 and not e.keywords
    names = set()
    for n in own_nodes(fn.node):
        if isinstance(n, ast.Assign) and len(n.targets) == 1 and isinstance(n.targets[0], ast.Name):
            v = n.value
            if is_sel_call(v) or (isinstance(v, ast.IfExp) and all(is_sel_call(x) or (isinstance(x, ast.Name) and x.id in names) for x in (v.body, v.orelse))):
                names.add(n.targets[0].id)
    return names


def _range_of_parsed(a, names):
    return isinstance(a, ast.Call) and q.dotted(a.func) == "range" and all(
        all(isinstance(x, ast.Constant) or (isinstance(x, ast.Name) and x.id in names) for x in ast.walk(arg) if isinstance(x, (ast.Name, ast.Constant))) for arg in a.args)


def rule_stores(ck, parse, sel):
    """Everything parse() stores into self._value came out of the selected parser."""
    is_sel_call = lambda e: isinstance(e, ast.Call) and q.dotted(e.func) == sel and len(e.args) == 1 and not e.keywords
    parsed_names = set()
    for n in own_nodes(parse.node):
        if isinstance(n, ast.Assign) and len(n.targets) == 1 and isinstance(n.targets[0], ast.Name):
            v = n.value
            if is_sel_call(v) or (isinstance(v, ast.IfExp) and all(is_sel_call(x) or (isinstance(x, ast.Name) and x.id in parsed_names) for x in (v.body, v.orelse))):
                parsed_names.add(n.targets[0].id)
    ok_val = lambda e: is_sel_call(e) or (isinstance(e, ast.Name) and e.id in parsed_names)
    cnt = 0
    for n in own_nodes(parse.node):
        if isinstance(n, (ast.Assign, ast.AnnAssign)) and "self._value" in q.assigned_paths(n):
            cnt += 1
            v = n.value
            okv_ = ok_val(v) or (isinstance(v, ast.List) and not v.elts)
            if not okv_ and any(isinstance(x, ast.Call) and (_callee_in_module(x) is not None or (isinstance(x.func, ast.Attribute) and q.dotted(x.func.value) == "self")) for x in ast.walk(v)):
                raise AnalysisError("_Option.parse stores the result of %s: parsing inside helpers is not followed" % q.unparse(v)[:60])
            ck.ob("C44.stores-parsed", parse, n, okv_, "self._value is assigned the selected parser's result (or a fresh empty list for multiple)")
        elif isinstance(n, ast.Call) and isinstance(n.func, ast.Attribute) and q.dotted(n.func.value) == "self._value":
            cnt += 1
            if n.func.attr == "append":
                ck.ob("C44.stores-parsed", parse, n, len(n.args) == 1 and ok_val(n.args[0]), "each comma-separated part is parsed before it is appended")
            elif n.func.attr == "extend":
                a = n.args[0] if n.args else None
                ph = _parser_helper(a, sel)
                if ph is not None:
                    h_, hsel, _htext, _targ = ph
                    hn = _parsed_names(h_, hsel)
                    rets_ = [r for r in own_nodes(h_.node) if isinstance(r, ast.Return) and r.value is not None]
                    if not rets_:
                        raise AnalysisError("range helper %s returns nothing" % h_.qualname)
                    for r in rets_:
                        rv = r.value
                        if not (isinstance(rv, ast.Call) and q.dotted(rv.func) == "range"):
                            raise AnalysisError("range helper %s returns %s (not followed)" % (h_.qualname, q.unparse(rv)[:40]))
                        ck.ob("C44.stores-parsed", ck.use(h_), r, _range_of_parsed(rv, hn), "range bounds are parsed values")
                    continue
                if not (isinstance(a, ast.Call) and q.dotted(a.func) == "range"):
                    raise AnalysisError("_Option.parse extends self._value with %s (not followed)" % (q.unparse(a)[:50] if a is not None else "nothing"))
                ck.ob("C44.stores-parsed", parse, n, _range_of_parsed(a, parsed_names), "range bounds are parsed values")
            else:
                raise AnalysisError("unknown way of storing into self._value in _Option.parse: %s" % q.unparse(n))
    ck.floor("C44.stores-parsed", cnt, 3, "stores into self._value in _Option.parse")
    # the text handed to the parser derives from the parameter
    prm = [p for p in parse.params() if p != "self"][0]
    derived = {prm}
    changed = True
    while changed:
        changed = False
        for n in own_nodes(parse.node):
            tg, val = None, None
            if isinstance(n, ast.Assign):
                tg, val = n.targets, n.value
            elif isinstance(n, ast.For):
                tg, val = [n.target], n.iter
            if val is not None and derived & q.names_in(val) and not any(is_sel_call(x) for x in ast.walk(val)):
                for t in tg:
                    for nm in q.names_in(t):
                        if nm not in derived and nm != "self":
                            derived.add(nm)
                            changed = True
    for n in own_nodes(parse.node):
        if is_sel_call(n):
            ck.ob("C44.stores-parsed", parse, n, bool(q.names_in(n.args[0]) & derived), "the parser is applied to (a piece of) the given text")


def rule_default(ck):
    fi = ck.func(F, "_Option.value")
    rets = [n for n in own_nodes(fi.node) if isinstance(n, ast.Return)]
    if not rets or any(r.value is None for r in rets):
        raise AnalysisError("_Option.value does not return a value on every return: unknown idiom")
    unset = "<UNSET>"

    def run_value(cur):
        env0 = {"self._value": cur, "_Option.UNSET": unset, "self.UNSET": unset, "self.default": "DEFAULT"}

        def event(n, env):
            if n.kind == "stmt" and isinstance(n.ast, ast.Return):
                e2 = dict(env0)
                e2.update(env)
                try:
                    return "ret=%r" % (q.fold(n.ast.value, e2),)
                except q.NotFoldable as e:
                    raise AnalysisError("_Option.value expression not foldable: %s" % e)
            return None

        outs = concrete_paths(fi, env0, event, event_env=True)
        vals = sorted({t[-1] for k_, t in outs if k_ == "return" and t})
        if len(vals) != 1:
            raise AnalysisError("_Option.value: result for _value=%r is not determined by folding (%s)" % (cur, vals))
        return vals[0]

    a, b, c = run_value(unset), run_value(0), run_value(None)
    a, b, c = ("DEFAULT" if a == "ret='DEFAULT'" else a), (0 if b == "ret=0" else b), (None if c == "ret=None" else c)
    ck.ob("C44.default", fi, rets[0], a == "DEFAULT" and b == 0 and c is None, "value() is the default exactly when nothing was parsed/set; an explicitly set falsy value (0, None) is kept")
    init = ck.func(F, "_Option.__init__")
    st = [s for s in q.stores_to(init.node, "self._value")]
    ck.ob("C44.default", init, st[0] if st else init.node, len(st) == 1 and q.dotted(st[0].value) in ("_Option.UNSET", "self.UNSET"), "a new option starts unset")


def rule_command_line(ck):
    """parse_command_line decided by finite-domain evaluation of one loop iteration: for every combination of
    (option known?, `=` present?, value text, option is bool?) the iteration is folded on its CFG and must end in exactly the
    expected outcome (raise / parse(<text>)).  The name and value handed on are traced back to the partition of the argument."""
    fi = ck.func(F, "OptionParser.parse_command_line")
    cfg = fi.cfg
    argsp = [p for p in fi.params() if p != "self"][0]
    pnodes = [n for n in cfg.stmt_nodes(lambda n: n.kind == "stmt" and isinstance(n.ast, ast.Assign) and isinstance(n.ast.value, ast.Call) and q.call_attr(n.ast.value) in ("partition", "rpartition")
                                         and n.ast.value.args and q.is_const(n.ast.value.args[0], "=") and isinstance(n.ast.targets[0], ast.Tuple) and len(n.ast.targets[0].elts) == 3
                                         and all(isinstance(e, ast.Name) for e in n.ast.targets[0].elts))]
    if len(pnodes) != 1:
        raise AnalysisError("parse_command_line: expected one `name, equals, value = arg.partition('=')`")
    pnode = pnodes[0]
    name, equals, value = (e.id for e in pnode.ast.targets[0].elts)
    opts = "self._options"
    # lookups: self._options[K]  or  O = self._options.get(K)
    subs = [n for n in own_nodes(fi.node) if isinstance(n, ast.Subscript) and q.dotted(n.value) == opts]
    gets = [c for c in q.find_calls(fi.node, opts + ".get")]
    if any(len(c.args) != 1 or c.keywords for c in gets):
        raise AnalysisError("parse_command_line: self._options.get with a default: unknown idiom")
    key_exprs = [sb.slice for sb in subs] + [c.args[0] for c in gets]
    ck.floor("C44.unknown-option", len(key_exprs), 1, "option lookups")
    get_names = set()
    pm = q.parent_map(fi.node)
    for c in gets:
        st = q.enclosing_stmt(pm, c)
        if not (isinstance(st, ast.Assign) and st.value is c and len(st.targets) == 1 and isinstance(st.targets[0], ast.Name)):
            raise AnalysisError("parse_command_line: result of self._options.get() is not bound to a name")
        get_names.add(st.targets[0].id)
    parses = call_sites(fi, ".parse")
    ck.floor("C44.missing-value", len(parses), 1, "option.parse call sites")
    parse_ids = {n.id for n, _c in parses}
    is_arg = lambda x: isinstance(resolve_local(fi, x), ast.Subscript) and q.dotted(resolve_local(fi, x).value) == argsp and not isinstance(resolve_local(fi, x).slice, ast.Slice)

    def make_subst(known, isbool):
        class T(ast.NodeTransformer):
            def visit_Compare(self, node):
                if len(node.ops) == 1:
                    l, op, r = node.left, node.ops[0], node.comparators[0]
                    if isinstance(op, (ast.In, ast.NotIn)) and q.dotted(r) == opts:
                        return ast.Constant(value=known if isinstance(op, ast.In) else not known)
                    if isinstance(l, ast.Name) and l.id in get_names and isinstance(op, (ast.Is, ast.IsNot)) and q.is_const(r, None):
                        return ast.Constant(value=(not known) if isinstance(op, ast.Is) else known)
                    if (q.dotted(l) or "").endswith(".type") and isinstance(r, ast.Name) and r.id == "bool" and isinstance(op, (ast.Eq, ast.Is, ast.NotEq, ast.IsNot)):
                        return ast.Constant(value=isbool if isinstance(op, (ast.Eq, ast.Is)) else not isbool)
                    if is_arg(l) and isinstance(op, (ast.Eq, ast.NotEq)) and isinstance(r, ast.Constant):
                        return ast.Constant(value=isinstance(op, ast.NotEq))  # the argument is an option, not "--"
                return self.generic_visit(node)

            def visit_Call(self, node):
                if isinstance(node.func, ast.Attribute) and node.func.attr == "startswith" and is_arg(node.func.value):
                    return ast.Constant(value=True)  # the argument starts with "-"
                if q.dotted(node.func) == "issubclass" and len(node.args) == 2 and (q.dotted(node.args[0]) or "").endswith(".type") and q.dotted(node.args[1]) == "bool":
                    return ast.Constant(value=isbool)
                return self.generic_visit(node)

            def visit_Name(self, node):
                if node.id in get_names and isinstance(node.ctx, ast.Load):
                    return ast.Constant(value="<option>") if known else ast.Constant(value=None)
                return node

        return lambda e: T().visit(copy.deepcopy(e))

    def event(n, env):
        if n.id == pnode.id:
            return "arg"
        if n.id in parse_ids:
            c = [c_ for n_, c_ in parses if n_.id == n.id][0]
            try:
                return "parse:%r" % (q.fold(c.args[0], env),) if len(c.args) == 1 else "parse:?"
            except q.NotFoldable:
                return "parse:?"
        return None

    TRUE_WORDS = ("true", "1", "t", "yes", "y", "on")
    rows = 0
    for known in (True, False):
        for eq, val in (("", ""), ("=", ""), ("=", "x"), ("=", "a=b")):
            for isbool in (True, False):
                def hook(n, env, eq=eq, val=val):
                    if n.id == pnode.id:
                        env = dict(env)
                        env.update({name: "opt", equals: eq, value: val})
                        return env
                    return None

                outs = concrete_paths(fi, {}, event, subst=make_subst(known, isbool), event_env=True, assign_hook=hook,
                                      cut=lambda n, trace: n.kind == "for" and "arg" in trace)
                outs = {(k, tuple(x for x in t if x != "arg")) for k, t in outs if "arg" in t}
                got = sorted({(t + ("raise",)) if k == "raise" else t for k, t in outs})
                if len(got) != 1:
                    raise AnalysisError("parse_command_line: outcome for (known=%s, '%s%s', bool=%s) is not determined by folding its conditions: %s" % (known, eq, val, isbool, got))
                g = got[0]
                if not known:
                    ok, rule, why = g == ("raise",), "C44.unknown-option", "an unrecognised option name always ends in an exception"
                elif eq == "":
                    rule = "C44.missing-value"
                    if isbool:
                        ok = len(g) == 1 and g[0].startswith("parse:'") and g[0][7:-1].lower() in TRUE_WORDS
                        why = "`--flag` without `=value` on a bool option parses a true word"
                    else:
                        ok, why = g == ("raise",), "`--name` without `=value` is rejected for non-bool options"
                else:
                    rule = "C44.missing-value"
                    ok, why = g == ("parse:%r" % (val,),), "`--name=%s` hands exactly %r to option.parse (an explicitly empty value is a value)" % (val, val)
                rows += 1
                ck.ob(rule, fi, fi.node, ok, "%s (known=%s, bool=%s; outcome: %s)" % (why, known, isbool, ",".join(g)), construct="cmdline known=%s eq=%r value=%r bool=%s -> %s" % (known, eq, val, isbool, ",".join(g)))
    ck.floor("C44.missing-value", rows, 16, "rows of the command-line outcome table")
    # provenance: the parsed text is the part after the first `=`, the key is the part before it
    for node, c in parses:
        if len(c.args) != 1:
            raise AnalysisError("option.parse() is not called with exactly the value text")
        chains = derivation(fi, c.args[0], lambda e: False)
        okv = True
        for ch in chains:
            if len(ch) == 1 and ch[0].op == "const":
                continue
            ops = [(st_.op, st_.detail) for st_ in ch]
            okv = okv and any(ops[i] == ("unpack", "2") and ops[i + 1][0] == ".partition" and ops[i + 1][1] == "'='" for i in range(len(ops) - 1))
        ck.ob("C44.missing-value", fi, c, okv, "the text parsed is the part after the first `=`")
    for ke in key_exprs:
        chains = derivation(fi, ke, lambda e: False)
        okn = bool(chains)
        for ch in chains:
            ops = [(st_.op, st_.detail) for st_ in ch]
            okn = okn and any(ops[i] == ("unpack", "0") and ops[i + 1][0] in (".partition",) and ops[i + 1][1] == "'='" for i in range(len(ops) - 1))
        ck.ob("C44.unknown-option", fi, ke, okn, "the option looked up is the name before `=`")


def _subst_calls(e, table):
    class T(ast.NodeTransformer):
        def visit(self, node):
            try:
                s = ast.unparse(node)
            except Exception:
                s = None
            if s in table:
                return ast.Constant(value=table[s])
            return self.generic_visit(node)

    return T().visit(copy.deepcopy(e))


def rule_set(ck):
    fi = ck.func(F, "_Option.set")
    prm = [p for p in fi.params() if p != "self"]
    if len(prm) != 1:
        raise AnalysisError("_Option.set does not take exactly the value")
    v = prm[0]
    cfg = fi.cfg
    stores = cfg.stmt_nodes(lambda n: n.kind == "stmt" and isinstance(n.ast, (ast.Assign, ast.AnnAssign)) and "self._value" in q.assigned_paths(n.ast))
    ck.floor("C44.set-typecheck", len(stores), 1, "stores in _Option.set")
    helpers_ = [c for c in q.calls(fi.node) if isinstance(c.func, ast.Attribute) and q.dotted(c.func.value) == "self" and c.func.attr != "callback"]
    if helpers_:
        raise AnalysisError("_Option.set calls %s: type checks inside helpers are not followed" % q.unparse(helpers_[0].func))
    fors = [n for n in own_nodes(fi.node) if isinstance(n, ast.For) and q.dotted(n.iter) == v and isinstance(n.target, ast.Name)]
    item = fors[0].target.id if fors else None
    T_MULT, T_LIST, T_NONE, T_INST = "self.multiple", "isinstance(%s, list)" % v, "%s is None" % v, "isinstance(%s, self.type)" % v
    tracked = {T_MULT, T_LIST, T_NONE, T_INST}
    if item:
        I_NONE, I_INST = "%s is None" % item, "isinstance(%s, self.type)" % item
        tracked |= {I_NONE, I_INST}
    res = {}
    # item check written as any()/all() over the value: the generator's predicate is folded for the three kinds of item
    agg = {}  # canonical test text -> polarity the test has when every item is acceptable
    for tn in cfg.stmt_nodes(lambda n: n.kind == "test"):
        c_ = tn.ast
        if isinstance(c_, ast.Call) and isinstance(c_.func, ast.Name) and c_.func.id in ("any", "all") and len(c_.args) == 1 and isinstance(c_.args[0], (ast.GeneratorExp, ast.ListComp)):
            g_ = c_.args[0]
            if len(g_.generators) == 1 and q.dotted(g_.generators[0].iter) == v and isinstance(g_.generators[0].target, ast.Name) and not g_.generators[0].ifs:
                it_ = g_.generators[0].target.id
                rows_ = {}
                for kind_ in ("none", "inst", "bad"):
                    tbl = {"%s is None" % it_: kind_ == "none", "%s is not None" % it_: kind_ != "none", "isinstance(%s, self.type)" % it_: kind_ == "inst"}
                    try:
                        rows_[kind_] = bool(q.fold(_subst_calls(g_.elt, tbl), {}))
                    except q.NotFoldable as e:
                        raise AnalysisError("_Option.set: item predicate %s not foldable (%s)" % (q.unparse(g_.elt)[:60], e))
                if c_.func.id == "any" and rows_ == {"none": False, "inst": False, "bad": True}:
                    agg[q.unparse(c_)] = False   # any(bad items) must be false at the store
                elif c_.func.id == "all" and rows_ == {"none": True, "inst": True, "bad": False}:
                    agg[q.unparse(c_)] = True
                else:
                    ck.ob("C44.set-typecheck", fi, c_, False, "the item check accepts exactly None and instances of the option's type (folded: %s)" % rows_)
    tracked |= set(agg)

    def tr(n, val):
        if n.kind == "for" and item and n.ast is fors[0]:
            return "iter"
        return val

    seen = explore(cfg, "init", tr, lambda t: t in tracked, follow_exc=False)
    for s in stores:
        ck.ob("C44.set-typecheck", fi, s.ast, q.dotted(s.ast.value) == v, "set() stores the checked value itself")
        for facts, _val in sorted(seen.get(s.id, ()), key=repr):
            fs = dict(facts)
            if fs.get(T_MULT) is True:
                items_ok = item is not None or any(fs.get(t_) is pol_ for t_, pol_ in agg.items())
                if fs.get(T_LIST) is True and not items_ok and any(isinstance(x, (ast.GeneratorExp, ast.ListComp, ast.For, ast.While)) for x in ast.walk(fi.node)):
                    raise AnalysisError("_Option.set: the per-item check is in a shape that is not recognised")
                ok = fs.get(T_LIST) is True and items_ok
                ck.ob("C44.set-typecheck", fi, s.ast, ok, "multiple option: the value stored is a list whose items were checked", construct="multiple list=%s" % fs.get(T_LIST))
            elif fs.get(T_MULT) is False:
                ok = fs.get(T_NONE) is True or fs.get(T_INST) is True
                ck.ob("C44.set-typecheck", fi, s.ast, ok, "single option: the value stored is None or an instance of the option's type", construct="single none=%s inst=%s" % (fs.get(T_NONE), fs.get(T_INST)))
            else:
                raise AnalysisError("_Option.set stores without branching on self.multiple: unknown idiom")
    if item:
        back = [n for n in cfg.nodes if n.kind == "for" and n.ast is fors[0]]
        k = 0
        for facts, val in sorted(seen.get(back[0].id, ()), key=repr):
            if val != "iter":
                continue
            k += 1
            fs = dict(facts)
            ck.ob("C44.set-typecheck", fi, fors[0].iter, fs.get(I_NONE) is True or fs.get(I_INST) is True, "an iteration of the item check completes only for None or an instance of the option's type",
                  construct="item none=%s inst=%s" % (fs.get(I_NONE), fs.get(I_INST)))
        ck.floor("C44.set-typecheck", k, 1, "completed item-check iterations")


def rule_config(ck):
    """parse_config_file, decided by finite-domain evaluation: for every combination of (value kind, option.type is str,
    option.multiple) the loop body is folded (named booleans and aliases included) and must reach exactly parse / set / raise."""
    outer = ck.func(F, "OptionParser.parse_config_file")
    fi = outer
    call_in_outer = None
    if not call_sites(fi, ".parse"):
        # the per-value dispatch was moved into a private helper (module function or method): analyse it there
        cands = []
        for node, c in outer.cfg.find(lambda x: isinstance(x, ast.Call)):
            h = None
            if isinstance(c.func, ast.Name) and ck.repo.has_func(F, c.func.id):
                h = ck.repo.func(F, c.func.id)
            elif isinstance(c.func, ast.Attribute) and q.dotted(c.func.value) in ("self", "OptionParser") and ck.repo.has_func(F, "OptionParser." + c.func.attr):
                h = ck.repo.func(F, "OptionParser." + c.func.attr)
            if h is not None and call_sites(h, ".parse") and call_sites(h, ".set"):
                cands.append((node, c, h))
        if len(cands) != 1:
            raise AnalysisError("parse_config_file: no option.parse site and no single helper that dispatches the value (found %d)" % len(cands))
        call_in_outer, hc, fi = cands[0]
        ck.use(fi)
        hp = [p for p in fi.params() if p not in ("self", "cls")]
        if len(hp) != len(hc.args) or hc.keywords:
            raise AnalysisError("parse_config_file: helper %s is not called positionally" % fi.qualname)
        subs_args = [i for i, a in enumerate(hc.args) if isinstance(resolve_local(outer, a), ast.Subscript) and "_options" not in q.unparse(resolve_local(outer, a))]
        if len(subs_args) != 1:
            raise AnalysisError("parse_config_file: cannot tell which helper argument is the config value")
    cfg = fi.cfg
    parses = call_sites(fi, ".parse")
    sets = call_sites(fi, ".set")
    ck.floor("C44.config-dispatch", len(parses), 1, "option.parse sites in parse_config_file")
    ck.floor("C44.config-dispatch", len(sets), 1, "option.set sites in parse_config_file")
    if not parses[0][1].args:
        raise AnalysisError("option.parse() without argument in parse_config_file")
    V = resolve_local(fi, parses[0][1].args[0])
    if call_in_outer is None:
        if not isinstance(V, ast.Subscript):
            raise AnalysisError("parse_config_file: the parsed value is not an element of the config namespace")
    else:
        if not (isinstance(V, ast.Name) and V.id == hp[subs_args[0]]):
            raise AnalysisError("%s: the parsed value is not the config value parameter" % fi.qualname)
    vtxt = q.unparse(V)
    recv = q.receiver(parses[0][1])
    is_V = lambda x: q.unparse(resolve_local(fi, x)) == vtxt
    for node, c in parses + sets:
        ck.ob("C44.config-dispatch", fi, c, len(c.args) == 1 and is_V(c.args[0]) and q.receiver(c) == recv, "the config value itself is handed to the option")

    def make_subst(kind, type_str, mult):
        def kind_of(t):
            if isinstance(t, ast.Name):
                return {"str": kind == "str", "list": kind == "list"}.get(t.id)
            if isinstance(t, ast.Tuple):
                ks = [kind_of(x) for x in t.elts]
                return None if None in ks else any(ks)
            return None

        class T(ast.NodeTransformer):
            def visit_Compare(self, node):
                if len(node.ops) == 1:
                    l, op, r = node.left, node.ops[0], node.comparators[0]
                    if isinstance(l, ast.Call) and q.dotted(l.func) == "type" and len(l.args) == 1 and is_V(l.args[0]) and isinstance(r, ast.Name) and isinstance(op, (ast.Is, ast.Eq, ast.IsNot, ast.NotEq)):
                        k = kind_of(r)
                        if k is not None:
                            return ast.Constant(value=k if isinstance(op, (ast.Is, ast.Eq)) else not k)
                    if q.dotted(l) == recv + ".type" and isinstance(r, ast.Name) and r.id == "str" and isinstance(op, (ast.Is, ast.Eq, ast.IsNot, ast.NotEq)):
                        return ast.Constant(value=type_str if isinstance(op, (ast.Is, ast.Eq)) else not type_str)
                    if isinstance(op, (ast.In, ast.NotIn)) and q.dotted(r) == "self._options":
                        return ast.Constant(value=isinstance(op, ast.In))  # a defined option is being considered
                return self.generic_visit(node)

            def visit_Call(self, node):
                if q.dotted(node.func) == "isinstance" and len(node.args) == 2 and is_V(node.args[0]):
                    k = kind_of(node.args[1])
                    if k is not None:
                        return ast.Constant(value=k)
                return self.generic_visit(node)

            def visit_Attribute(self, node):
                if q.dotted(node) == recv + ".multiple":
                    return ast.Constant(value=mult)
                return self.generic_visit(node)

        import copy as _copy
        return lambda e: T().visit(_copy.deepcopy(e))

    pid = {n.id for n, _c in parses}
    sid = {n.id for n, _c in sets}
    event = lambda n: "parse" if n.id in pid else ("set" if n.id in sid else None)
    rows = 0
    for kind in ("str", "list", "other"):
        for type_str in (True, False):
            for mult in (True, False):
                outs = concrete_paths(fi, {}, event, subst=make_subst(kind, type_str, mult), cut=lambda n, trace: n.kind == "for" and len(trace) > 0)
                outs = {(k, t) for k, t in outs if t or k == "raise"}
                got = sorted({("raise",) if k == "raise" and not t else t for k, t in outs})
                if len(got) != 1:
                    raise AnalysisError("parse_config_file: outcome for (value is %s, option.type is str=%s, multiple=%s) is not determined by folding (%s)" % (kind, type_str, mult, got))
                if kind == "str" and (not type_str or mult):
                    want = [("parse",)]
                    why = "a str given for a non-str or multiple option is parsed like a command-line value (never stored unparsed)"
                elif kind == "other" and mult:
                    want = [("raise",), ("set",)]
                    why = "a non-list, non-str value for a multiple option is rejected"
                else:
                    want = [("set",)]
                    why = "typed values (and str for plain str options) go through the type-checking set()"
                rows += 1
                ck.ob("C44.config-dispatch", fi, fi.node, got[0] in want, "%s (value kind %s, type is str=%s, multiple=%s -> %s)" % (why, kind, type_str, mult, ",".join(got[0])),
                      construct="config kind=%s type_str=%s multiple=%s -> %s" % (kind, type_str, mult, ",".join(got[0])))
    ck.floor("C44.config-dispatch", rows, 12, "rows of the config dispatch table")
    # only names of defined options are applied
    if call_in_outer is None:
        facts = must_facts(cfg)
        for node, c in parses + sets:
            defined = [t for t, pol in facts[node.id] if pol and t.endswith(" in self._options")]
            ck.ob("C44.config-dispatch", fi, c, bool(defined), "config names are applied only when they are defined options", construct="defined-guard " + q.unparse(c))
    else:
        facts = must_facts(outer.cfg)
        defined = [t for t, pol in facts[call_in_outer.id] if pol and t.endswith(" in self._options")]
        ck.ob("C44.config-dispatch", outer, call_in_outer.ast, bool(defined), "config names are applied only when they are defined options", construct="defined-guard helper-call")


def _helper_resolver(ck, cls):
    def res(name):
        return ck.repo.func(F, cls + "." + name) if ck.repo.has_func(F, cls + "." + name) else None
    return res


def rule_value_exact(ck):
    """Class 'normaliser / strip / lower applied to more than the part it is meant for': option values are byte-exact."""
    fi = ck.func(F, "OptionParser.parse_command_line")
    argsp = [p for p in fi.params() if p != "self"][0]
    is_src = lambda e: isinstance(e, ast.Subscript) and q.dotted(e.value) == argsp and not isinstance(e.slice, ast.Slice)

    def allowed_cl(st):
        if st.op in ("unpack", "[]"):
            return True
        if st.op == ".partition" and st.detail == "'='":
            return True
        if st.op == ".split" and st.detail in ("'=', 1", "'=', maxsplit=1"):
            return True
        if st.op == ".lstrip" and st.detail == "'-'":
            return True  # leading dashes of the whole argument: never part of a value (the name comes first)
        if st.op in ("str()",):
            return True
        return False

    n = 0
    for node, c in call_sites(fi, ".parse"):
        if c.args:
            n += check_exact(ck, "C44.value-exact", fi, c.args[0], is_src, allowed_cl,
                             "the text handed to option.parse is the argument's part after '=' unchanged (no normalising, stripping or case folding of values)",
                             resolve_helper=_helper_resolver(ck, "OptionParser"), node=c)
    ck.floor("C44.value-exact", n, 1, "value derivations on the command line")
    # _Option.parse: the pieces handed to the type parser are cut out of the text, not rewritten
    parse = ck.func(F, "_Option.parse")
    prm = [p for p in parse.params() if p != "self"][0]
    is_src2 = lambda e: isinstance(e, ast.Name) and e.id == prm
    sel = None
    for nn in own_nodes(parse.node):
        if isinstance(nn, (ast.Assign, ast.AnnAssign)) and isinstance(nn.value, ast.Call) and isinstance(nn.value.func, ast.Attribute) and nn.value.func.attr == "get" and isinstance(nn.value.func.value, ast.Dict):
            sel = [p for p in q.assigned_paths(nn)][0]

    def allowed_parse(st):
        if st.op in ("unpack", "[]"):
            return True
        if st.op == ".split" and st.detail == "','":
            return True
        if st.op in (".partition", ".split") and st.detail.startswith("':'"):
            return True
        return False

    m = 0
    for c in q.calls(parse.node):
        if sel and q.dotted(c.func) == sel and len(c.args) == 1:
            # derivation stops at the parameter itself (a Name without local definitions)
            m += check_exact(ck, "C44.value-exact", parse, c.args[0], lambda e: isinstance(e, ast.Name) and e.id == prm, allowed_parse,
                             "the type parser sees the given text, or a comma/colon-separated piece of it, unchanged", resolve_helper=_helper_resolver(ck, "_Option"), node=c)
    for c in q.calls(parse.node):
        ph = _parser_helper(c, sel) if sel else None
        if ph is not None:
            h_, hsel, htext, targ = ph
            check_exact(ck, "C44.value-exact", parse, targ, lambda e: isinstance(e, ast.Name) and e.id == prm, allowed_parse,
                        "the text handed to the range helper is a comma-separated piece of the given text, unchanged", resolve_helper=_helper_resolver(ck, "_Option"), node=c)
            for c2 in q.calls(h_.node):
                if q.dotted(c2.func) == hsel and len(c2.args) == 1:
                    m += check_exact(ck, "C44.value-exact", ck.use(h_), c2.args[0], lambda e: isinstance(e, ast.Name) and e.id == htext, allowed_parse,
                                     "the type parser sees the given text, or a comma/colon-separated piece of it, unchanged", resolve_helper=_helper_resolver(ck, "_Option"), node=c2)
    ck.floor("C44.value-exact", m, 3, "parser applications in _Option.parse")


def rule_whole_text(ck):
    """The timedelta parser consumes the whole text with anchored matches; the int-range syntax is applied to integral
    options only; the command-line scan starts after the program name."""
    td = ck.func(F, "_Option._parse_timedelta")
    prm = [p for p in td.params() if p != "self"][0]
    ms = [c for c in q.calls(td.node) if isinstance(c.func, ast.Attribute) and c.func.attr in ("match", "search", "fullmatch", "finditer", "findall") and "PATTERN" in (q.dotted(c.func.value) or "")]
    if len(ms) != 1:
        raise AnalysisError("_parse_timedelta: expected one application of the timedelta pattern")
    m = ms[0]
    if m.func.attr == "fullmatch" and len(m.args) == 1:
        ck.ob("C44.whole-text", td, m, q.dotted(m.args[0]) == prm, "the whole text must match")
    else:
        pos = q.dotted(m.args[1]) if len(m.args) > 1 else None
        ck.ob("C44.whole-text", td, m, m.func.attr == "match" and q.dotted(m.args[0]) == prm and pos is not None,
              "each component is matched *at* the current position (match, not search): garbage between or before components is not skipped")
        if pos is not None:
            loops = [n for n in own_nodes(td.node) if isinstance(n, ast.While) and pos in q.names_in(n.test)]
            if len(loops) != 1:
                raise AnalysisError("_parse_timedelta: expected one loop over the scan position")
            lp = loops[0]
            try:
                ts = q.truth_set(expand_locals(td, lp.test, keep={pos}), pos, range(0, 6), {prm: "abcd"})
            except q.NotFoldable as e:
                raise AnalysisError("_parse_timedelta loop test not foldable: %s" % e)
            ck.ob("C44.whole-text", td, lp.test, ts == {0, 1, 2, 3}, "the scan continues until the position reaches the end of the text (true-set for a 4-character text: %s)" % sorted(ts))
            mname = None
            pm = q.parent_map(td.node)
            st = q.enclosing_stmt(pm, m)
            if isinstance(st, ast.Assign) and isinstance(st.targets[0], ast.Name):
                mname = st.targets[0].id
            adv = [n for n in own_nodes(lp) if isinstance(n, ast.Assign) and pos in q.assigned_paths(n)]
            ck.ob("C44.whole-text", td, adv[0] if adv else lp, len(adv) == 1 and mname is not None and q.unparse(adv[0].value) == "%s.end()" % mname, "the next match starts exactly where the previous one ended")
            # a failed match rejects
            facts = must_facts(td.cfg)
            for node in td.cfg.stmt_nodes(lambda n: n.kind == "stmt" and isinstance(n.ast, ast.Raise) and n.ast.exc is not None):
                pass
            fails = [n for n in td.cfg.stmt_nodes(lambda n: n.kind == "test" and mname is not None and canon_fact(n.ast, True)[0] in (mname, "%s is None" % mname))]
            ok_fail = False
            for tn in fails:
                t, pol = canon_fact(tn.ast, True)
                fail_edge = "false" if t == mname else "true"
                tg = [td.cfg.nodes[sid] for sid, kind in td.cfg.succ[tn.id] if kind == fail_edge]
                ok_fail = ok_fail or (len(tg) == 1 and tg[0].kind == "stmt" and isinstance(tg[0].ast, ast.Raise))
                if not ok_fail and len(tg) == 1 and tg[0].kind == "stmt" and any(isinstance(x, ast.Call) and (_callee_in_module(x) is not None) for x in ast.walk(tg[0].ast)):
                    raise AnalysisError("_parse_timedelta: the no-match branch calls a helper (not followed)")
            ck.ob("C44.whole-text", td, m, ok_fail, "a position where no component matches raises (no break / skip)", construct="no-match-raises")
    # unknown units are not silently read as some default unit
    for c in q.calls(td.node):
        if isinstance(c.func, ast.Attribute) and c.func.attr == "get" and "ABBREV" in (q.dotted(c.func.value) or "") and len(c.args) == 2:
            ck.ob("C44.whole-text", td, c, q.unparse(c.args[0]) == q.unparse(c.args[1]), "an unknown unit abbreviation stays unknown (and is then rejected by timedelta), it is not mapped to a default unit")
    # every datetime format is tried: a mismatch of one format only moves on to the next
    dt = ck.func(F, "_Option._parse_datetime")
    pmd = q.parent_map(dt.node)
    sps = [c for c in q.calls(dt.node) if q.call_attr(c) == "strptime"]
    ck.floor("C44.whole-text", len(sps), 1, "strptime calls")
    for c in sps:
        h = protected(pmd, c, "ValueError")
        moves_on = h is not None and (isinstance(h, (ast.With, ast.AsyncWith)) or not any(isinstance(x, (ast.Raise, ast.Return, ast.Break)) for st_ in h.body for x in q.walk_local(st_)))
        in_loop = any(isinstance(a, ast.For) and "FORMATS" in q.unparse(a.iter) for a in q.ancestors(pmd, c))
        ck.ob("C44.whole-text", dt, c, moves_on and in_loop, "a format that does not match is skipped (ValueError handled without leaving the loop over all supported formats)")
    # int ranges only for integral option types
    parse = ck.func(F, "_Option.parse")
    facts = must_facts(parse.cfg)
    k = 0
    for node, c in parse.cfg.find(lambda x: isinstance(x, ast.Call) and isinstance(x.func, ast.Attribute) and x.func.attr in ("partition", "split") and x.args and q.is_const(x.args[0], ":")):
        k += 1
        ok = any(pol and t.startswith("issubclass(self.type") and "Integral" in t or pol and t in ("self.type is int", "self.type == int") for t, pol in expanded_facts(parse, facts[node.id]))
        ck.ob("C44.whole-text", parse, c, ok, "the lo:hi range syntax is applied only to integral options (a ':' in a str/datetime value is data)")
    if k == 0:
        # the split lives in a same-class helper: the guard is read at the helper's call site
        for node, c in parse.cfg.find(lambda x: isinstance(x, ast.Call) and _callee_in_module(x) is not None):
            h_ = _callee_in_module(c)
            if any(isinstance(x, ast.Call) and isinstance(x.func, ast.Attribute) and x.func.attr in ("partition", "split") and x.args and q.is_const(x.args[0], ":") for x in ast.walk(h_.node)):
                k += 1
                ok = any(pol and t.startswith("issubclass(self.type") and "Integral" in t or pol and t in ("self.type is int", "self.type == int") for t, pol in expanded_facts(parse, facts[node.id]))
                ck.ob("C44.whole-text", parse, c, ok, "the lo:hi range syntax is applied only to integral options (a ':' in a str/datetime value is data)")
    ck.floor("C44.whole-text", k, 1, "range splits in _Option.parse")
    # command-line scan starts at index 1
    fi = ck.func(F, "OptionParser.parse_command_line")
    argsp = [p for p in fi.params() if p != "self"][0]
    fors = [n for n in own_nodes(fi.node) if isinstance(n, ast.For) and argsp in q.names_in(n.iter)]
    if len(fors) != 1:
        raise AnalysisError("parse_command_line: expected one loop over the arguments")
    it = fors[0].iter
    try:
        v = q.fold(it, {argsp: ("prog", "--a=1", "--b=2")})
        seq = list(v)
    except Exception as e:
        raise AnalysisError("parse_command_line: loop range %s not foldable (%s)" % (q.unparse(it), e))
    ck.ob("C44.whole-text", fi, it, seq in ([1, 2], ["--a=1", "--b=2"]), "the scan covers every argument after the program name (for a 3-element argv: %s)" % seq)


def rule_defaults(ck):
    """Class 'truthiness test where an empty/zero value is legal'."""
    fi = ck.func(F, "OptionParser.parse_command_line")
    argsp = [p for p in fi.params() if p != "self"][0]
    is_loop = lambda n: n.kind == "for" and argsp in q.names_in(n.ast.iter)
    k = check_default_only_for_none(ck, "C44.defaults", fi, argsp, [[], ["prog"], ["prog", "--a=b"]], is_loop, "explicit argument list (an empty list is a legal command line and must not fall back to sys.argv)")
    init = ck.func(F, "_Option.__init__")
    is_store = lambda n: n.kind == "stmt" and isinstance(n.ast, (ast.Assign, ast.AnnAssign)) and "self.default" in q.assigned_paths(n.ast)
    for mult in (False, True):
        k += check_default_only_for_none(ck, "C44.defaults", init, "default", [0, "", 5], is_store, "option default (falsy defaults are real defaults)", other_env={"multiple": mult})
    # define(): the type is inferred from a falsy default just as from any other (0 -> int, not str)
    d = ck.func(F, "OptionParser.define")
    is_ctor = lambda n: n.kind == "stmt" and any(q.is_call(c, "_Option") for c in q.calls(n.ast))
    for dv in (0, False, 0.0, "", 7):
        flow = param_value_flow(d, "type", [None], is_ctor, other_env={"default": dv, "multiple": False, "str": "<str>"})
        got = flow[None]
        if not got:
            raise AnalysisError("OptionParser.define: the _Option(...) construction is not reached in the value flow")
        k += 1
        ck.ob("C44.defaults", d, d.node, got == {DEFAULT}, "define(default=%r) without type infers the type from the default (not str); type at construction: %s" % (dv, sorted(map(repr, got))),
              construct="type inferred for default=%r" % (dv,))
    ck.floor("C44.defaults", k, 10, "default/legal-value propagations")


def run(ck):
    ck.repo = strip_annotations(ck.repo, F)
    ck.rule("C44.whole-text", "timedelta text is consumed completely by anchored matches; lo:hi ranges only for integral options; the command-line scan starts after argv[0] and covers every argument")
    ck.rule("C44.value-exact", "option values reach the type parser byte-exact: only partition/split/slicing between the argument and the parser, no normaliser/strip/lower")
    ck.rule("C44.defaults", "defaults replace only None: an explicit empty argument list, falsy option defaults and falsy defaults used for type inference are honoured")
    ck.rule("C44.dispatch", "_Option.parse selects the parser by self.type from a table that has entries for bool, datetime and timedelta and falls back to the type's constructor")
    ck.rule("C44.rejecting-path", "every non-string parser of the dispatch table has an effective rejecting path (raise / failing lookup not swallowed)")
    ck.rule("C44.no-passthrough", "no non-string parser returns its raw input")
    ck.rule("C44.stores-parsed", "everything _Option.parse stores in self._value is a result of the selected parser applied to the given text")
    ck.rule("C44.default", "value() returns the default exactly when the option is unset")
    ck.rule("C44.unknown-option", "an unrecognised command-line name always ends in an exception")
    ck.rule("C44.missing-value", "a missing `=value` is accepted only for bool options; the parsed text is the part after `=`")
    ck.rule("C44.set-typecheck", "_Option.set stores only None / instances of the option type (a list of such for multiple)")
    ck.rule("C44.config-dispatch", "parse_config_file parses str values of non-str or multiple options and type-checks everything else through set()")
    global _REPO
    _REPO = ck.repo
    parse, entries, sel = rule_dispatch(ck)
    rule_parsers(ck, entries)
    rule_stores(ck, parse, sel)
    rule_default(ck)
    rule_command_line(ck)
    rule_value_exact(ck)
    rule_whole_text(ck)
    rule_defaults(ck)
    rule_set(ck)
    rule_config(ck)


# ---------------------------------------------------------------------------
# mutants


def _m(qn, edit):
    return lambda repo: mutate(repo, F, qn, edit)


def _src(n):
    return ast.unparse(n)


def _ignore_unknown(root):
    for n in ast.walk(root):
        if isinstance(n, ast.If) and "not in self._options" in _src(n.test):
            n.body = [ast.Continue()]
            return True
    return False


def _drop_else_check(root):
    for n in ast.walk(root):
        if isinstance(n, ast.If) and _src(n.test) == "self.multiple" and n.orelse:
            n.orelse = []
            return True
    return False


def _drop_item_loop(root):
    for n in ast.walk(root):
        if isinstance(n, ast.If) and _src(n.test) == "self.multiple":
            n.body = [st for st in n.body if not isinstance(st, ast.For)]
            return True
    return False


def _normalize_whole(root):
    for n in ast.walk(root):
        body = getattr(n, "body", None)
        if isinstance(body, list):
            for i, st in enumerate(body):
                if isinstance(st, ast.Assign) and _src(st) == "arg = args[i].lstrip('-')":
                    body[i] = parse_stmt("arg = self._normalize_name(args[i].lstrip('-'))")
                    body[:] = [x for x in body if _src(x) != "name = self._normalize_name(name)"]
                    return True
    return False


MUTANTS = [
    ("seeded C44-adv1: name normaliser applied to the whole name=value argument", _m("OptionParser.parse_command_line", _normalize_whole), "C44.value-exact"),
    ("command-line values stripped of surrounding whitespace", _m("OptionParser.parse_command_line", replace_expr(lambda n: isinstance(n, ast.Call) and _src(n) == "option.parse(value)", lambda n: parse_expr("option.parse(value.strip())"))), "C44.value-exact"),
    ("multiple: parts lower-cased before parsing", _m("_Option.parse", replace_expr(lambda n: isinstance(n, ast.Call) and _src(n) == "value.split(',')", lambda n: parse_expr("value.lower().split(',')"))), "C44.value-exact"),
    ("explicit empty argument list falls back to sys.argv", _m("OptionParser.parse_command_line", replace_expr(lambda n: isinstance(n, ast.Compare) and _src(n) == "args is None", lambda n: parse_expr("not args"))), "C44.defaults"),
    ("falsy option default replaced for multiple options", _m("_Option.__init__", replace_expr(lambda n: isinstance(n, ast.Compare) and _src(n) == "default is None", lambda n: parse_expr("not default"))), "C44.defaults"),
    ("type inferred only from truthy defaults", _m("OptionParser.define", replace_expr(lambda n: isinstance(n, ast.Compare) and _src(n) == "default is not None", lambda n: ast.Name(id="default", ctx=ast.Load()))), "C44.defaults"),
    ("unknown timedelta units read as seconds", _m("_Option._parse_timedelta", replace_expr(lambda n: isinstance(n, ast.Call) and _src(n) == "self._TIMEDELTA_ABBREV_DICT.get(units, units)", lambda n: parse_expr("self._TIMEDELTA_ABBREV_DICT.get(units, 'seconds')"))), "C44.whole-text"),
    ("datetime parsing gives up after the first format", _m("_Option._parse_datetime", replace_expr(lambda n: isinstance(n, ast.ExceptHandler), lambda n: ast.ExceptHandler(type=n.type, name=None, body=[ast.Break()]))), "C44.whole-text"),
    ("timedelta components found with search (garbage skipped)", _m("_Option._parse_timedelta", replace_expr(lambda n: isinstance(n, ast.Attribute) and n.attr == "match", lambda n: ast.Attribute(value=n.value, attr="search", ctx=ast.Load()))), "C44.whole-text"),
    ("timedelta scan stops one character early", _m("_Option._parse_timedelta", replace_expr(lambda n: isinstance(n, ast.Compare) and _src(n) == "start < len(value)", lambda n: parse_expr("start < len(value) - 1"))), "C44.whole-text"),
    ("range syntax applied to every multiple option", _m("_Option.parse", replace_expr(lambda n: isinstance(n, ast.Call) and _src(n).startswith("issubclass(self.type"), lambda n: parse_expr("':' in part"))), "C44.whole-text"),
    ("command-line scan skips the first option", _m("OptionParser.parse_command_line", replace_expr(lambda n: isinstance(n, ast.Call) and _src(n) == "range(1, len(args))", lambda n: parse_expr("range(2, len(args))"))), "C44.whole-text"),
    ("value split at the last '='", _m("OptionParser.parse_command_line", replace_expr(lambda n: isinstance(n, ast.Attribute) and n.attr == "partition", lambda n: ast.Attribute(value=n.value, attr="rpartition", ctx=ast.Load()))), "C44.value-exact"),
    ("seeded C44-adv4: missing-value test on the value instead of the separator", _m("OptionParser.parse_command_line", replace_expr(lambda n: isinstance(n, ast.UnaryOp) and _src(n) == "not equals", lambda n: parse_expr("not value"))), "C44.missing-value"),
    ("empty values silently skipped (`if value:` around parse)", _m("OptionParser.parse_command_line", replace_stmt(lambda st: isinstance(st, ast.Expr) and _src(st) == "option.parse(value)", lambda st: [parse_stmt("if value:\n    option.parse(value)")])), "C44.missing-value"),
    ("unknown command-line option silently ignored", _m("OptionParser.parse_command_line", _ignore_unknown), "C44.unknown-option"),
    ("datetime parser returns its input when no format matches", _m("_Option._parse_datetime", replace_stmt(lambda st: isinstance(st, ast.Raise), lambda st: [parse_stmt("return value")])), ("C44.rejecting-path", "C44.no-passthrough")),
    ("timedelta parser accepts a valid prefix and ignores trailing garbage", _m("_Option._parse_timedelta", replace_stmt(lambda st: isinstance(st, ast.Raise) and st.exc is not None, lambda st: [ast.Break()])), "C44.rejecting-path"),
    ("timedelta parser swallows its own error", _m("_Option._parse_timedelta", replace_stmt(lambda st: isinstance(st, ast.Raise) and st.exc is None, lambda st: [parse_stmt("return datetime.timedelta()")])), "C44.rejecting-path"),
    ("missing value accepted for every type", _m("OptionParser.parse_command_line", replace_stmt(lambda st: isinstance(st, ast.Raise) and "requires a value" in _src(st), lambda st: [parse_stmt("value = ''")])), "C44.missing-value"),
    ("bool entry dropped from the dispatch (falls back to bool(text))", _m("_Option.parse", lambda root: _drop_entry(root, "bool")), "C44.dispatch"),
    ("multiple: raw part appended unparsed", _m("_Option.parse", replace_expr(lambda n: isinstance(n, ast.Call) and _src(n) == "_parse(part)", lambda n: ast.Name(id="part", ctx=ast.Load()))), "C44.stores-parsed"),
    ("set() stores single values unchecked", _m("_Option.set", _drop_else_check), "C44.set-typecheck"),
    ("set() does not check list items", _m("_Option.set", _drop_item_loop), "C44.set-typecheck"),
    ("config: comma-separated str for a multiple str option stored unparsed", _m("OptionParser.parse_config_file", replace_expr(lambda n: isinstance(n, ast.BoolOp) and isinstance(n.op, ast.Or) and "option.multiple" in _src(n), lambda n: n.values[0])), "C44.config-dispatch"),
    ("config: str values never parsed for typed options", _m("OptionParser.parse_config_file", replace_expr(lambda n: isinstance(n, ast.Compare) and _src(n) == "option.type is not str", lambda n: parse_expr("option.type is str"))), "C44.config-dispatch"),
    ("falsy values fall back to the default", _m("_Option.value", replace_expr(lambda n: isinstance(n, ast.Compare) and "UNSET" in _src(n), lambda n: parse_expr("self._value is _Option.UNSET or not self._value"))), "C44.default"),
    ("whole argument parsed instead of the value", _m("OptionParser.parse_command_line", replace_expr(lambda n: isinstance(n, ast.Call) and _src(n) == "option.parse(value)", lambda n: parse_expr("option.parse(arg)"))), "C44.missing-value"),
    ("range bound taken from the raw text", _m("_Option.parse", replace_expr(lambda n: isinstance(n, ast.IfExp) and "hi_str" in _src(n), lambda n: parse_expr("int(hi_str) if hi_str else lo"))), "C44.stores-parsed"),
]


def _drop_entry(root, key):
    for n in ast.walk(root):
        if isinstance(n, ast.Dict):
            for i, k in enumerate(n.keys):
                if k is not None and _src(k) == key:
                    del n.keys[i]
                    del n.values[i]
                    return True
    return False
